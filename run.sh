#!/bin/sh
# Runs the static checker against /repo's current working tree.
export GOFLAGS=-mod=mod GOPROXY=off GOSUMDB=off GOTOOLCHAIN=local GOWORK=off CGO_ENABLED=0
unset GOOS GOARCH
cd /verif || exit 2
if [ ! -x /verif/bin/spgcheck ] || [ -n "$(find /verif/checker -newer /verif/bin/spgcheck -name '*.go' -print -quit 2>/dev/null)" ]; then
  (cd /verif/checker && go build -o /verif/bin/spgcheck ./cmd/spgcheck) || { echo "build of spgcheck failed" >&2; exit 2; }
fi
/verif/bin/spgcheck "$@"
rc=$?
# A check that dies (checker crash, resource exhaustion) has decided nothing: that is a failure of the
# property's check, reported in the same form as a violation (never a silent pass, never an odd status).
if [ "$1" = "check" ] && [ $rc -ne 0 ] && [ $rc -ne 1 ]; then
  prop=""; prev=""
  for a in "$@"; do [ "$prev" = "-prop" ] && prop="$a"; prev="$a"; done
  mkdir -p /verif/evidence
  echo "{\"property\":\"$prop\",\"reason\":\"the checker ended abnormally (status $rc) before deciding the property\"}" > "/verif/evidence/$prop.violations.json"
  echo "VIOLATION property=$prop replay=/verif/evidence/$prop.violations.json"
  exit 1
fi
exit $rc
