#!/bin/sh
# Runs the static checker against /repo's current working tree.
export GOFLAGS=-mod=mod GOPROXY=off GOSUMDB=off GOTOOLCHAIN=local GOWORK=off CGO_ENABLED=0
unset GOOS GOARCH
cd /verif || exit 2
if [ ! -x /verif/bin/spgcheck ] || [ -n "$(find /verif/checker -newer /verif/bin/spgcheck -name '*.go' -print -quit 2>/dev/null)" ]; then
  (cd /verif/checker && go build -o /verif/bin/spgcheck ./cmd/spgcheck) || { echo "build of spgcheck failed" >&2; exit 2; }
fi
exec /verif/bin/spgcheck "$@"
