// Package spg (fixture): one seeded positive per zero-expected-count rule of C09.
// This is NOT the real library; it only has to type-check.
package spg

import (
	"crypto/rand"
	"fmt"
	mrand "math/rand" // R9.1 forbidden import
	"time"
)

type Password struct{ s string }

type CharRecipe struct{ Length int }
type WLRecipe struct{ Length int }

var abc = []string{"a", "b", "c"}

func raw() uint32 {
	b := make([]byte, 4)
	_, _ = rand.Read(b) // R9.3 results discarded
	return uint32(b[0])
}

func bare() uint32 {
	b := make([]byte, 4)
	n, err := rand.Reader.Read(b) // R9.2 bare Reader.Read
	if err != nil || n == 0 {
		fmt.Println("ignored") // R9.3 falls through
	}
	return uint32(b[1])
}

func (r CharRecipe) Generate() (*Password, error) {
	defer func() { recover() }() // R9.4
	i := time.Now().Nanosecond() % len(abc) // R9.1 ambient, R9.5 index source
	j := mrand.Intn(len(abc))
	_ = raw() + bare()
	return &Password{abc[i] + abc[j]}, nil
}

func (r WLRecipe) Generate() (*Password, error) { return &Password{abc[0]}, nil }
