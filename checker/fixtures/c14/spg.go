// Package spg (fixture): seeded positives for the zero-expected-count rules of C14/C15.
package spg

import "time"

type Password struct{ s string }

type CharRecipe struct {
	Length      int
	RequireSets []string
	cache       []string
}

var hits int // package-level counter

var memo = map[int]string{}

// Generate has a pointer receiver and caches on it (R14.1), bumps a global
// (R14.5) and starts a goroutine (R14.6).
func (r *CharRecipe) Generate() (*Password, error) {
	if r.cache == nil {
		r.cache = []string{"a"}
	}
	hits++
	memo[r.Length] = "x"
	go func() {}()
	return &Password{r.cache[0]}, nil
}

// Entropy writes into the caller's slice through a value receiver.
func (r CharRecipe) Entropy() float32 {
	if len(r.RequireSets) > 0 {
		r.RequireSets[0] = "changed"
	}
	return 0
}

// Alphabet reads the computed field without recomputing it (R15.3) and
// consults the clock (R15.4).
func (r CharRecipe) Alphabet() string {
	if time.Now().Unix()%2 == 0 {
		return ""
	}
	return r.cache[0]
}
