package main

import "go.1password.io/spg"

func main() { r := &spg.CharRecipe{}; _, _ = r.Generate() }
