package main

import "go.1password.io/spg"

func main() { _, _ = spg.CharRecipe{}.Generate() }
