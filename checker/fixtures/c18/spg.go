// Package spg (fixture): a seeded positive for C18 — a drawn character is logged.
package spg

import (
	"crypto/rand"
	"encoding/binary"
	"log"
)

type Password struct{ s string }
type CharRecipe struct{ Length int }

func raw() uint32 {
	b := make([]byte, 4)
	if _, err := rand.Read(b); err != nil {
		panic("rng")
	}
	return binary.BigEndian.Uint32(b)
}

func draw(n uint32) uint32 {
	if n < 1 {
		panic("zero")
	}
	if n&(n-1) == 0 {
		return raw() & (n - 1)
	}
	for {
		v := raw()
		if v < uint32(4294967295-4294967295%n) {
			return v % n
		}
	}
}

var abc = []string{"a", "b", "c"}

func (r CharRecipe) Generate() (*Password, error) {
	c := abc[draw(uint32(len(abc)))]
	log.Println("picked", c) // R18.1
	return &Password{c}, nil
}
