module go.1password.io/spg

go 1.14
