package rules

import (
	"os"
	"fmt"
	"go/token"
	"go/types"
	"sort"
	"strings"

	"golang.org/x/tools/go/ssa"

	"spgverif/internal/core"
)

// Panic-freedom engine shared by C12 (Tokenize) and C13 (Generate).
//
// Starting from an entry function it walks the module part of the call graph
// context-sensitively (context = which pointer parameters / pointer fields of
// by-value struct parameters are known non-nil) and turns every instruction
// that can panic into an obligation:
//   index / slice bounds, negative make length        -> LIN prover (core/lin.go)
//   integer division by a non-constant                 -> LIN (divisor >= 1)
//   dereference of a pointer that may be nil           -> nilness facts (guards, context, summaries)
//   call of a possibly nil function value              -> nilness facts
//   explicit panic, non-comma-ok type assertion        -> named exemption with its own check, else violation
//   call of a foreign function                         -> allow-list of functions documented not to panic, else UNRECOGNISED

type nilCtx map[int]map[string]bool // param index -> set of non-nil paths ("" = the parameter itself)

func (c nilCtx) key() string {
	var parts []string
	for i, m := range c {
		for p := range m {
			parts = append(parts, fmt.Sprintf("%d%s", i, p))
		}
	}
	sort.Strings(parts)
	return strings.Join(parts, ",")
}

type panicEngine struct {
	p       *core.Program
	r       *core.Report
	rule    string
	roles   *Roles
	visited map[string]bool
	// exempt returns a reason when the instruction's panic is intended/separately justified
	exempt func(in ssa.Instruction) (string, bool)
	nSites int
	nFuncs int
	depth  int
}

// foreign functions that do not panic for any argument values the module can pass
var noPanicExternal = []string{
	"strings.Split", "strings.Join", "strings.Title", "strings.ContainsAny", "strings.Contains", "strings.ToLower", "strings.ToUpper",
	"strings.Replace", "strings.Fields", "strings.TrimSpace", "strings.HasPrefix", "strings.HasSuffix", "strings.Index", "strings.EqualFold",
	"fmt.Errorf", "fmt.Sprintf", "fmt.Sprint", "fmt.Printf", "fmt.Println", "fmt.Print", "errors.New",
	"math.Log2", "math.Pow", "math.Exp2", "math.Log", "math.Floor", "math.Ceil", "math.Abs", "math.Sqrt", "math.IsNaN", "math.IsInf",
	"log.Println", "log.Printf", "log.Print",
	"(*strings.Builder).WriteString", "(*strings.Builder).String", "(*strings.Builder).WriteByte", "(*strings.Builder).WriteRune", "(*strings.Builder).Len", "(*strings.Builder).Reset",
	"sort.Strings", "sort.Ints",
	"unicode/utf8.RuneCountInString", "unicode/utf8.RuneCount", "unicode/utf8.ValidString",
	"crypto/rand.Read", "io.ReadFull", "(encoding/binary.bigEndian).Uint32", "(encoding/binary.littleEndian).Uint32",
	"github.com/deckarep/golang-set.NewSet", "github.com/deckarep/golang-set.NewThreadUnsafeSet",
	"math/big.NewInt", "math/big.NewFloat", "(*math/big.Int).Exp", "(*math/big.Int).Sub", "(*math/big.Int).Add", "(*math/big.Int).Mul",
	"(*math/big.Float).SetInt", "(*math/big.Float).MantExp", "(*math/big.Float).Float64", "(*math/big.Int).Cmp", "(*math/big.Int).Sign",
	"(*math/big.Int).BitLen", "(*math/big.Int).SetInt64", "(*math/big.Float).SetFloat64",
}

func isNoPanicExternal(name string) bool {
	for _, n := range noPanicExternal {
		if n == name {
			return true
		}
	}
	return false
}

func (e *panicEngine) analyze(fn *ssa.Function, ctx nilCtx) {
	key := fn.String() + "|" + ctx.key()
	if e.visited[key] || e.depth > 12 {
		return
	}
	e.visited[key] = true
	e.nFuncs++
	e.depth++
	defer func() { e.depth-- }()
	name := core.FuncName(fn)
	pv := e.prover(fn)
	nf := &nilFacts{e: e, fn: fn, ctx: ctx}
	ctxNote := ""
	if k := ctx.key(); k != "" {
		ctxNote = " [non-nil on entry: " + k + "]"
	}
	oblige := func(in ssa.Instruction, construct string, ok bool, why string) {
		e.nSites++
		if !ok {
			if reason, ex := e.exempt(in); ex {
				e.r.Pass(e.rule, name, construct+" — exempt: "+reason, e.p.InstrPos(in), "")
				return
			}
		}
		e.r.Check(ok, e.rule, name, construct, e.p.InstrPos(in), why+ctxNote)
	}
	proveLE := func(b *ssa.BasicBlock, goal core.Lin) (bool, string) { return pv.ProveLE(b, goal) }

	for _, b := range fn.Blocks {
		for _, in := range b.Instrs {
			switch x := in.(type) {
			case *ssa.IndexAddr:
				e.checkIndex(pv, nf, oblige, x, x.X, x.Index)
			case *ssa.Index:
				e.checkIndex(pv, nf, oblige, x, x.X, x.Index)
			case *ssa.Slice:
				e.checkSlice(pv, nf, oblige, x)
			case *ssa.MakeSlice:
				if _, isC := x.Len.(*ssa.Const); !isC {
					ok, why := proveLE(b, pv.Form(x.Len).Scale(-1))
					oblige(x, "make([]T, n): n >= 0", ok, why)
				}
				if x.Cap != x.Len {
					ok, why := proveLE(b, pv.Form(x.Len).Add(pv.Form(x.Cap), -1))
					oblige(x, "make([]T, n, c): n <= c", ok, why)
				}
			case *ssa.BinOp:
				if (x.Op == token.QUO || x.Op == token.REM) && isIntType(x.Type()) {
					if c, isC := core.ConstInt(x.Y); isC {
						if c == 0 {
							oblige(x, "division by constant zero", false, "")
						}
					} else {
						ok, why := proveLE(b, pv.Form(x.Y).Scale(-1).Plus(1)) // 1 - y <= 0
						oblige(x, "integer division/remainder: divisor >= 1", ok, why)
					}
				}
				if (x.Op == token.SHL || x.Op == token.SHR) && isSignedInt(x.Y.Type()) {
					if _, isC := x.Y.(*ssa.Const); !isC {
						ok, why := proveLE(b, pv.Form(x.Y).Scale(-1))
						oblige(x, "shift count >= 0", ok, why)
					}
				}
			case *ssa.TypeAssert:
				if !x.CommaOk {
					oblige(x, "type assertion "+x.AssertedType.String()+" without comma-ok", false, "asserted on "+core.Describe(x.X))
				}
			case *ssa.Panic:
				oblige(x, "explicit panic", false, "operand "+core.Describe(x.X))
			case *ssa.MapUpdate:
				if _, fresh := x.Map.(*ssa.MakeMap); !fresh {
					ok, why := nf.nonNil(x.Map, x, 0)
					oblige(x, "assignment to map entry: map non-nil", ok, why)
				}
			case *ssa.UnOp:
				if x.Op == token.MUL {
					if needsNilCheck(x.X) {
						ok, why := nf.nonNil(x.X, x, 0)
						oblige(x, "dereference of "+describePtr(x.X), ok, why)
					}
				}
			case *ssa.FieldAddr:
				if needsNilCheck(x.X) {
					ok, why := nf.nonNil(x.X, x, 0)
					oblige(x, "field ."+core.FieldName(x)+" through "+describePtr(x.X), ok, why)
				}
			case ssa.CallInstruction:
				e.checkCall(fn, nf, oblige, x)
			}
		}
	}
}

// prover builds a LIN prover for fn with the draw post-condition and stable-load canonicalisation.
func (e *panicEngine) prover(fn *ssa.Function) *core.Prover {
	pv := core.NewProver(fn)
	pv.DrawBound = func(v ssa.Value) (ssa.Value, bool) {
		_, n, ok := e.roles.IsDrawCall(e.p, v)
		return n, ok
	}
	pv.Canon = core.StableLoads(fn, core.GetEff(e.p))
	pv.Equiv = func(rel core.Rel) [][2]ssa.Value { return forwardedCallEquiv(e.p, fn, rel) }
	return pv
}

// forwardedCallEquiv: under `w(x) != 0` (or > 0) where the module function w returns either the constant 0
// or g(load of a field path of its parameter) — a nil-guarding size wrapper — the call w(x) equals every
// call g(load of the same path of x) in fn: the wrapper forwarded, and both read the same unmodified field.
func forwardedCallEquiv(p *core.Program, fn *ssa.Function, rel core.Rel) [][2]ssa.Value {
	x, y := rel.X, rel.Y
	if _, isC := x.(*ssa.Const); isC {
		x, y = y, x
	}
	k, isC := core.ConstUint(y)
	if !isC || k != 0 || !(rel.Op == token.NEQ || rel.Op == token.GTR) {
		return nil
	}
	wc, ok := core.Strip(x).(*ssa.Call)
	if !ok || len(wc.Call.Args) != 1 {
		return nil
	}
	w := core.StaticCallee(wc)
	if w == nil || !p.InModule(w) || w.Blocks == nil || len(w.Params) != 1 {
		return nil
	}
	var inner *ssa.Function
	path := ""
	for _, ret := range core.Returns(w) {
		if len(ret.Results) != 1 {
			return nil
		}
		if z, ok := core.ConstUint(ret.Results[0]); ok && z == 0 {
			continue
		}
		ic, ok := core.Strip(ret.Results[0]).(*ssa.Call)
		if !ok || len(ic.Call.Args) != 1 || core.StaticCallee(ic) == nil {
			return nil
		}
		root, pth, okP := valueAccessPath(ic.Call.Args[0])
		if !okP || !rootIsParam0(root, w) {
			return nil
		}
		ps := strings.Join(pth, ".")
		if inner != nil && (inner != core.StaticCallee(ic) || ps != path) {
			return nil
		}
		inner, path = core.StaticCallee(ic), ps
	}
	if inner == nil {
		return nil
	}
	rootX, pathX, okX := valueAccessPath(wc.Call.Args[0])
	if !okX || len(pathX) != 0 {
		return nil
	}
	var out [][2]ssa.Value
	for _, c := range core.Calls(fn) {
		cc, ok := c.(*ssa.Call)
		if !ok || core.StaticCallee(cc) != inner || len(cc.Call.Args) != 1 {
			continue
		}
		r2, p2, ok2 := valueAccessPath(cc.Call.Args[0])
		if ok2 && r2 == rootX && strings.Join(p2, ".") == path {
			out = append(out, [2]ssa.Value{wc, cc})
		}
	}
	return out
}

func isIntType(t types.Type) bool {
	b, ok := t.Underlying().(*types.Basic)
	return ok && b.Info()&types.IsInteger != 0
}

func isSignedInt(t types.Type) bool {
	b, ok := t.Underlying().(*types.Basic)
	return ok && b.Info()&types.IsInteger != 0 && b.Info()&types.IsUnsigned == 0
}

// needsNilCheck: pointer operands that are not addresses of known objects.
func needsNilCheck(v ssa.Value) bool {
	switch v.(type) {
	case *ssa.Alloc, *ssa.Global, *ssa.FieldAddr, *ssa.IndexAddr, *ssa.FreeVar:
		return false
	}
	return true
}

func describePtr(v ssa.Value) string {
	if ref, ok := core.LoadPath(v); ok && ref.Path != "" {
		return "pointer field " + ref.Path
	}
	switch x := v.(type) {
	case *ssa.Parameter:
		return "pointer parameter " + x.Name()
	case *ssa.Extract:
		if c, ok := x.Tuple.(*ssa.Call); ok {
			return fmt.Sprintf("result #%d of %s", x.Index, core.CallName(c))
		}
	case *ssa.Call:
		return "result of " + core.CallName(x)
	}
	return "pointer " + v.Type().String()
}

type obligeFn func(in ssa.Instruction, construct string, ok bool, why string)

func (e *panicEngine) checkIndex(pv *core.Prover, nf *nilFacts, oblige obligeFn, in ssa.Instruction, base, idx ssa.Value) {
	b := in.Block()
	what := "index into " + base.Type().String()
	var upper core.Lin
	switch u := base.Type().Underlying().(type) {
	case *types.Slice:
		upper = pv.LenForm(base)
	case *types.Basic: // string
		upper = pv.LenForm(base)
	case *types.Array:
		upper = constLin(u.Len())
	case *types.Pointer:
		ar, ok := u.Elem().Underlying().(*types.Array)
		if !ok {
			return
		}
		upper = constLin(ar.Len())
		if needsNilCheck(base) {
			ok, why := nf.nonNil(base, in, 0)
			oblige(in, what+": array pointer non-nil", ok, why)
		}
	case *types.Map:
		return // lookups never panic
	default:
		return
	}
	if c, isC := core.ConstInt(idx); isC {
		if len(upper.T) == 0 {
			if c < 0 || c >= upper.C {
				oblige(in, what+": constant index in range", false, fmt.Sprintf("index %d, length %d", c, upper.C))
			}
			return // constant index into constant-length array: compiler-checked
		}
	}
	// draw-index agreement through a size summary (bound = Size() of the indexed collection)
	if ok, how := e.drawIndexAgreement(base, idx); ok {
		oblige(in, what+": index is a bounded draw over the size of the indexed collection", true, how)
		return
	}
	f := pv.Form(idx)
	ok1, why1 := pv.ProveLE(b, f.Scale(-1))
	ok2, why2 := pv.ProveLE(b, f.Add(upper, -1).Plus(1))
	why := ""
	if !ok1 {
		why = "lower bound: " + why1
	}
	if !ok2 {
		why += " upper bound: " + why2
	}
	oblige(in, what+": 0 <= index < len", ok1 && ok2, strings.TrimSpace(why))
}

func constLin(c int64) core.Lin { return core.Lin{T: map[core.Atom]int64{}, C: c} }

func (e *panicEngine) checkSlice(pv *core.Prover, nf *nilFacts, oblige obligeFn, x *ssa.Slice) {
	b := x.Block()
	what := "slice of " + x.X.Type().String()
	var limit core.Lin
	switch u := x.X.Type().Underlying().(type) {
	case *types.Slice:
		limit = pv.CapForm(x.X)
	case *types.Basic:
		limit = pv.LenForm(x.X)
	case *types.Pointer:
		ar, ok := u.Elem().Underlying().(*types.Array)
		if !ok {
			return
		}
		limit = constLin(ar.Len())
		if needsNilCheck(x.X) {
			ok, why := nf.nonNil(x.X, x, 0)
			oblige(x, what+": array pointer non-nil", ok, why)
		}
	default:
		return
	}
	lo := constLin(0)
	if x.Low != nil {
		lo = pv.Form(x.Low)
	}
	var hi core.Lin
	hasHi := x.High != nil
	if hasHi {
		hi = pv.Form(x.High)
	} else if _, isSl := x.X.Type().Underlying().(*types.Slice); isSl {
		hi = pv.LenForm(x.X)
	} else {
		hi = limit
	}
	if x.Low == nil && x.High == nil && x.Max == nil {
		return // s[:] never panics
	}
	var whys []string
	ok := true
	if x.Low != nil {
		if _, isC := x.Low.(*ssa.Const); !isC || lo.C < 0 {
			o, w := pv.ProveLE(b, lo.Scale(-1))
			if !o {
				ok = false
				whys = append(whys, "0 <= low: "+w)
			}
		}
	}
	o, w := pv.ProveLE(b, lo.Add(hi, -1)) // lo - hi <= 0
	if !o {
		ok = false
		whys = append(whys, "low <= high: "+w)
	}
	if hasHi {
		o, w = pv.ProveLE(b, hi.Add(limit, -1))
		if !o {
			ok = false
			whys = append(whys, "high <= cap: "+w)
		}
	}
	oblige(x, what+": 0 <= low <= high <= cap", ok, strings.Join(whys, "; "))
}

// drawIndexAgreement: idx is (a conversion of) a bounded draw whose bound is a
// conversion of F(arg) where F is a "saturated length of path P" function and
// base is the load of path P from the same root as arg.
func (e *panicEngine) drawIndexAgreement(base, idx ssa.Value) (bool, string) {
	_, bound, ok := e.roles.IsDrawCall(e.p, core.Strip(idx))
	if !ok || bound == nil {
		return false, ""
	}
	c, ok := core.Strip(bound).(*ssa.Call)
	if !ok {
		return false, ""
	}
	f := core.StaticCallee(c)
	if f == nil || !e.p.InModule(f) || len(c.Call.Args) != 1 {
		return false, ""
	}
	path, ok := sizeSummary(e.p, f, 0)
	if !ok {
		return false, ""
	}
	argRoot, argPath, ok := valueAccessPath(c.Call.Args[0])
	if !ok {
		return false, ""
	}
	baseRoot, basePath, ok := valueAccessPath(base)
	if !ok {
		return false, ""
	}
	full := append(append([]string{}, argPath...), path...)
	if argRoot != baseRoot || strings.Join(full, ".") != strings.Join(basePath, ".") {
		return false, ""
	}
	if !stableRoot(baseRoot) {
		return false, ""
	}
	return true, fmt.Sprintf("draw bound %s = saturated len(%s) of the same struct copy", core.FuncName(f), strings.Join(full, "."))
}

// valueAccessPath resolves a value to (root object, field path) following
// loads through fields and pointer fields. The root is an Alloc or Parameter.
func valueAccessPath(v ssa.Value) (ssa.Value, []string, bool) {
	v = core.StripType(v)
	switch x := v.(type) {
	case *ssa.UnOp:
		if x.Op != token.MUL {
			return nil, nil, false
		}
		switch x.X.(type) {
		case *ssa.Alloc, *ssa.Parameter, *ssa.FieldAddr:
			return addrAccessPath(x.X)
		}
		// dereference of a pointer value: same path as the pointer
		return valueAccessPath(x.X)
	case *ssa.Parameter:
		return x, nil, true
	case *ssa.Field:
		r, p, ok := valueAccessPath(x.X)
		if !ok {
			return nil, nil, false
		}
		st, _ := x.X.Type().Underlying().(*types.Struct)
		return r, append(p, st.Field(x.Field).Name()), true
	}
	return nil, nil, false
}

func addrAccessPath(a ssa.Value) (ssa.Value, []string, bool) {
	switch x := a.(type) {
	case *ssa.Alloc:
		return x, nil, true
	case *ssa.Parameter:
		return x, nil, true
	case *ssa.FieldAddr:
		var r ssa.Value
		var p []string
		var ok bool
		switch x.X.(type) {
		case *ssa.Alloc, *ssa.Parameter, *ssa.FieldAddr:
			r, p, ok = addrAccessPath(x.X)
		default:
			r, p, ok = valueAccessPath(x.X) // pointer value loaded from somewhere
		}
		if !ok {
			return nil, nil, false
		}
		return r, append(append([]string{}, p...), core.FieldName(x)), true
	}
	return nil, nil, false
}

// stableRoot: the root object is a by-value parameter, or a local copy whose
// only whole-value store is from a parameter and that has no field stores and
// does not escape to a call (so every load of a path yields the same value).
func stableRoot(root ssa.Value) bool {
	al, ok := root.(*ssa.Alloc)
	if !ok {
		_, isP := root.(*ssa.Parameter)
		return isP
	}
	nStore := 0
	for _, ref := range core.Referrers(al) {
		switch x := ref.(type) {
		case *ssa.Store:
			if x.Addr == al {
				nStore++
			} else {
				return false
			}
		case *ssa.FieldAddr:
			for _, rr := range core.Referrers(x) {
				if st, ok := rr.(*ssa.Store); ok && st.Addr == x {
					return false
				}
			}
		case *ssa.UnOp, *ssa.DebugRef:
		case *ssa.MakeClosure:
			// captured by a closure: fine if the closure only reads (checked by EFF: FreeVar writes are violations elsewhere)
		default:
			return false
		}
	}
	return nStore == 1
}

// sizeSummary: fn (single struct/pointer parameter idx) returns the saturated
// uint32 length of the slice at field path P below its parameter.
func sizeSummary(p *core.Program, fn *ssa.Function, depth int) ([]string, bool) {
	if fn == nil || fn.Blocks == nil || depth > 3 || len(fn.Params) != 1 {
		return nil, false
	}
	var path []string
	set := false
	for _, ret := range core.Returns(fn) {
		if len(ret.Results) != 1 {
			return nil, false
		}
		v := ret.Results[0]
		if c, ok := core.ConstUint(v); ok {
			if c == 0 {
				continue // "no list": size 0 is a valid lower value
			}
			if c == maxU32 {
				continue // saturation (guard checked under C10/R10.5)
			}
			return nil, false
		}
		var pth []string
		sv := core.Strip(v)
		if x, ok := core.LenOf(sv); ok {
			root, pp, ok := valueAccessPath(x)
			if !ok || !rootIsParam0(root, fn) {
				return nil, false
			}
			pth = pp
		} else if c, ok := sv.(*ssa.Call); ok {
			g := core.StaticCallee(c)
			if g == nil || len(c.Call.Args) != 1 {
				return nil, false
			}
			sub, ok := sizeSummary(p, g, depth+1)
			if !ok {
				return nil, false
			}
			root, pp, ok := valueAccessPath(c.Call.Args[0])
			if !ok || !rootIsParam0(root, fn) {
				return nil, false
			}
			pth = append(append([]string{}, pp...), sub...)
		} else {
			return nil, false
		}
		if set && strings.Join(pth, ".") != strings.Join(path, ".") {
			return nil, false
		}
		path, set = pth, true
	}
	return path, set
}

func rootIsParam0(root ssa.Value, fn *ssa.Function) bool {
	switch x := root.(type) {
	case *ssa.Parameter:
		return x == fn.Params[0]
	case *ssa.Alloc:
		return paramCopiedInto(x) == 0 && stableRoot(x)
	}
	return false
}

func (e *panicEngine) checkCall(fn *ssa.Function, nf *nilFacts, oblige obligeFn, c ssa.CallInstruction) {
	com := c.Common()
	if _, isB := com.Value.(*ssa.Builtin); isB {
		return // len/cap/append/copy/delete never panic (delete on nil map is a no-op)
	}
	if _, isGo := c.(*ssa.Go); isGo {
		return
	}
	if com.IsInvoke() {
		// nil interface receivers are outside the decided clauses (stated assumption); follow module callees
		for _, g := range e.p.Callees(c) {
			if e.p.InModule(g) && g.Blocks != nil {
				e.analyze(g, nilCtx{})
			}
		}
		return
	}
	callee := core.StaticCallee(c)
	if callee == nil {
		// dynamic call of a function value
		ok, why := nf.nonNil(com.Value, c, 0)
		oblige(c, "call of function value "+describePtr(com.Value)+": non-nil", ok, why)
		for _, g := range e.p.Callees(c) {
			if e.p.InModule(g) && g.Blocks != nil {
				e.analyze(g, nilCtx{})
			}
		}
		return
	}
	if mc, ok := com.Value.(*ssa.MakeClosure); ok {
		_ = mc
	}
	if e.p.InModule(callee) && callee.Blocks != nil {
		// bounded-draw precondition n >= 1 is checked at the call site
		for _, bd := range e.roles.BoundedDraw {
			if bd == callee && len(com.Args) == 1 {
				if e.roles.PickHelpers[fn] {
					oblige(c, "bounded draw inside a uniform-pick helper: bound >= 1 is established at every call site of the helper (collection non-empty)", true, "")
					continue
				}
				ok, why := e.boundPositive(e.prover(fn), c, com.Args[0])
				oblige(c, "bounded draw: bound >= 1 (the n==0 panic is unreachable)", ok, why)
			}
		}
		if e.roles.PickHelpers[callee] && len(com.Args) == 1 {
			ok, why := e.lenPositive(e.prover(fn), c, com.Args[0])
			oblige(c, "uniform pick: the collection is non-empty (so the helper's draw has bound >= 1)", ok, why)
		}
		e.analyze(callee, nf.calleeCtx(c, callee))
		return
	}
	name := callee.String()
	if isNoPanicExternal(name) {
		return
	}
	if name == "(*strings.Builder).Grow" || name == "(*bytes.Buffer).Grow" {
		ok, why := e.prover(fn).ProveLE(c.Block(), e.prover(fn).Form(com.Args[1]).Scale(-1))
		oblige(c, "Grow(n): n >= 0", ok, why)
		return
	}
	if strings.HasPrefix(name, "(*sync.") || strings.HasPrefix(name, "sync.") {
		return
	}
	e.nSites++
	if reason, ex := e.exempt(c); ex {
		e.r.Pass(e.rule, core.FuncName(fn), "call of foreign function "+name+" — exempt: "+reason, e.p.InstrPos(c), "")
		return
	}
	e.r.Unrecognised(e.rule, core.FuncName(fn), "call of foreign function "+name, e.p.InstrPos(c), "not on the list of functions known not to panic for the arguments the module passes")
}

// lenPositive proves len(coll) >= 1 at call site c: by LIN, or through a
// dominating guard F(copy) != 0 where F is the saturated length of the very
// path coll is loaded from (same stable struct copy).
func (e *panicEngine) lenPositive(pv *core.Prover, c ssa.CallInstruction, coll ssa.Value) (bool, string) {
	b := c.Block()
	goal := pv.LenForm(coll).Scale(-1).Plus(1)
	ok, why := pv.ProveLE(b, goal)
	if ok {
		return true, ""
	}
	root, path, okP := valueAccessPath(coll)
	if okP && stableRoot(root) {
		for _, g := range core.Guards(b) {
			rel, isRel := core.AsRel(g)
			if !isRel {
				continue
			}
			x, y := rel.X, rel.Y
			if _, isC := x.(*ssa.Const); isC {
				x, y = y, x
			}
			k, isC := core.ConstUint(y)
			gc, isCall := core.Strip(x).(*ssa.Call)
			if !isC || !isCall || len(gc.Call.Args) != 1 {
				continue
			}
			nonZero := (rel.Op == token.NEQ && k == 0) || (rel.Op == token.GTR && k == 0) || (rel.Op == token.GEQ && k == 1)
			f := core.StaticCallee(gc)
			if !nonZero || f == nil {
				continue
			}
			sp, okS := sizeSummary(e.p, f, 0)
			r2, p2, ok2 := valueAccessPath(gc.Call.Args[0])
			if okS && ok2 && r2 == root && strings.Join(append(append([]string{}, p2...), sp...), ".") == strings.Join(path, ".") {
				return true, "guarded by " + core.FuncName(f) + "() != 0 on the same struct copy"
			}
		}
	}
	return false, why
}

// boundPositive proves bound >= 1 at call site c, looking through the size
// summary (Size() != 0 guard on the same struct copy).
func (e *panicEngine) boundPositive(pv *core.Prover, c ssa.CallInstruction, bound ssa.Value) (bool, string) {
	if k, ok := core.ConstUint(bound); ok {
		return k >= 1, fmt.Sprintf("constant bound %d", k)
	}
	b := c.Block()
	if ok, _ := pv.ProveLE(b, pv.Form(bound).Scale(-1).Plus(1)); ok {
		return true, ""
	}
	// bound = F(arg) and a dominating guard F(arg') != 0 with the same callee and the same stable root
	bc, ok := core.Strip(bound).(*ssa.Call)
	if ok {
		f := core.StaticCallee(bc)
		for _, g := range core.Guards(b) {
			rel, ok := core.AsRel(g)
			if os.Getenv("SPG_DEBUG_BP") != "" {
				fmt.Fprintf(os.Stderr, "BP guard %v pos=%v rel=%v ok=%v\n", g.Cond, g.Pos, rel, ok)
			}
			if !ok {
				continue
			}
			x, y := rel.X, rel.Y
			if _, isC := x.(*ssa.Const); isC {
				x, y = y, x
			}
			k, isC := core.ConstUint(y)
			gc, isCall := core.Strip(x).(*ssa.Call)
			if !isC || !isCall || core.StaticCallee(gc) != f || f == nil {
				continue
			}
			nonZero := (rel.Op == token.NEQ && k == 0) || (rel.Op == token.GTR && k == 0) || (rel.Op == token.GEQ && k == 1)
			if !nonZero || len(gc.Call.Args) != 1 || len(bc.Call.Args) != 1 {
				continue
			}
			r1, p1, ok1 := valueAccessPath(gc.Call.Args[0])
			r2, p2, ok2 := valueAccessPath(bc.Call.Args[0])
			if ok1 && ok2 && r1 == r2 && strings.Join(p1, ".") == strings.Join(p2, ".") && stableRoot(r1) {
				if _, pure := sizeSummary(e.p, f, 0); pure {
					return true, "guarded by " + core.FuncName(f) + "() != 0 on the same struct copy"
				}
			}
		}
	}
	_, why := pv.ProveLE(b, pv.Form(bound).Scale(-1).Plus(1))
	return false, why
}

// ---- nilness

type nilFacts struct {
	e   *panicEngine
	fn  *ssa.Function
	ctx nilCtx
}

// nonNil decides whether pointer / func value v is non-nil at instruction at.
func (nf *nilFacts) nonNil(v ssa.Value, at ssa.Instruction, depth int) (bool, string) {
	if depth > 6 {
		return false, "nilness: too deep"
	}
	v = core.StripType(v)
	switch x := v.(type) {
	case *ssa.Alloc, *ssa.Global, *ssa.FieldAddr, *ssa.IndexAddr, *ssa.MakeClosure, *ssa.Function, *ssa.MakeMap, *ssa.MakeSlice, *ssa.MakeChan:
		return true, ""
	case *ssa.FreeVar:
		// the captured variable's address is non-nil; a captured *value* must be checked where loaded
		if _, isPtrToPtr := x.Type().Underlying().(*types.Pointer); isPtrToPtr {
			return true, ""
		}
	case *ssa.Const:
		return !x.IsNil(), "nil constant"
	case *ssa.UnOp:
		// a package-level map made by its initialiser (literal or make) and assigned nowhere else in
		// the module holds that map for the life of the program
		if g, ok := x.X.(*ssa.Global); ok && x.Op == token.MUL && globalHoldsInitMap(nf.e.p, g) {
			return true, ""
		}
	case *ssa.Parameter:
		if nf.ctx[paramIndex(x)][""] {
			return true, ""
		}
	case *ssa.Phi:
		for i, e := range x.Edges {
			pred := x.Block().Preds[i]
			var last ssa.Instruction = pred.Instrs[len(pred.Instrs)-1]
			// the branch taken from pred to the merge may itself be the test (`v := x.f; if v == nil { v = … }`)
			if len(pred.Succs) == 2 && pred.Succs[0] != pred.Succs[1] {
				idx := 0
				if pred.Succs[1] == x.Block() {
					idx = 1
				}
				if g, ok := core.EdgeCond(pred, idx); ok {
					if rel, ok := core.AsRel(g); ok && rel.Op == token.NEQ &&
						((core.StripType(rel.X) == core.StripType(e) && core.IsNilConst(rel.Y)) || (core.StripType(rel.Y) == core.StripType(e) && core.IsNilConst(rel.X))) {
						continue
					}
				}
			}
			if ok, why := nf.nonNil(e, last, depth+1); !ok {
				return false, "phi edge " + core.Describe(e) + ": " + why
			}
		}
		return true, ""
	case *ssa.Call:
		if f := core.StaticCallee(x); f != nil && nf.e.p.InModule(f) && f.Blocks != nil {
			all := true
			for _, ret := range core.Returns(f) {
				if len(ret.Results) != 1 {
					all = false
					break
				}
				if ok, _ := (&nilFacts{e: nf.e, fn: f, ctx: nilCtx{}}).nonNil(ret.Results[0], ret, depth+1); !ok {
					all = false
				}
			}
			if all {
				return true, ""
			}
		}
	case *ssa.Extract:
		// (ptr, err) pair discipline: ptr non-nil on the err == nil edge
		if c, ok := x.Tuple.(*ssa.Call); ok && x.Index == 0 {
			if f := core.StaticCallee(c); f != nil && nf.e.p.InModule(f) && returnPairDiscipline(f) {
				for _, g := range core.Guards(at.Block()) {
					rel, ok := core.AsRel(g)
					if !ok || rel.Op != token.EQL {
						continue
					}
					a, bb := rel.X, rel.Y
					if core.IsNilConst(a) {
						a, bb = bb, a
					}
					if ex, ok := a.(*ssa.Extract); ok && ex.Tuple == x.Tuple && ex.Index == 1 && core.IsNilConst(bb) {
						return true, ""
					}
				}
			}
		}
	}
	// guard on the same SSA value
	for _, g := range core.Guards(at.Block()) {
		rel, ok := core.AsRel(g)
		if !ok || rel.Op != token.NEQ {
			continue
		}
		if (rel.X == v && core.IsNilConst(rel.Y)) || (rel.Y == v && core.IsNilConst(rel.X)) {
			return true, ""
		}
	}
	// path-based facts for loads of fields of a stable struct copy
	if root, path, ok := valueAccessPath(v); ok && len(path) > 0 && stableRoot(root) {
		ps := "." + strings.Join(path, ".")
		// context: the by-value parameter copied into root
		pi := -1
		switch rr := root.(type) {
		case *ssa.Alloc:
			pi = paramCopiedInto(rr)
		case *ssa.Parameter:
			pi = paramIndex(rr)
		}
		if pi >= 0 && nf.ctx[pi][ps] {
			return true, ""
		}
		for _, g := range core.Guards(at.Block()) {
			rel, ok := core.AsRel(g)
			if !ok {
				continue
			}
			x, y := rel.X, rel.Y
			if _, isC := x.(*ssa.Const); isC {
				x, y = y, x
			}
			// another load of the same path compared with nil
			if rel.Op == token.NEQ && core.IsNilConst(y) {
				if r2, p2, ok := valueAccessPath(x); ok && r2 == root && "."+strings.Join(p2, ".") == ps {
					return true, ""
				}
			}
			// summary guard: F(copy) != 0 where F returns non-zero only if the path is non-nil
			if k, isC := core.ConstUint(y); isC {
				nonZero := (rel.Op == token.NEQ && k == 0) || (rel.Op == token.GTR && k == 0) || (rel.Op == token.GEQ && k == 1)
				if c, isCall := core.Strip(x).(*ssa.Call); isCall && nonZero && len(c.Call.Args) == 1 {
					if f := core.StaticCallee(c); f != nil && nf.e.p.InModule(f) {
						if r2, p2, ok := valueAccessPath(c.Call.Args[0]); ok && r2 == root && len(p2) == 0 {
							if nonZeroImpliesNonNil(nf.e, f, ps) {
								return true, ""
							}
						}
					}
				}
			}
		}
		return false, "no guard establishes that " + ps + " is non-nil here (a zero-valued or literal-constructed recipe leaves it nil)"
	}
	return false, "cannot establish that " + core.Describe(v) + " is non-nil"
}

// returnPairDiscipline: every return of f is (nil, non-nil error) or (non-nil pointer, nil).
func returnPairDiscipline(f *ssa.Function) bool {
	if f.Blocks == nil || f.Signature.Results().Len() != 2 {
		return false
	}
	for _, ret := range core.Returns(f) {
		a, e := ret.Results[0], ret.Results[1]
		if core.IsNilConst(a) && !core.IsNilConst(e) {
			continue
		}
		if al, ok := a.(*ssa.Alloc); ok && al.Heap && core.IsNilConst(e) {
			continue
		}
		return false
	}
	return true
}

// nonZeroImpliesNonNil: every return of f yielding a possibly non-zero value is
// dominated by a guard that path ps of its (by-value) parameter is non-nil.
func nonZeroImpliesNonNil(e *panicEngine, f *ssa.Function, ps string) bool {
	if f.Blocks == nil || len(f.Params) != 1 {
		return false
	}
	nf := &nilFacts{e: e, fn: f, ctx: nilCtx{}}
	for _, ret := range core.Returns(f) {
		if len(ret.Results) != 1 {
			return false
		}
		if k, ok := core.ConstUint(ret.Results[0]); ok && k == 0 {
			continue
		}
		// find a load of the path in f and test it at the return
		found := false
		core.Instrs(f, func(in ssa.Instruction) {
			ld, ok := in.(*ssa.UnOp)
			if !ok || ld.Op != token.MUL || found {
				return
			}
			if root, path, ok := valueAccessPath(ld); ok && "."+strings.Join(path, ".") == ps && rootIsParam0(root, f) {
				// is there a guard ld != nil (or on an equal-path load) dominating the return?
				for _, g := range core.Guards(ret.Block()) {
					rel, ok := core.AsRel(g)
					if !ok || rel.Op != token.NEQ {
						continue
					}
					x, y := rel.X, rel.Y
					if core.IsNilConst(x) {
						x, y = y, x
					}
					if !core.IsNilConst(y) {
						continue
					}
					if r2, p2, ok := valueAccessPath(x); ok && r2 == root && "."+strings.Join(p2, ".") == ps {
						found = true
					}
				}
			}
		})
		_ = nf
		if !found {
			return false
		}
	}
	return true
}

// calleeCtx derives the callee's entry context from the actual arguments.
func (nf *nilFacts) calleeCtx(c ssa.CallInstruction, callee *ssa.Function) nilCtx {
	ctx := nilCtx{}
	args := c.Common().Args
	for i, a := range args {
		if i >= len(callee.Params) {
			break
		}
		set := func(p string) {
			if ctx[i] == nil {
				ctx[i] = map[string]bool{}
			}
			ctx[i][p] = true
		}
		switch a.Type().Underlying().(type) {
		case *types.Pointer, *types.Signature, *types.Map:
			if ok, _ := nf.nonNil(a, c, 0); ok {
				set("")
			}
		case *types.Struct:
			st := a.Type().Underlying().(*types.Struct)
			root, path, ok := valueAccessPath(a)
			if !ok || len(path) != 0 {
				continue
			}
			for fi := 0; fi < st.NumFields(); fi++ {
				f := st.Field(fi)
				if _, isPtr := f.Type().Underlying().(*types.Pointer); !isPtr {
					continue
				}
				// would a load of root.f be non-nil here? fabricate the question through path facts
				if nf.pathNonNil(root, "."+f.Name(), c) {
					set("." + f.Name())
				}
			}
		}
	}
	return ctx
}

// pathNonNil: is path ps of stable root known non-nil at instruction at?
func (nf *nilFacts) pathNonNil(root ssa.Value, ps string, at ssa.Instruction) bool {
	if !stableRoot(root) {
		return false
	}
	pi := -1
	switch rr := root.(type) {
	case *ssa.Alloc:
		pi = paramCopiedInto(rr)
	case *ssa.Parameter:
		pi = paramIndex(rr)
	}
	if pi >= 0 && nf.ctx[pi][ps] {
		return true
	}
	for _, g := range core.Guards(at.Block()) {
		rel, ok := core.AsRel(g)
		if !ok {
			continue
		}
		x, y := rel.X, rel.Y
		if _, isC := x.(*ssa.Const); isC {
			x, y = y, x
		}
		if rel.Op == token.NEQ && core.IsNilConst(y) {
			if r2, p2, ok := valueAccessPath(x); ok && r2 == root && "."+strings.Join(p2, ".") == ps {
				return true
			}
		}
		if k, isC := core.ConstUint(y); isC {
			nonZero := (rel.Op == token.NEQ && k == 0) || (rel.Op == token.GTR && k == 0) || (rel.Op == token.GEQ && k == 1)
			if c, isCall := core.Strip(x).(*ssa.Call); isCall && nonZero && len(c.Call.Args) == 1 {
				if f := core.StaticCallee(c); f != nil && nf.e.p.InModule(f) {
					if r2, p2, ok := valueAccessPath(c.Call.Args[0]); ok && r2 == root && len(p2) == 0 && nonZeroImpliesNonNil(nf.e, f, ps) {
						return true
					}
				}
			}
		}
	}
	return false
}

// globalHoldsInitMap: g is a module variable whose only store in the whole module is the one in its
// package initialiser, and that store's value is a freshly made map.
func globalHoldsInitMap(p *core.Program, g *ssa.Global) bool {
	if g.Pkg == nil || g.Pkg != p.Lib && g.Pkg != p.Cmd {
		return false
	}
	initFn := core.PackageInit(g.Pkg)
	n, fresh, elsewhere := 0, false, false
	for _, fn := range p.ModuleFuncs() {
		core.Instrs(fn, func(in ssa.Instruction) {
			if st, ok := in.(*ssa.Store); ok && st.Addr == ssa.Value(g) {
				if fn != initFn {
					elsewhere = true
					return
				}
				n++
				_, fresh = core.StripType(st.Val).(*ssa.MakeMap)
				return
			}
			if _, isLoad := in.(*ssa.UnOp); isLoad {
				return
			}
			for _, op := range in.Operands(nil) {
				if op != nil && *op == ssa.Value(g) {
					elsewhere = true // address taken: somebody else may assign it
				}
			}
		})
	}
	return n == 1 && fresh && !elsewhere
}
