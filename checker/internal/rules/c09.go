package rules

import (
	"fmt"
	"go/ast"
	"go/token"
	"strconv"
	"strings"

	"golang.org/x/tools/go/ssa"

	"spgverif/internal/core"
)

func init() {
	register(&Property{
		Meta: core.PropertyMeta{
			ID: "C09",
			Explanation: "Decides, on the type-checked program, that the only source of randomness the module can reach is crypto/rand, read " +
				"through a call form that reports short reads as errors, that the error is inspected and every use of the buffer lies on the " +
				"no-error edge while the error edge ends in panic/return-with-error/exit, that nothing can swallow the resulting panic " +
				"(no recover anywhere in the module), that crypto/rand.Reader is never reassigned, and that every non-constant index into a " +
				"collection on the generation paths is a loop counter or the result of a bounded draw (no second source of choice).",
			Rules: []string{
				"R9.1 forbidden imports/directives: no non-test file imports math/rand, math/rand/v2, hash/maphash or unsafe; no //go:linkname; no call into time, os, runtime, syscall from module functions reachable from a Generate entry point",
				"R9.2 who-may-read: every reference to crypto/rand in the module is rand.Read(b) or io.ReadFull/io.ReadAtLeast(rand.Reader, b); rand.Reader is never stored to",
				"R9.3 read-error discipline: error result extracted; every later use of the buffer is dominated by the err==nil edge (or n==len(b)); the err!=nil edge ends in panic, os.Exit/log.Fatal or a return with a non-nil error",
				"R9.4 no swallowing: no call of recover() in any module function",
				"R9.5 choices derive from draws only: on the generation paths every non-constant index into a slice/map/string is an induction variable, a range index/key, or the (converted) result of a bounded draw",
			},
			Trusted: append([]string{"crypto/rand.Read(b) == io.ReadFull(rand.Reader,b): err==nil iff len(b) bytes were delivered, whatever the chunking",
				"the operating system source behind crypto/rand.Reader"}, commonTrusted...),
			NotDecided: []string{"behaviour of the OS random source", "map iteration order permuting the alphabet (harmless non-determinism, outside the rule)"},
		},
		Run:            runC09,
		Fixture:        "c09",
		FixtureExpects: []string{"R9.1", "R9.2", "R9.3", "R9.4", "R9.5"},
	})
}

var forbiddenImports = map[string]string{
	"math/rand":    "non-cryptographic, seedable generator",
	"math/rand/v2": "non-cryptographic generator",
	"hash/maphash": "per-process random seed",
	"unsafe":       "defeats the analysis' memory model",
}

var ambientPkgs = map[string]bool{"time": true, "os": true, "runtime": true, "syscall": true, "os/user": true, "net": true}

func runC09(p *core.Program, r *core.Report) {
	// "never built from unfilled or partially filled buffers": the raw word is made of 4 bytes
	// read into a buffer of the call itself, used only on the err == nil edge (= C01 R1.1-R1.3
	// re-run; a pool or buffer that outlives the call can be consumed after a failed read)
	r.Borrow("R9.3", func() { checkDrawRoutines(p, r, "R1.1", "R1.2", "R1.3") })
	roles := GetRoles(p)

	// R9.1 imports and directives (syntax of every module package)
	nImports := 0
	for _, pk := range p.Pkgs {
		for _, f := range pk.Syntax {
			fname := p.Pos(f.Pos())
			for _, im := range f.Imports {
				path, _ := strconv.Unquote(im.Path.Value)
				nImports++
				if why, bad := forbiddenImports[path]; bad {
					r.Fail("R9.1", "-", "import "+path, p.Pos(im.Pos()), "forbidden import: "+why)
				}
			}
			for _, cg := range f.Comments {
				for _, c := range cg.List {
					if strings.HasPrefix(c.Text, "//go:linkname") {
						r.Fail("R9.1", "-", "go:linkname directive", p.Pos(c.Pos()), "linkname can bind to runtime fastrand and hides callees from the call graph")
					}
				}
			}
			_ = fname
		}
	}
	r.Count("imports inspected", nImports)
	r.Pass("R9.1", "-", "forbidden imports/directives absent", "", fmt.Sprintf("%d import specs in %d module packages inspected", nImports, len(p.Pkgs)))

	gens := generateEntryPoints(p)
	r.Floor("R9.1", "Generate entry points", len(gens), 2)
	reach := p.ReachableFrom(gens...)
	nAmbient, nReachMod := 0, 0
	for fn := range reach {
		if !p.InLib(fn) || fn.Blocks == nil {
			continue
		}
		nReachMod++
		for _, c := range core.Calls(fn) {
			f := core.StaticCallee(c)
			if f == nil || f.Pkg == nil {
				continue
			}
			if ambientPkgs[f.Pkg.Pkg.Path()] {
				nAmbient++
				r.Fail("R9.1", core.FuncName(fn), "call of ambient-state function "+f.String(), p.InstrPos(c),
					"clock/pid/environment/runtime values are reachable on a generation path; every choice must derive from CSPRNG bytes only")
			}
		}
	}
	r.Count("library functions reachable from Generate", nReachMod)
	if nAmbient == 0 {
		r.Pass("R9.1", "-", "no ambient-state call on generation paths", "", fmt.Sprintf("%d library functions reachable from the Generate entry points inspected", nReachMod))
	}

	// R9.2 / R9.3 every reference to crypto/rand
	nRefs := 0
	for _, fn := range roles.RawWord {
		for _, in := range roles.RandRefs[fn] {
			nRefs++
			checkRandRef(p, r, fn, in)
		}
	}
	r.Floor("R9.2", "crypto/rand references", nRefs, 1)

	// R9.4 recover
	nRec := 0
	for _, fn := range p.ModuleFuncs() {
		for _, c := range core.Calls(fn) {
			if core.IsBuiltin(c, "recover") {
				nRec++
				r.Fail("R9.4", core.FuncName(fn), "recover()", p.InstrPos(c), "a recovered CSPRNG-failure panic would let generation continue")
			}
		}
	}
	if nRec == 0 {
		r.Pass("R9.4", "-", "no recover() in the module", "", fmt.Sprintf("%d module functions inspected", len(p.ModuleFuncs())))
	}

	// R9.5 index provenance on generation paths
	nIdx := 0
	for fn := range reach {
		if !p.InLib(fn) || fn.Blocks == nil {
			continue
		}
		nIdx += checkIndexProvenance(p, r, roles, fn, "R9.5")
	}
	r.Floor("R9.5", "non-constant index expressions on generation paths", nIdx, 5)
}

// generateEntryPoints returns the Generate methods of the library's recipe
// types plus every closure of SFFunction type created in the library.
func generateEntryPoints(p *core.Program) []*ssa.Function {
	var out []*ssa.Function
	for _, t := range []string{"CharRecipe", "WLRecipe"} {
		if f := p.Method(t, "Generate"); f != nil {
			out = append(out, f)
		}
	}
	for _, fn := range p.LibFuncs() {
		if fn.Parent() != nil && core.NamedOf(fn.Type()) == "" && fn.Signature.Params().Len() == 0 && fn.Signature.Results().Len() == 2 {
			out = append(out, fn)
		}
	}
	return out
}

func checkRandRef(p *core.Program, r *core.Report, fn *ssa.Function, in ssa.Instruction) {
	name := core.FuncName(fn)
	pos := p.InstrPos(in)
	// store to rand.Reader
	if st, ok := in.(*ssa.Store); ok {
		if g, ok := st.Addr.(*ssa.Global); ok && g.Pkg.Pkg.Path() == "crypto/rand" {
			r.Fail("R9.2", name, "store to crypto/rand."+g.Name(), pos, "the process-wide random source is replaced")
			return
		}
	}
	var call *ssa.Call
	var buf ssa.Value
	form := ""
	switch x := in.(type) {
	case *ssa.Call:
		switch core.CallName(x) {
		case "crypto/rand.Read":
			call, buf, form = x, x.Call.Args[0], "rand.Read"
		}
	case *ssa.UnOp:
		// load of rand.Reader: must only feed io.ReadFull / io.ReadAtLeast
		if x.Op == token.MUL {
			okAll := true
			n := 0
			var walk func(v ssa.Value)
			walk = func(v ssa.Value) {
				for _, ref := range core.Referrers(v) {
					switch y := ref.(type) {
					case *ssa.ChangeInterface, *ssa.MakeInterface, *ssa.ChangeType:
						walk(y.(ssa.Value))
					case *ssa.Call:
						switch core.CallName(y) {
						case "io.ReadFull", "io.ReadAtLeast":
							n++
							checkReadCall(p, r, fn, y, y.Call.Args[1], "io."+core.StaticCallee(y).Name()+"(rand.Reader)")
						default:
							okAll = false
						}
					case *ssa.DebugRef:
					default:
						okAll = false
					}
				}
			}
			walk(x)
			r.Check(okAll && n > 0, "R9.2", name, "rand.Reader is only passed to io.ReadFull/io.ReadAtLeast", pos,
				"a bare Reader.Read may legally return fewer bytes than requested without an error; use rand.Read or io.ReadFull")
			return
		}
	}
	if call == nil {
		r.Fail("R9.2", name, "unrecognised use of crypto/rand", pos, "only rand.Read(b) and io.ReadFull(rand.Reader,b) are accepted read forms: "+in.String())
		return
	}
	r.Pass("R9.2", name, "accepted read form "+form, pos, "")
	checkReadCall(p, r, fn, call, buf, form)
}

// checkReadCall applies R9.3 to one read call.
func checkReadCall(p *core.Program, r *core.Report, fn *ssa.Function, call *ssa.Call, buf ssa.Value, form string) {
	name := core.FuncName(fn)
	pos := p.InstrPos(call)
	var errV, nV ssa.Value
	for _, ref := range core.Referrers(call) {
		if ex, ok := ref.(*ssa.Extract); ok {
			if ex.Index == 1 {
				errV = ex
			} else {
				nV = ex
			}
		}
	}
	if core.CallName(call) == "io.ReadAtLeast" {
		// min must be len(buf)
		ok := false
		if x, isLen := core.LenOf(call.Call.Args[2]); isLen && x == buf {
			ok = true
		}
		if _, n, full := fullBuffer(buf); full {
			if c, isC := core.ConstInt(call.Call.Args[2]); isC && c == n {
				ok = true
			}
		}
		r.Check(ok, "R9.3", name, "io.ReadAtLeast minimum is the whole buffer", pos, "a smaller minimum lets a short read succeed")
	}
	accepted := func(b *ssa.BasicBlock) bool {
		if errV != nil && guardedErrNil(b, errV) {
			return true
		}
		if nV != nil {
			for _, g := range core.Guards(b) {
				rel, ok := core.AsRel(g)
				if !ok || rel.Op != token.EQL {
					continue
				}
				x, y := rel.X, rel.Y
				if y == nV {
					x, y = y, x
				}
				if x != nV {
					continue
				}
				if l, ok := core.LenOf(y); ok && l == buf {
					return true
				}
				if _, n, full := fullBuffer(buf); full {
					if c, ok := core.ConstInt(y); ok && c == n {
						return true
					}
				}
			}
		}
		return false
	}
	if errV == nil && nV == nil {
		r.Fail("R9.3", name, "results of the CSPRNG read are discarded", pos, "an unfilled or partially filled buffer would be used as if random")
		return
	}
	// uses of the buffer after the read
	arr, _, _ := fullBuffer(buf)
	uses := 0
	bad := 0
	consider := func(u ssa.Instruction) {
		if u == call || u == ssa.Instruction(nil) {
			return
		}
		if _, ok := u.(*ssa.DebugRef); ok {
			return
		}
		// uses before the read in the same block / dominating it are initialisation, not consumption
		if u.Block() == call.Block() {
			for _, in := range call.Block().Instrs {
				if in == u {
					return // u precedes the call
				}
				if in == call {
					break
				}
			}
		} else if !call.Block().Dominates(u.Block()) {
			return
		}
		uses++
		if !accepted(u.Block()) {
			bad++
			r.Fail("R9.3", name, "buffer used off the no-error edge", p.InstrPos(u), "use of the random buffer is not dominated by err==nil (or n==len(buf)): "+u.String())
		}
	}
	seenV := map[ssa.Value]bool{}
	var usesOf func(v ssa.Value)
	usesOf = func(v ssa.Value) {
		if v == nil || seenV[v] {
			return
		}
		seenV[v] = true
		for _, ref := range core.Referrers(v) {
			switch x := ref.(type) {
			case *ssa.Slice:
				usesOf(x)
			case *ssa.IndexAddr:
				for _, rr := range core.Referrers(x) {
					consider(rr)
				}
			default:
				consider(ref)
			}
		}
	}
	usesOf(buf)
	if arr != nil && arr != buf {
		usesOf(arr)
	}
	if bad == 0 {
		r.Pass("R9.3", name, "every use of the buffer lies on the no-error edge", pos, fmt.Sprintf("%d use(s) after %s inspected", uses, form))
	}
	// the error edge must not fall through
	if errV != nil {
		okEdge, n := false, 0
		for _, ref := range core.Referrers(errV) {
			bo, ok := ref.(*ssa.BinOp)
			if !ok || (bo.Op != token.NEQ && bo.Op != token.EQL) {
				continue
			}
			for _, rr := range core.Referrers(bo) {
				iff, ok := rr.(*ssa.If)
				if !ok {
					continue
				}
				n++
				errBlock := iff.Block().Succs[0]
				if bo.Op == token.EQL {
					errBlock = iff.Block().Succs[1]
				}
				okEdge = failsClosed(errBlock, map[*ssa.BasicBlock]bool{})
			}
		}
		if n > 0 {
			r.Check(okEdge, "R9.3", name, "error edge ends in panic/exit/error return", pos, "on a read error control must not reach code that builds a password")
		} else if nV == nil {
			r.Fail("R9.3", name, "error of the CSPRNG read is never tested", pos, "")
		}
	}
}

// failsClosed reports whether every path from b ends in panic, a call that
// does not return (os.Exit, log.Fatal*), or a return whose last result is a
// non-nil error.
func failsClosed(b *ssa.BasicBlock, seen map[*ssa.BasicBlock]bool) bool {
	return failsClosedFrom(nil, b, seen)
}

// failsClosedFrom: as failsClosed, entered through the edge prev -> b. A merge that tests an error
// freshly made on that edge against nil (the shape an expanded validation helper leaves behind) is
// followed along its error branch only.
func failsClosedFrom(prev, b *ssa.BasicBlock, seen map[*ssa.BasicBlock]bool) bool {
	if seen[b] {
		return true
	}
	seen[b] = true
	if prev != nil && len(b.Instrs) > 0 {
		if iff, ok := b.Instrs[len(b.Instrs)-1].(*ssa.If); ok {
			if cmp, ok := iff.Cond.(*ssa.BinOp); ok && (cmp.Op == token.NEQ || cmp.Op == token.EQL) && core.IsNilConst(cmp.Y) {
				if phi, ok := cmp.X.(*ssa.Phi); ok && phi.Block() == b {
					pure := true
					for _, in := range b.Instrs[:len(b.Instrs)-1] {
						if _, isPhi := in.(*ssa.Phi); !isPhi && in != ssa.Instruction(cmp) {
							pure = false
						}
					}
					for i, pb := range b.Preds {
						if pb == prev && pure && isFreshError(phi.Edges[i]) {
							next := b.Succs[0]
							if cmp.Op == token.EQL {
								next = b.Succs[1]
							}
							return failsClosedFrom(b, next, seen)
						}
					}
				}
			}
		}
	}
	for _, in := range b.Instrs {
		switch x := in.(type) {
		case *ssa.Panic:
			return true
		case *ssa.Call:
			switch core.CallName(x) {
			case "os.Exit", "log.Fatal", "log.Fatalf", "log.Fatalln", "log.Panic", "log.Panicf", "log.Panicln":
				return true
			}
		case *ssa.Return:
			if len(x.Results) == 0 {
				return false
			}
			last := x.Results[len(x.Results)-1]
			if last.Type().String() != "error" {
				return false
			}
			return !core.IsNilConst(last)
		}
	}
	if len(b.Succs) == 0 {
		return false
	}
	for _, s := range b.Succs {
		if !failsClosedFrom(b, s, seen) {
			return false
		}
	}
	return true
}

// checkIndexProvenance classifies every non-constant index in fn; returns the
// number inspected.
func checkIndexProvenance(p *core.Program, r *core.Report, roles *Roles, fn *ssa.Function, rule string) int {
	n := 0
	loops := core.Loops(fn)
	name := core.FuncName(fn)
	core.Instrs(fn, func(in ssa.Instruction) {
		var idx ssa.Value
		var what string
		switch x := in.(type) {
		case *ssa.IndexAddr:
			idx, what = x.Index, "index into "+x.X.Type().String()
		case *ssa.Index:
			idx, what = x.Index, "index into "+x.X.Type().String()
		case *ssa.Lookup:
			idx, what = x.Index, "lookup in "+x.X.Type().String()
		case *ssa.MapUpdate:
			idx, what = x.Key, "key of update of "+x.Map.Type().String()
		default:
			return
		}
		if _, ok := idx.(*ssa.Const); ok {
			return
		}
		n++
		cls, why := classifyIndex(p, roles, idx, loops, map[ssa.Value]bool{})
		if cls == "" {
			r.Fail(rule, name, what+" has a source other than a loop counter or a bounded draw", p.InstrPos(in), why)
		} else {
			r.Pass(rule, name, what+" is "+cls, p.InstrPos(in), "")
		}
	})
	return n
}

// classifyIndex returns "induction", "range", "draw", "const", "param/field"
// or "" with a reason.
func classifyIndex(p *core.Program, roles *Roles, v ssa.Value, loops []*core.Loop, seen map[ssa.Value]bool) (string, string) {
	if seen[v] {
		return "induction", ""
	}
	seen[v] = true
	switch x := v.(type) {
	case *ssa.Const:
		return "const", ""
	case *ssa.Convert:
		return classifyIndex(p, roles, x.X, loops, seen)
	case *ssa.ChangeType:
		return classifyIndex(p, roles, x.X, loops, seen)
	case *ssa.Call:
		if _, _, ok := roles.IsDrawCall(p, x); ok {
			return "draw", ""
		}
		if core.IsBuiltin(x, "len") {
			return "len", ""
		}
		// forwarding helper: a module function whose result classifies as a draw
		if f := core.StaticCallee(x); f != nil && p.InModule(f) && f.Blocks != nil {
			all := true
			for _, ret := range core.Returns(f) {
				if len(ret.Results) != 1 {
					all = false
					break
				}
				c, _ := classifyIndex(p, roles, ret.Results[0], core.Loops(f), map[ssa.Value]bool{})
				if c != "draw" {
					all = false
				}
			}
			if all {
				return "draw", ""
			}
		}
		return "", "index derives from call " + core.CallName(x)
	case *ssa.Phi:
		res := "induction"
		for _, e := range x.Edges {
			c, why := classifyIndex(p, roles, e, loops, seen)
			if c == "" {
				return "", why
			}
			if c == "draw" {
				res = "draw"
			}
		}
		return res, ""
	case *ssa.BinOp:
		switch x.Op {
		case token.ADD, token.SUB, token.MUL, token.QUO, token.REM, token.SHL, token.SHR, token.AND:
			a, why := classifyIndex(p, roles, x.X, loops, seen)
			if a == "" {
				return "", why
			}
			b, why := classifyIndex(p, roles, x.Y, loops, seen)
			if b == "" {
				return "", why
			}
			if a == "draw" || b == "draw" {
				return "draw", ""
			}
			return "induction", ""
		}
		return "", "index derives from " + x.String()
	case *ssa.Extract:
		if nx, ok := x.Tuple.(*ssa.Next); ok {
			_ = nx
			return "range", ""
		}
		return "", "index derives from " + core.Describe(x.Tuple)
	case *ssa.Parameter:
		return "param/field", ""
	case *ssa.UnOp:
		if x.Op == token.MUL {
			// load of a local variable / field: counters spilled to memory, recipe fields
			if ref, ok := core.AddrPath(x.X); ok {
				if g, isG := ref.Root.(*ssa.Global); isG {
					return "", "index derives from package-level state " + g.Name()
				}
			}
			return "param/field", ""
		}
		if x.Op == token.SUB {
			return classifyIndex(p, roles, x.X, loops, seen)
		}
	case *ssa.FreeVar:
		return "param/field", ""
	}
	return "", "index derives from " + core.Describe(v)
}

var _ = ast.Inspect
