package rules

import (
	"fmt"
	"go/token"
	"go/types"
	"strings"

	"golang.org/x/tools/go/ssa"

	"spgverif/internal/core"
)

func init() {
	register(&Property{
		Meta: core.PropertyMeta{
			ID: "C13",
			Explanation: "Partial: decides the structural clauses of 'Generate fails with an error, never a panic, and only when the recipe cannot " +
				"be honoured'. (1) Return-pair discipline of both Generate methods and NewWordList; (2) the error guards (Length<1, empty " +
				"alphabet, failure-rate pre-flight, Size()==0) dominate every draw; (3) every bounded draw has a bound proven >= 1, so the " +
				"bounded-draw routine's n==0 panic is unreachable; (4) context-sensitive panic-freedom of everything reachable from the two " +
				"Generate methods: index/slice bounds by the linear prover (with the bounded-draw post-condition and the Size() summary), " +
				"nil dereferences by nilness facts (guards, callee contexts, 'Size()!=0 implies list!=nil' summaries) — a zero-valued or " +
				"literal-constructed WLRecipe has a nil list; (5) the retry loop is a counted loop of at most MaxTrials iterations containing " +
				"every character draw. The only admitted panic is the CSPRNG-failure panic (intended, C09); the r.(string) assertion in " +
				"stringFromSet is admitted after checking that only sets of strings reach it.",
			Rules: []string{
				"R13.1 return-pair discipline: every return of CharRecipe.Generate, WLRecipe.Generate, NewWordList is (nil, non-nil error) or (non-nil, nil)",
				"R13.2 guards dominate draws: every draw site in a Generate is dominated by the complement of Length<1 and of the emptiness test of the collection it indexes; the character retry loop is dominated by the acceptable-failure-rate test",
				"R13.3 non-zero bound at every draw site reachable from Generate (LIN / Size()!=0 guard on the same copy / constant)",
				"R13.4+R13.6 panic-freedom of the call tree of both Generate methods (context-sensitive nilness + LIN); named exemptions only: CSPRNG-failure panic, bounded-draw n==0 panic (discharged at call sites by R13.3), stringFromSet's r.(string) (set provenance checked)",
				"R13.7 SuccessProbability() = 2^(Entropy(recipe) - Entropy(recipe with all requirements turned into allowed characters)), clamped: with C07's exact count this is the exact fraction of unconstrained candidates that satisfy the requirements",
				"R13.7b the entropies it subtracts are exact: C07 R7.1-R7.6 re-run under R13.7",
				"R13.8 pre-flight: refused iff successProbability <= 0 or (1 - successProbability)^MaxTrials > MaxFailRate (so a recipe comfortably above the threshold is never refused)",
				"R13.5 attempt budget: the loop containing the character draws is nested in a counted loop 0<=i<MaxTrials step 1; no draw outside it in CharRecipe.Generate",
			},
			Trusted: append([]string{"interface values of golang-set sets computed by the alphabet builder are non-nil (interface-receiver nilness is not analysed)",
				"foreign functions on the checker's no-panic list do not panic for the arguments the module passes", "int<->uint32 conversions of lengths do not wrap (alphabets and Length below 2^31)"}, commonTrusted...),
			NotDecided: []string{"the numeric value of SuccessProbability() for any particular recipe (its exactness rests on C07's counting schema plus R13.7's shape)",
				"float rounding in the pre-flight comparison", "panics inside golang-set or the standard library"},
		},
		Run: runC13,
	})
}

func runC13(p *core.Program, r *core.Report) {
	roles := GetRoles(p)
	cg := p.Method("CharRecipe", "Generate")
	wg := p.Method("WLRecipe", "Generate")
	nw := p.Func("NewWordList")
	if cg == nil || wg == nil || nw == nil {
		r.Unrecognised("R13.1", "-", "entry points", "", "CharRecipe.Generate / WLRecipe.Generate / NewWordList not all found")
		return
	}

	// R13.1
	for _, fn := range []*ssa.Function{cg, wg, nw} {
		name := core.FuncName(fn)
		for _, ret := range core.Returns(fn) {
			if len(ret.Results) != 2 {
				r.Unrecognised("R13.1", name, "two results", p.InstrPos(ret), "")
				continue
			}
			a, e := ret.Results[0], ret.Results[1]
			okPair := false
			why := ""
			switch {
			case core.IsNilConst(a):
				c, isCall := e.(*ssa.Call)
				okPair = isCall && (core.CallName(c) == "fmt.Errorf" || core.CallName(c) == "errors.New")
				if !okPair && freshOrNil(e, map[ssa.Value]bool{}) {
					// an error handed up by an expanded validation helper: nil or fresh, returned under `!= nil`
					for _, g := range core.Guards(ret.Block()) {
						if rel, ok := core.AsRel(g); ok && rel.Op == token.NEQ && rel.X == e && core.IsNilConst(rel.Y) {
							okPair = true
						}
					}
				}
				why = "error value is " + core.Describe(e)
			case core.IsNilConst(e):
				al, isAl := a.(*ssa.Alloc)
				okPair = isAl && al.Heap
				why = "value is " + core.Describe(a)
			default:
				why = "both a value and an error are returned"
			}
			r.Check(okPair, "R13.1", name, "return is (nil, fresh error) or (fresh value, nil)", p.InstrPos(ret), why)
		}
	}

	// R13.2 / R13.5
	checkGuardsDominateDraws(p, r, roles, cg, wg)

	// R13.4 + R13.6 + R13.3
	eng := &panicEngine{p: p, r: r, rule: "R13.4", roles: roles, visited: map[string]bool{}}
	charSetOK, charSetWhy := charSetDiscipline(p)
	eng.exempt = func(in ssa.Instruction) (string, bool) {
		fn := in.Parent()
		switch x := in.(type) {
		case *ssa.Panic:
			for _, rw := range roles.RawWord {
				if rw == fn && panicDependsOnRead(x) {
					return "CSPRNG-failure panic (intended: generation fails closed, C09)", true
				}
			}
			for _, bd := range roles.BoundedDraw {
				if bd == fn && len(fn.Params) == 1 {
					for _, g := range core.Guards(x.Block()) {
						rel, ok := core.AsRel(g)
						if !ok {
							continue
						}
						if rel.X == ssa.Value(fn.Params[0]) {
							if k, isC := core.ConstUint(rel.Y); isC && ((rel.Op == token.LSS && k == 1) || (rel.Op == token.EQL && k == 0) || (rel.Op == token.LEQ && k == 0)) {
								return "n==0 precondition panic; bound >= 1 is proven at every reachable call site (R13.3)", true
							}
						}
					}
				}
			}
		case *ssa.TypeAssert:
			if x.AssertedType.String() == "string" && charSetOK {
				return "only sets built from single-character strings reach this assertion (" + charSetWhy + ")", true
			}
		}
		return "", false
	}
	eng.rule = "R13.4"
	eng.analyze(cg, nilCtx{})
	eng.analyze(wg, nilCtx{})
	r.Floor("R13.4", "panic-site obligations reachable from the Generate methods", eng.nSites, 25)
	r.Count("functions (with context) analysed for panic-freedom", eng.nFuncs)
	if !charSetOK {
		r.Fail("R13.6", "-", "only string elements are added to character sets", "", charSetWhy)
	} else {
		r.Pass("R13.6", "-", "only string elements are added to character sets", "", charSetWhy)
	}
	checkSuccessProbability(p, r)
	// SuccessProbability is 2^(Entropy(recipe) - Entropy(relaxed recipe)): it is the exact
	// fraction only if the character-recipe entropy is the exact count (= C07's rules re-run)
	r.Borrow("R13.7", func() { runC07(p, r) })
	// "a recipe comfortably above ~0.1 is never refused" is a statement about the shipped thresholds:
	// MaxTrials = 200 and MaxFailRate = 1e-9, assigned nowhere else (= C16 R16.4 re-run)
	borrowSelected(p, r, runC16, "R13.8", func(o core.Obligation) bool { return o.Rule == "R16.4" || o.Rule == "R16.6" && mentionsVar(o.Construct, "MaxTrials", "MaxFailRate") })
}

// checkSuccessProbability: R13.7 (shape of SuccessProbability) and R13.8 (the pre-flight test).
func checkSuccessProbability(p *core.Program, r *core.Report) {
	sp := p.Method("CharRecipe", "SuccessProbability")
	ent := p.Method("CharRecipe", "Entropy")
	if sp == nil || ent == nil {
		r.Unrecognised("R13.7", "CharRecipe.SuccessProbability", "method", "", "not found")
		return
	}
	name := core.FuncName(sp)
	pos := p.Pos(sp.Pos())
	var recv, cp *ssa.Alloc
	core.Instrs(sp, func(in ssa.Instruction) {
		if al, ok := in.(*ssa.Alloc); ok {
			if paramCopiedInto(al) == 0 {
				recv = al
			} else if core.NamedOf(al.Type()) == core.ModulePath+".CharRecipe" {
				cp = al
			}
		}
	})
	if recv == nil || cp == nil {
		r.Unrecognised("R13.7", name, "works on an explicit modified copy of the recipe", pos, "receiver copy / relaxed copy not found")
		return
	}
	// cp is a whole copy of the receiver with exactly four fields overwritten
	wholeOK := false
	for _, ref := range core.Referrers(cp) {
		if st, ok := ref.(*ssa.Store); ok && st.Addr == ssa.Value(cp) {
			if ld, ok := st.Val.(*ssa.UnOp); ok && ld.X == ssa.Value(recv) {
				wholeOK = true
			}
		}
	}
	r.Check(wholeOK, "R13.7", name, "the relaxed recipe starts as a copy of the receiver", pos, "")
	lit := core.StructLiteral(cp)
	fromRecv := func(v ssa.Value, field string) bool {
		ref, ok := core.LoadPath(v)
		return ok && ref.Root == ssa.Value(recv) && ref.Path == "."+field
	}
	// AllowChars = AllowChars + Join(RequireSets, "")
	okAC := false
	if bo, ok := lit["AllowChars"].(*ssa.BinOp); ok && bo.Op == token.ADD && fromRecv(bo.X, "AllowChars") {
		if j, ok := bo.Y.(*ssa.Call); ok && core.CallName(j) == "strings.Join" && fromRecv(j.Call.Args[0], "RequireSets") {
			if sep, isS := core.ConstString(j.Call.Args[1]); isS && sep == "" {
				okAC = true
			}
		}
	}
	if !okAC {
		okAC = isAllowPlusRequiredBuilder(sp, lit["AllowChars"], fromRecv)
	}
	r.Check(okAC, "R13.7", name, "relaxed AllowChars = AllowChars + all custom required characters", pos, core.Describe(lit["AllowChars"]))
	okRS := false
	if sl, ok := lit["RequireSets"].(*ssa.Slice); ok {
		if al, ok := sl.X.(*ssa.Alloc); ok {
			if at, ok := al.Type().Underlying().(*types.Pointer).Elem().Underlying().(*types.Array); ok && at.Len() == 0 {
				okRS = true
			}
		}
	}
	if core.IsNilConst(lit["RequireSets"]) && lit["RequireSets"] != nil {
		okRS = true
	}
	r.Check(okRS, "R13.7", name, "relaxed RequireSets is a fresh empty list", pos, core.Describe(lit["RequireSets"]))
	okAl := false
	if bo, ok := lit["Allow"].(*ssa.BinOp); ok && bo.Op == token.OR {
		okAl = (fromRecv(bo.X, "Allow") && fromRecv(bo.Y, "Require")) || (fromRecv(bo.Y, "Allow") && fromRecv(bo.X, "Require"))
	}
	r.Check(okAl, "R13.7", name, "relaxed Allow = Allow | Require", pos, core.Describe(lit["Allow"]))
	z, isC := core.ConstUint(lit["Require"])
	r.Check(lit["Require"] != nil && isC && z == 0, "R13.7", name, "relaxed Require = None", pos, core.Describe(lit["Require"]))
	r.Check(len(lit) == 4, "R13.7", name, "no other field of the relaxed recipe is changed (Length, Exclude, ExcludeChars kept)", pos, fmt.Sprintf("%d fields overwritten", len(lit)))
	// result = clamp(exp2(clamp(Entropy(r) - Entropy(relaxed))))
	rets := core.Returns(sp)
	okRes, why := false, ""
	if len(rets) == 1 {
		v := rets[0].Results[0]
		// strip the upper clamp phi(p, 1)
		unclamp := func(v ssa.Value, c float64) ssa.Value {
			if phi, ok := v.(*ssa.Phi); ok && len(phi.Edges) == 2 {
				for i, e := range phi.Edges {
					if k, ok := e.(*ssa.Const); ok && k.Value != nil && k.Float64() == c {
						return phi.Edges[1-i]
					}
				}
			}
			return v
		}
		v = unclamp(v, 1)
		if cv, ok := v.(*ssa.Convert); ok {
			v = cv.X
		}
		if ex, ok := v.(*ssa.Call); ok && core.CallName(ex) == "math.Exp2" {
			d := ex.Call.Args[0]
			if cv, ok := d.(*ssa.Convert); ok {
				d = cv.X
			}
			d = unclamp(d, 0)
			if sub, ok := d.(*ssa.BinOp); ok && sub.Op == token.SUB {
				a, okA := sub.X.(*ssa.Call)
				b, okB := sub.Y.(*ssa.Call)
				if okA && okB && core.StaticCallee(a) == ent && core.StaticCallee(b) == ent {
					la, _ := a.Call.Args[0].(*ssa.UnOp)
					lb, _ := b.Call.Args[0].(*ssa.UnOp)
					if la != nil && lb != nil && la.X == ssa.Value(recv) && lb.X == ssa.Value(cp) {
						// the relaxed copy is complete before its entropy is taken
						okRes = true
						for _, ref := range core.Referrers(cp) {
							if fa, ok := ref.(*ssa.FieldAddr); ok {
								for _, rr := range core.Referrers(fa) {
									if st, ok := rr.(*ssa.Store); ok && !core.InstrDominates(st, b) {
										okRes = false
										why = "a field of the relaxed copy is written after its entropy is taken"
									}
								}
							}
						}
					} else {
						why = "the two entropies are not those of the recipe and of its relaxed copy, in that order"
					}
				} else {
					why = "the exponent is not a difference of two Entropy() calls"
				}
			} else {
				why = "the exponent is not Entropy(recipe) - Entropy(relaxed)"
			}
		} else {
			why = "result is not 2^(difference of entropies): " + core.Describe(v)
		}
	}
	r.Check(okRes, "R13.7", name, "SuccessProbability = 2^(Entropy(recipe) - Entropy(recipe with requirements relaxed to allowed)), clamped to [.,1]", pos,
		why+" — with C07 (exact count) this is (number of satisfying strings)/(alphabet size)^Length, the exact single-attempt success chance")

	// R13.8 the pre-flight
	var pre *ssa.Function
	for _, c := range core.Calls(p.Method("CharRecipe", "Generate")) {
		if f := core.StaticCallee(c); f != nil && p.InLib(f) && f.Signature.Results().Len() == 2 {
			if b, ok := f.Signature.Results().At(0).Type().Underlying().(*types.Basic); ok && b.Kind() == types.Bool {
				pre = f
			}
		}
	}
	if pre == nil {
		r.Unrecognised("R13.8", "-", "failure-rate pre-flight", "", "no (bool, float) helper called by CharRecipe.Generate")
		return
	}
	pname := core.FuncName(pre)
	nOK := 0
	for _, ret := range core.Returns(pre) {
		rpos := p.InstrPos(ret)
		v := ret.Results[0]
		if c, ok := v.(*ssa.Const); ok {
			// constant false only under sp <= 0
			isFalse := c.Value != nil && c.Value.String() == "false"
			okG := false
			for _, g := range core.Guards(ret.Block()) {
				if rel, ok := core.AsRel(g); ok && (rel.Op == token.LEQ || rel.Op == token.LSS) {
					if cc, ok := rel.X.(*ssa.Call); ok && core.StaticCallee(cc) == sp && isZeroConst(rel.Y) {
						okG = true
					}
				}
			}
			r.Check(isFalse && okG, "R13.8", pname, "refused outright only when the success probability is <= 0", rpos, "")
			continue
		}
		// failP <= MaxFailRate with failP = Pow(1 - sp, MaxTrials)
		bo, ok := v.(*ssa.BinOp)
		okCmp := ok && bo.Op == token.LEQ
		if okCmp {
			okCmp = false
			if ld, ok := bo.Y.(*ssa.UnOp); ok {
				if g, ok := ld.X.(*ssa.Global); ok && g.Name() == "MaxFailRate" {
					if pw, ok := bo.X.(*ssa.Call); ok && core.CallName(pw) == "math.Pow" {
						base, okB := pw.Call.Args[0].(*ssa.BinOp)
						expo := core.Strip(pw.Call.Args[1])
						okE := false
						if l2, ok := expo.(*ssa.UnOp); ok {
							if g2, ok := l2.X.(*ssa.Global); ok && g2.Name() == "MaxTrials" {
								okE = true
							}
						}
						if okB && base.Op == token.SUB && okE {
							if one, ok := base.X.(*ssa.Const); ok && one.Value != nil && one.Float64() == 1 {
								if cc, ok := core.Strip(base.Y).(*ssa.Call); ok && core.StaticCallee(cc) == sp {
									okCmp = true
								}
							}
						}
					}
				}
			}
		}
		if okCmp {
			nOK++
		}
		r.Check(okCmp, "R13.8", pname, "accepted iff (1 - successProbability)^MaxTrials <= MaxFailRate", rpos,
			"any other test refuses recipes whose chance of exhausting the attempts is within the configured limit (or admits ones beyond it)")
	}
	r.Check(nOK == 1, "R13.8", pname, "exactly one acceptance test", p.Pos(pre.Pos()), fmt.Sprint(nOK))
}

// panicDependsOnRead: every edge into the panic's block is taken on a condition
// over the results (n, err) of the CSPRNG read.
func panicDependsOnRead(pn *ssa.Panic) bool {
	b := pn.Block()
	if len(b.Preds) == 0 {
		return false
	}
	var mentions func(v ssa.Value, d int) bool
	mentions = func(v ssa.Value, d int) bool {
		if d > 5 || v == nil {
			return false
		}
		switch x := v.(type) {
		case *ssa.Extract:
			if c, ok := x.Tuple.(*ssa.Call); ok {
				switch core.CallName(c) {
				case "crypto/rand.Read", "io.ReadFull", "io.ReadAtLeast":
					return true
				}
			}
		case *ssa.BinOp:
			return mentions(x.X, d+1) || mentions(x.Y, d+1)
		case *ssa.UnOp:
			return mentions(x.X, d+1)
		case *ssa.Phi:
			for _, e := range x.Edges {
				if mentions(e, d+1) {
					return true
				}
			}
		}
		return false
	}
	for _, pred := range b.Preds {
		iff, ok := pred.Instrs[len(pred.Instrs)-1].(*ssa.If)
		if !ok || !mentions(iff.Cond, 0) {
			return false
		}
	}
	return true
}

// checkGuardsDominateDraws applies R13.2 and R13.5.
func checkGuardsDominateDraws(p *core.Program, r *core.Report, roles *Roles, cg, wg *ssa.Function) {
	for _, fn := range []*ssa.Function{cg, wg} {
		name := core.FuncName(fn)
		loops := core.Loops(fn)
		nDraw := 0
		for _, site := range roles.ChoiceSites {
			if site.Parent() != fn {
				continue
			}
			nDraw++
			pos := p.InstrPos(site)
			lenOK := false
			for _, g := range core.Guards(site.Block()) {
				rel, ok := core.AsRel(g)
				if !ok {
					continue
				}
				if recipeField(rel.X, "Length") {
					if k, isC := core.ConstInt(rel.Y); isC && ((rel.Op == token.GEQ && k == 1) || (rel.Op == token.GTR && k == 0)) {
						lenOK = true
					}
				}
			}
			r.Check(lenOK, "R13.2", name, "draw dominated by Length >= 1", pos, "a non-positive length must be refused before any randomness is consumed")
			if fn == cg {
				// attempt budget: an enclosing counted loop bounded by MaxTrials
				okBudget := inAttemptBudgetLoop(loops, site)
				r.Check(okBudget, "R13.5", name, "character draw lies inside the counted retry loop 0 <= i < MaxTrials", pos, "")
				// pre-flight
				okPre := false
				for _, g := range core.Guards(site.Block()) {
					if ex, ok := g.Cond.(*ssa.Extract); ok && g.Pos {
						if c, ok := ex.Tuple.(*ssa.Call); ok && core.StaticCallee(c) != nil && core.StaticCallee(c) == failRateGate(p) {
							okPre = true
						}
					}
					if c, ok := g.Cond.(*ssa.Call); ok && g.Pos && core.StaticCallee(c) != nil && core.StaticCallee(c) == failRateGate(p) {
						okPre = true
					}
				}
				r.Check(okPre, "R13.2", name, "draw dominated by the acceptable-failure-rate pre-flight", pos, "")
			}
		}
		min := 1
		if fn == wg {
			min = 3
		}
		r.Floor("R13.2", "draw sites in "+name, nDraw, min)
	}
}

// charSetDiscipline: every element added to a golang-set set that can reach a
// string assertion is a string: every invoke of Set.Add in the module adds
// either a MakeInterface of a string or of a set.Set (sets of sets are never
// passed to a function that asserts string — checked by type of the callers'
// arguments: functions with a `.(string)` assertion on elements are only
// called with sets whose provenance is setFromString / set algebra on such).
func charSetDiscipline(p *core.Program) (bool, string) {
	// 1. functions asserting string on set elements
	var asserters []*ssa.Function
	for _, fn := range p.LibFuncs() {
		core.Instrs(fn, func(in ssa.Instruction) {
			if ta, ok := in.(*ssa.TypeAssert); ok && !ta.CommaOk && ta.AssertedType.String() == "string" {
				asserters = append(asserters, fn)
			}
		})
	}
	// 2. "string set" producers: functions whose every Add adds a string and that return the set they built
	isStringSetFn := map[*ssa.Function]bool{}
	for _, fn := range p.LibFuncs() {
		adds, okAll := 0, true
		for _, c := range core.Calls(fn) {
			com := c.Common()
			if com.IsInvoke() && core.NamedOf(com.Value.Type()) == "github.com/deckarep/golang-set.Set" && com.Method.Name() == "Add" {
				adds++
				mi, ok := com.Args[0].(*ssa.MakeInterface)
				if !ok {
					okAll = false
					continue
				}
				if b, ok := mi.X.Type().Underlying().(*types.Basic); !ok || b.Kind() != types.String {
					okAll = false
				}
			}
		}
		if adds > 0 && okAll {
			isStringSetFn[fn] = true
		}
	}
	// 3. provenance of a set value
	var isCharSet func(v ssa.Value, depth int, seen map[ssa.Value]bool) bool
	fieldOK := map[string]int{} // 0 unknown 1 ok 2 bad
	isCharSet = func(v ssa.Value, depth int, seen map[ssa.Value]bool) bool {
		if depth > 10 || seen[v] {
			return true
		}
		seen[v] = true
		v = core.StripType(v)
		switch x := v.(type) {
		case *ssa.Const:
			return x.IsNil()
		case *ssa.Call:
			com := x.Common()
			if com.IsInvoke() {
				switch com.Method.Name() {
				case "Difference", "Union", "Intersect", "Clone", "SymmetricDifference":
					if !isCharSet(com.Value, depth+1, seen) {
						return false
					}
					for _, a := range com.Args {
						if !isCharSet(a, depth+1, seen) {
							return false
						}
					}
					return true
				}
				return false
			}
			f := core.StaticCallee(x)
			if f == nil {
				return false
			}
			if f.String() == "github.com/deckarep/golang-set.NewSet" && len(x.Call.Args) <= 1 {
				// NewSet() with no elements
				if len(x.Call.Args) == 1 && !core.IsNilConst(x.Call.Args[0]) {
					return false
				}
				// the set built here must only receive strings in this function
				return isStringSetFn[x.Parent()] || noAddsOn(x)
			}
			if isStringSetFn[f] {
				return true
			}
			if p.InLib(f) && f.Blocks != nil {
				for _, ret := range core.Returns(f) {
					for _, rv := range ret.Results {
						if core.NamedOf(rv.Type()) == "github.com/deckarep/golang-set.Set" && !isCharSet(rv, depth+1, seen) {
							return false
						}
					}
				}
				return true
			}
			return false
		case *ssa.Phi:
			for _, e := range x.Edges {
				if !isCharSet(e, depth+1, seen) {
					return false
				}
			}
			return true
		case *ssa.UnOp:
			if x.Op != token.MUL {
				return false
			}
			// load of a field: every store to that (type, field) in the library stores a char set
			fa, ok := x.X.(*ssa.FieldAddr)
			if !ok {
				return false
			}
			key := core.NamedOf(fa.X.Type()) + "." + core.FieldName(fa)
			switch fieldOK[key] {
			case 1:
				return true
			case 2:
				return false
			}
			fieldOK[key] = 1
			ok = true
			for _, fn := range p.LibFuncs() {
				core.Instrs(fn, func(in ssa.Instruction) {
					st, isSt := in.(*ssa.Store)
					if !isSt {
						return
					}
					fa2, isFA := st.Addr.(*ssa.FieldAddr)
					if !isFA || core.NamedOf(fa2.X.Type())+"."+core.FieldName(fa2) != key {
						return
					}
					if !isCharSet(st.Val, depth+1, map[ssa.Value]bool{}) {
						ok = false
					}
				})
			}
			if !ok {
				fieldOK[key] = 2
			}
			return ok
		case *ssa.Field:
			// value-level field of a struct loaded from a slice element etc.: judge by (type, field) stores
			st, _ := x.X.Type().Underlying().(*types.Struct)
			if st == nil {
				return false
			}
			key := core.NamedOf(x.X.Type()) + "." + st.Field(x.Field).Name()
			if fieldOK[key] == 1 {
				return true
			}
			if fieldOK[key] == 2 {
				return false
			}
			fieldOK[key] = 1
			ok := true
			for _, fn := range p.LibFuncs() {
				core.Instrs(fn, func(in ssa.Instruction) {
					st2, isSt := in.(*ssa.Store)
					if !isSt {
						return
					}
					fa2, isFA := st2.Addr.(*ssa.FieldAddr)
					if !isFA || core.NamedOf(fa2.X.Type())+"."+core.FieldName(fa2) != key {
						return
					}
					if !isCharSet(st2.Val, depth+1, map[ssa.Value]bool{}) {
						ok = false
					}
				})
			}
			if !ok {
				fieldOK[key] = 2
			}
			return ok
		case *ssa.Parameter:
			// every reachable call site passes a char set
			fn := x.Parent()
			idx := paramIndex(x)
			sites := p.Callers(fn)
			if len(sites) == 0 {
				return fn.Object() == nil || !fn.Object().Exported()
			}
			for _, s := range sites {
				if !p.InLib(s.Parent()) {
					continue
				}
				args := s.Common().Args
				if idx >= len(args) || !isCharSet(args[idx], depth+1, seen) {
					return false
				}
			}
			return true
		}
		return false
	}
	for _, fn := range asserters {
		for _, prm := range fn.Params {
			if core.NamedOf(prm.Type()) != "github.com/deckarep/golang-set.Set" {
				continue
			}
			if !isCharSet(prm, 0, map[ssa.Value]bool{}) {
				return false, fmt.Sprintf("a set that is not provably a set of strings can reach the string assertion in %s", core.FuncName(fn))
			}
		}
	}
	var names []string
	for f := range isStringSetFn {
		names = append(names, core.FuncName(f))
	}
	return true, fmt.Sprintf("%d asserting function(s); string-set producers: %s", len(asserters), strings.Join(names, ","))
}

// noAddsOn: the set value has no Add invoked on it in its function.
func noAddsOn(v ssa.Value) bool {
	for _, ref := range core.Referrers(v) {
		if c, ok := ref.(ssa.CallInstruction); ok {
			com := c.Common()
			if com.IsInvoke() && com.Value == v && com.Method.Name() == "Add" {
				return false
			}
		}
	}
	return true
}

// inAttemptBudgetLoop: the site lies inside a counted loop 0 <= i < MaxTrials, step 1
// (exactly MaxTrials attempts, the figure the pre-flight test is computed for).
func inAttemptBudgetLoop(loops []*core.Loop, site ssa.Instruction) bool {
	for _, l := range core.LoopsContaining(loops, site.Block()) {
		cnt, ok := core.AsCounted(l)
		if !ok || cnt.Step != 1 || cnt.Op != token.LSS {
			continue
		}
		if ld, ok := cnt.Bound.(*ssa.UnOp); ok && ld.Op == token.MUL {
			if g, ok := ld.X.(*ssa.Global); ok && g.Name() == "MaxTrials" {
				if z, isC := core.ConstInt(cnt.Init); isC && z == 0 {
					return true
				}
			}
		}
	}
	return false
}

// isAllowPlusRequiredBuilder: v is b.String() of a local strings.Builder that
// received exactly WriteString(recv.AllowChars) once, outside any loop, and then
// WriteString(element) unconditionally in a full range sweep over recv.RequireSets.
func isAllowPlusRequiredBuilder(f *ssa.Function, v ssa.Value, fromRecv func(ssa.Value, string) bool) bool {
	sc, isCall := v.(*ssa.Call)
	if !isCall || core.CallName(sc) != "(*strings.Builder).String" {
		return false
	}
	b, isAl := sc.Call.Args[0].(*ssa.Alloc)
	if !isAl {
		return false
	}
	loops := core.Loops(f)
	var first, swept *ssa.Call
	for _, ref := range core.Referrers(b) {
		c, isC := ref.(*ssa.Call)
		if !isC {
			if _, dbg := ref.(*ssa.DebugRef); dbg {
				continue
			}
			return false
		}
		switch core.CallName(c) {
		case "(*strings.Builder).String", "(*strings.Builder).Grow", "(*strings.Builder).Len":
		case "(*strings.Builder).WriteString":
			l := core.InnermostLoop(loops, c.Block())
			if l == nil {
				if first != nil || !fromRecv(c.Call.Args[1], "AllowChars") {
					return false
				}
				first = c
				continue
			}
			ri, ok := core.AsRange(l)
			if swept != nil || !ok || ri.Kind != "slice" || !fromRecv(ri.X, "RequireSets") {
				return false
			}
			for _, la := range l.Latch {
				if !c.Block().Dominates(la) {
					return false
				}
			}
			ld, isLd := c.Call.Args[1].(*ssa.UnOp)
			if !isLd {
				return false
			}
			ia, isIA := ld.X.(*ssa.IndexAddr)
			if !isIA || ia.Index != ri.Index || !sameSliceLoad(ia.X, ri.X) {
				return false
			}
			swept = c
		default:
			return false
		}
	}
	if first == nil || swept == nil || !core.InstrDominates(first, swept) {
		return false
	}
	l := core.InnermostLoop(loops, swept.Block())
	return !l.Blocks[sc.Block()] && l.Header.Dominates(sc.Block())
}
