package rules

import (
	"fmt"
	"go/token"
	"go/types"
	"strings"

	"golang.org/x/tools/go/ssa"

	"spgverif/internal/core"
)

func init() {
	register(&Property{
		Meta: core.PropertyMeta{
			ID: "C10",
			Explanation: "Decides the normalisation of NewWordList on its SSA form: the caller's slice is only read and never retained; the kept " +
				"words are exactly the keys of one map into which every input element is inserted (duplicates collapse by construction); the " +
				"only removal is of Title(k) for a visited key k with Title(k) != k and Title(k) present, inside a loop that has no other effect " +
				"(so, with strings.Title idempotent, a removed word is never itself a trigger and the kept set does not depend on iteration " +
				"order or input multiplicity); every surviving key is appended exactly once; the empty list is rejected before anything else; " +
				"Size() is the saturated length of the kept slice; and nothing outside the constructor ever writes a WordList.",
			Rules: []string{
				"R10.1 caller's slice: the constructor's summary has no write rooted at its parameter, and no reference stored into the result aliases it",
				"R10.2 dedupe by construction: the words field receives a slice accumulated by appending the range key once per iteration of a range over the dedupe map, with no mutation of that map reachable from that loop; every element of the parameter is inserted as a key in a full sweep (guarded at most by its own absence)",
				"R10.3 documented deletion only: every delete on the dedupe map removes strings.Title(k) for the current range key k under the guards Title(k) != k and presence of Title(k) (and presence of k); the map has no other removal and no insertion after the sweep",
				"R10.4 empty list: the len(list)==0 edge returns (nil, non-nil error) and every other return is dominated by its complement",
				"R10.5 Size() returns uint32(len(words)), saturating at MaxUint32",
				"R10.6 read-only after construction: no store to a WordList field or to an element of words outside the constructor's fresh object",
			},
			Trusted:    append([]string{"strings.Title is idempotent (Title(Title(w)) == Title(w)), so a word that is the title form of another is its own title form and never triggers a deletion", "Go map semantics: each key present for the whole iteration is produced exactly once"}, commonTrusted...),
			NotDecided: []string{"that generated atoms are kept words (C05/R4.1 index agreement)", "value-level behaviour of strings.Title on non-ASCII input"},
		},
		Run: runC10,
	})
}

// wlCtor holds the resolved pieces of the word-list constructor.
type wlCtor struct {
	fn        *ssa.Function
	param     *ssa.Parameter
	result    *ssa.Alloc // the fresh WordList
	fields    map[string]ssa.Value
	dedupe    *ssa.MakeMap
	wordsLoop *core.RangeInfo
	loops     []*core.Loop
}

func resolveWLCtor(p *core.Program, r *core.Report, rule string) *wlCtor {
	fn := p.Func("NewWordList")
	if fn == nil || len(fn.Params) != 1 {
		r.Unrecognised(rule, "NewWordList", "constructor", "", "exported constructor NewWordList([]string) not found")
		return nil
	}
	c := &wlCtor{fn: fn, param: fn.Params[0], loops: core.Loops(fn)}
	for _, ret := range core.Returns(fn) {
		if al, ok := ret.Results[0].(*ssa.Alloc); ok && al.Heap {
			if c.result != nil && c.result != al {
				r.Unrecognised(rule, "NewWordList", "single result object", p.InstrPos(ret), "several result allocations")
				return nil
			}
			c.result = al
		} else if !core.IsNilConst(ret.Results[0]) {
			r.Unrecognised(rule, "NewWordList", "result is a fresh WordList", p.InstrPos(ret), "returns "+core.Describe(ret.Results[0]))
			return nil
		}
	}
	if c.result == nil {
		r.Unrecognised(rule, "NewWordList", "result object", p.Pos(fn.Pos()), "no fresh WordList is returned")
		return nil
	}
	c.fields = core.StructLiteral(c.result)
	return c
}

// sliceAccumulator recognises v = phi(init, append(v, elems...)) at a loop
// header and returns the loop, the append call and the appended element values.
func sliceAccumulator(v ssa.Value, loops []*core.Loop) (*core.Loop, *ssa.Call, []ssa.Value, bool) {
	phi, ok := core.StripType(v).(*ssa.Phi)
	if !ok {
		return nil, nil, nil, false
	}
	var loop *core.Loop
	for _, l := range loops {
		if l.Header == phi.Block() {
			loop = l
		}
	}
	if loop == nil {
		return nil, nil, nil, false
	}
	var app *ssa.Call
	for i, e := range phi.Edges {
		pred := phi.Block().Preds[i]
		if !loop.Blocks[pred] {
			// initial value: nil or empty literal
			if !core.IsNilConst(e) {
				if mk, ok := e.(*ssa.MakeSlice); ok {
					if z, isC := core.ConstInt(mk.Len); isC && z == 0 {
						continue // make([]T, 0, n): empty with spare capacity
					}
				}
				if sl, ok := e.(*ssa.Slice); ok {
					if al, ok := sl.X.(*ssa.Alloc); ok {
						if at, ok := al.Type().Underlying().(*types.Pointer).Elem().Underlying().(*types.Array); ok && at.Len() == 0 {
							continue
						}
					}
				}
				return nil, nil, nil, false
			}
			continue
		}
		if e == ssa.Value(phi) {
			continue // iteration that appends nothing
		}
		c, ok := e.(*ssa.Call)
		if !ok || !core.IsBuiltin(c, "append") || c.Call.Args[0] != ssa.Value(phi) {
			return nil, nil, nil, false
		}
		if app != nil && app != c {
			return nil, nil, nil, false
		}
		app = c
	}
	if app == nil {
		return nil, nil, nil, false
	}
	// appended elements: slice of a varargs array literal
	var elems []ssa.Value
	if sl, ok := app.Call.Args[1].(*ssa.Slice); ok {
		if al, ok := sl.X.(*ssa.Alloc); ok {
			for _, ref := range core.Referrers(al) {
				if ia, ok := ref.(*ssa.IndexAddr); ok {
					for _, rr := range core.Referrers(ia) {
						if st, ok := rr.(*ssa.Store); ok && st.Addr == ia {
							elems = append(elems, st.Val)
						}
					}
				}
			}
		}
	}
	return loop, app, elems, true
}

// sliceFiller recognises
//
//	ws := make([]T, len(m)); i := 0; for k := range m { ws[i] = k; i++ }
//
// — ws has exactly len(m) elements, position i receives the key of the i-th trip, i goes up by one on
// every trip, nothing else writes ws and m does not change after ws was sized: ws holds every key once.
// Returns the loop, the store, and the stored value.
func sliceFiller(fn *ssa.Function, v ssa.Value, loops []*core.Loop) (*core.Loop, ssa.Instruction, []ssa.Value, string) {
	mk, ok := core.StripType(v).(*ssa.MakeSlice)
	if !ok {
		return nil, nil, nil, "not a make"
	}
	m, isLen := core.LenOf(mk.Len)
	if !isLen {
		return nil, nil, nil, "its length is not len(map)"
	}
	if _, isMap := m.Type().Underlying().(*types.Map); !isMap {
		return nil, nil, nil, "its length is not the size of a map"
	}
	var store *ssa.Store
	for _, ref := range core.Referrers(mk) {
		switch x := ref.(type) {
		case *ssa.IndexAddr:
			for _, r2 := range core.Referrers(x) {
				st, isSt := r2.(*ssa.Store)
				if !isSt || st.Addr != ssa.Value(x) {
					continue
				}
				if store != nil {
					return nil, nil, nil, "more than one store into the slice"
				}
				store = st
			}
		case *ssa.Slice:
			return nil, nil, nil, "the slice is re-sliced"
		case *ssa.Call:
			if core.IsBuiltin(x, "append") || core.IsBuiltin(x, "copy") {
				return nil, nil, nil, "the slice is also appended to or copied into"
			}
		}
	}
	if store == nil {
		return nil, nil, nil, "no store into the slice"
	}
	loop := core.InnermostLoop(loops, store.Block())
	if loop == nil {
		return nil, nil, nil, "the store is not in a loop"
	}
	ri, ok := core.AsRange(loop)
	if !ok || ri.Kind != "map" || ri.X != m {
		return nil, nil, nil, "the filling loop does not range over the map that sized the slice"
	}
	idx, ok := store.Addr.(*ssa.IndexAddr).Index.(*ssa.Phi)
	if !ok || idx.Block() != loop.Header {
		return nil, nil, nil, "the position is not a counter of the loop"
	}
	for i, e := range idx.Edges {
		if !loop.Blocks[idx.Block().Preds[i]] {
			if z, isC := core.ConstInt(e); !isC || z != 0 {
				return nil, nil, nil, "the position does not start at 0"
			}
			continue
		}
		bo, isBo := e.(*ssa.BinOp)
		if !isBo || bo.Op != token.ADD || bo.X != ssa.Value(idx) {
			return nil, nil, nil, "the position is not advanced by exactly one on every trip"
		}
		if k, isC := core.ConstInt(bo.Y); !isC || k != 1 {
			return nil, nil, nil, "the position is not advanced by exactly one on every trip"
		}
	}
	// the map keeps its size between the make and the end of the loop
	dels, upds := mapMutations(fn, m)
	reach := reachableFromBlock(mk.Block())
	after := func(in ssa.Instruction) bool {
		if in.Block() != mk.Block() {
			return reach[in.Block()]
		}
		seenMk := false
		for _, x := range mk.Block().Instrs {
			if x == ssa.Instruction(mk) {
				seenMk = true
			}
			if x == in {
				return seenMk || reach[in.Block()] && loopContains(loops, in.Block())
			}
		}
		return true
	}
	for _, d := range dels {
		if after(d) {
			return nil, nil, nil, "the map is modified after the slice was sized"
		}
	}
	for _, u := range upds {
		if after(u) {
			return nil, nil, nil, "the map is modified after the slice was sized"
		}
	}
	return loop, store, []ssa.Value{store.Val}, ""
}

func loopContains(loops []*core.Loop, b *ssa.BasicBlock) bool {
	for _, l := range loops {
		if l.Blocks[b] {
			return true
		}
	}
	return false
}

// mapMutations lists deletes and updates of map m in fn.
func mapMutations(fn *ssa.Function, m ssa.Value) (dels []*ssa.Call, upds []*ssa.MapUpdate) {
	core.Instrs(fn, func(in ssa.Instruction) {
		switch x := in.(type) {
		case *ssa.Call:
			if core.IsBuiltin(x, "delete") && x.Call.Args[0] == m {
				dels = append(dels, x)
			}
		case *ssa.MapUpdate:
			if x.Map == m {
				upds = append(upds, x)
			}
		}
	})
	return
}

// reachableFromBlock returns the blocks reachable from b (including b).
func reachableFromBlock(b *ssa.BasicBlock) map[*ssa.BasicBlock]bool {
	seen := map[*ssa.BasicBlock]bool{}
	stack := []*ssa.BasicBlock{b}
	for len(stack) > 0 {
		x := stack[len(stack)-1]
		stack = stack[:len(stack)-1]
		if seen[x] {
			continue
		}
		seen[x] = true
		stack = append(stack, x.Succs...)
	}
	return seen
}

func runC10(p *core.Program, r *core.Report) {
	c := resolveWLCtor(p, r, "R10.2")
	if c == nil {
		return
	}
	fn := c.fn
	_ = fn

	checkCallerSliceUntouchedOn(p, r, c)

	if !checkKeptSet(p, r, c) {
		return
	}
	wordsField := "words"
	if _, ok := c.fields["words"]; !ok {
		for f, v := range c.fields {
			if v != nil && v.Type().String() == "[]string" {
				wordsField = f
			}
		}
	}

	// "every generated atom is a kept word or its title-cased form": the generator indexes the
	// kept words and capitalises with the same strings.Title the twin removal uses (= C04 R4.4 re-run)
	if g, why := resolveWLGen(p); g == nil {
		r.Unrecognised("R10.3", "(spg.WLRecipe).Generate", "generation shape", "", why)
	} else {
		r.Borrow("R10.3", func() { checkTitleIffCap(p, r, g, "R4.4") })
	}

	// R10.4 empty list
	checkEmptyListRejected(p, r, c)

	// R10.5 Size
	if sz := p.Method("WordList", "Size"); sz == nil {
		r.Unrecognised("R10.5", "WordList.Size", "method", "", "not found")
	} else {
		ok, why := isSaturatedLen(sz, wordsField)
		r.Check(ok, "R10.5", core.FuncName(sz), "Size() is uint32(len(words)) saturating at MaxUint32", p.Pos(sz.Pos()), why)
	}

	// R10.6 who-may-write
	nW := 0
	for _, f := range p.ModuleFuncs() {
		core.Instrs(f, func(in ssa.Instruction) {
			st, ok := in.(*ssa.Store)
			if !ok {
				return
			}
			if w, what := writesWordList(st); w {
				if al, isAl := rootAlloc(st.Addr); isAl && al.Heap && f == fn {
					return // the constructor initialising its fresh object
				}
				nW++
				r.Fail("R10.6", core.FuncName(f), what, p.InstrPos(st), "a WordList is modified after construction")
			}
		})
	}
	if nW == 0 {
		r.Pass("R10.6", "-", "no store to WordList fields or word elements outside the constructor", "", fmt.Sprintf("%d module functions inspected", len(p.ModuleFuncs())))
	}
}

func rootAlloc(addr ssa.Value) (*ssa.Alloc, bool) {
	ref, ok := core.AddrPath(addr)
	if !ok {
		return nil, false
	}
	al, ok := ref.Root.(*ssa.Alloc)
	return al, ok
}

const wordListType = core.ModulePath + ".WordList"

func writesWordList(st *ssa.Store) (bool, string) {
	switch a := st.Addr.(type) {
	case *ssa.FieldAddr:
		if core.NamedOf(a.X.Type()) == wordListType {
			return true, "store to WordList." + core.FieldName(a)
		}
	case *ssa.IndexAddr:
		if ld, ok := a.X.(*ssa.UnOp); ok && ld.Op == token.MUL {
			if fa, ok := ld.X.(*ssa.FieldAddr); ok && core.NamedOf(fa.X.Type()) == wordListType {
				return true, "store to an element of WordList." + core.FieldName(fa)
			}
		}
	}
	return false, ""
}

// isSweepInsertion: u is `m[e] = true` where e is the element of the
// parameter at the range index of a range loop over the parameter, guarded at
// most by lookups of the same key in the same map.
func isSweepInsertion(c *wlCtor, u *ssa.MapUpdate) (bool, string) {
	ld, ok := u.Key.(*ssa.UnOp)
	if !ok || ld.Op != token.MUL {
		return false, "key is not an element of the input: " + core.Describe(u.Key)
	}
	ia, ok := ld.X.(*ssa.IndexAddr)
	if !ok {
		return false, "key is not an element of the constructor's parameter"
	}
	// the swept slice: the parameter itself, or a private full copy of it that nothing else writes
	swept := ssa.Value(c.param)
	if ia.X != swept {
		if src, isCopy := fullCopyOf(ia.X); isCopy && src == swept {
			swept = ia.X
		} else {
			return false, "key is not an element of the constructor's parameter"
		}
	}
	l := core.InnermostLoop(c.loops, u.Block())
	if l == nil {
		return false, "insertion is not inside a loop"
	}
	ri, ok := core.AsRange(l)
	if ok && ri.Kind == "slice" && ri.X == swept && ia.Index == ri.Index {
		// fine
	} else if cnt, ok2 := core.AsCounted(l); ok2 && cnt.Step == 1 && ia.Index == ssa.Value(cnt.Phi) {
		if z, isC := core.ConstInt(cnt.Init); !isC || z != 0 {
			return false, "counted sweep does not start at 0"
		}
		if x, isLen := core.LenOf(cnt.Bound); !isLen || (x != ssa.Value(c.param) && x != swept) || cnt.Op != token.LSS {
			return false, "counted sweep does not run to len(list)"
		}
	} else {
		return false, "enclosing loop is not a full sweep of the parameter"
	}
	// guards between loop body entry and the update: only lookups of the same key
	for _, g := range core.Guards(u.Block()) {
		if !l.Blocks[g.If.Block()] || g.If.Block() == l.Header {
			continue
		}
		cond := stripNot(g.Cond)
		if ex, isEx := cond.(*ssa.Extract); isEx {
			cond = ex.Tuple // comma-ok form
		}
		lk, ok := cond.(*ssa.Lookup)
		if !ok || lk.X != u.Map || lk.Index != u.Key {
			return false, "insertion is conditional on " + core.Describe(g.Cond) + " (drops words other than duplicates)"
		}
	}
	return true, ""
}

// fullCopyOf: v is `make([]T, len(src))` filled by exactly one `copy(v, src)` and otherwise only read,
// or `append([]T(nil), src...)`: element for element the slice src.
func fullCopyOf(v ssa.Value) (ssa.Value, bool) {
	switch x := core.StripType(v).(type) {
	case *ssa.MakeSlice:
		src, isLen := core.LenOf(x.Len)
		if !isLen {
			return nil, false
		}
		copies := 0
		for _, ref := range core.Referrers(x) {
			switch y := ref.(type) {
			case *ssa.Call:
				switch {
				case core.IsBuiltin(y, "copy"):
					if y.Call.Args[0] != ssa.Value(x) || y.Call.Args[1] != src || y.Block() != x.Block() {
						return nil, false
					}
					copies++
				case core.IsBuiltin(y, "len"), core.IsBuiltin(y, "cap"):
				default:
					return nil, false
				}
			case *ssa.IndexAddr:
				for _, r2 := range core.Referrers(y) {
					if st, ok := r2.(*ssa.Store); ok && st.Addr == ssa.Value(y) {
						return nil, false
					}
				}
			case *ssa.Range, *ssa.DebugRef:
			default:
				return nil, false
			}
		}
		return src, copies == 1
	case *ssa.Call:
		if core.IsBuiltin(x, "append") && len(x.Call.Args) == 2 {
			a0 := core.StripType(x.Call.Args[0])
			empty := core.IsNilConst(a0)
			if sl, ok := a0.(*ssa.Slice); ok {
				if al, ok := sl.X.(*ssa.Alloc); ok {
					if at, ok := al.Type().Underlying().(*types.Pointer).Elem().Underlying().(*types.Array); ok && at.Len() == 0 {
						empty = true
					}
				}
			}
			if empty {
				for _, ref := range core.Referrers(x) {
					switch y := ref.(type) {
					case *ssa.IndexAddr:
						for _, r2 := range core.Referrers(y) {
							if st, ok := r2.(*ssa.Store); ok && st.Addr == ssa.Value(y) {
								return nil, false
							}
						}
					case *ssa.Call:
						if !core.IsBuiltin(y, "len") && !core.IsBuiltin(y, "cap") {
							return nil, false
						}
					}
				}
				return x.Call.Args[1], true
			}
		}
	}
	return nil, false
}

func stripNot(v ssa.Value) ssa.Value {
	for {
		u, ok := v.(*ssa.UnOp)
		if !ok || u.Op != token.NOT {
			return v
		}
		v = u.X
	}
}

// isDocumentedDeletion: d = delete(m, t) with t = strings.Title(k), k the key of
// the enclosing range over m, dominated by t != k and by presence lookups.
func isDocumentedDeletion(c *wlCtor, d *ssa.Call) (bool, string) {
	t, ok := d.Call.Args[1].(*ssa.Call)
	targ, isT := ssa.Value(nil), false
	if ok {
		targ, isT = titleCallArg(t)
	}
	if !ok || !isT {
		return false, "deleted key is not strings.Title(k): " + core.Describe(d.Call.Args[1])
	}
	l := core.InnermostLoop(c.loops, d.Block())
	if l == nil {
		return false, "deletion outside a loop"
	}
	ri, ok := core.AsRange(l)
	if !ok || ri.Kind != "map" || ri.X != d.Call.Args[0] {
		return false, "deletion is not inside a range over the same map"
	}
	k, ok := targ.(*ssa.Extract)
	if !ok || k.Tuple != ssa.Value(ri.Next) || k.Index != 1 {
		return false, "Title is not applied to the current range key"
	}
	neq, present := false, false
	extra := ""
	for _, g := range core.Guards(d.Block()) {
		if !l.Blocks[g.If.Block()] || g.If.Block() == l.Header {
			continue
		}
		if rel, ok := core.AsRel(g); ok && rel.Op == token.NEQ {
			if (rel.X == ssa.Value(t) && rel.Y == ssa.Value(k)) || (rel.Y == ssa.Value(t) && rel.X == ssa.Value(k)) {
				neq = true
				continue
			}
		}
		// presence tests of k or of Title(k) in the same map change nothing
		if lk, ok := g.Cond.(*ssa.Lookup); ok && g.Pos && lk.X == d.Call.Args[0] && (lk.Index == ssa.Value(t) || lk.Index == ssa.Value(k)) {
			present = true
			continue
		}
		if ex, ok := g.Cond.(*ssa.Extract); ok && g.Pos {
			if lk, isLk := ex.Tuple.(*ssa.Lookup); isLk && lk.X == d.Call.Args[0] && (lk.Index == ssa.Value(t) || lk.Index == ssa.Value(k)) {
				present = true
				continue
			}
		}
		extra = "additional condition on the deletion at " + g.If.Block().String() + ": " + core.Describe(g.Cond)
	}
	if extra != "" {
		return false, extra + " (a twin the extra condition lets through stays in the list)"
	}
	if !neq {
		return false, "deletion is not guarded by Title(k) != k (a word equal to its own title form would delete itself)"
	}
	_ = present // presence is implied by delete's own semantics; not required
	return true, ""
}

// checkMapOrderIndependence applies R8.1 to every map-range loop of fn.
func checkMapOrderIndependence(p *core.Program, r *core.Report, fn *ssa.Function) int {
	name := core.FuncName(fn)
	n := 0
	for _, l := range core.Loops(fn) {
		ri, ok := core.AsRange(l)
		if !ok || ri.Kind != "map" {
			continue
		}
		n++
		pos := p.InstrPos(ri.Next)
		var key ssa.Value
		for _, ref := range core.Referrers(ri.Next) {
			if ex, ok := ref.(*ssa.Extract); ok && ex.Index == 1 {
				key = ex
			}
		}
		// cross-key mutation of the ranged map inside the loop?
		cross := ""
		var crossInstr ssa.Instruction
		for b := range l.Blocks {
			for _, in := range b.Instrs {
				switch x := in.(type) {
				case *ssa.Call:
					if core.IsBuiltin(x, "delete") && x.Call.Args[0] == ri.X && x.Call.Args[1] != key {
						cross, crossInstr = "delete of a key other than the current one", x
					}
				case *ssa.MapUpdate:
					if x.Map == ri.X && x.Key != key {
						cross, crossInstr = "insertion under a key other than the current one", x
					}
				}
			}
		}
		// loop-carried state
		var carried []string
		for _, in := range l.Header.Instrs {
			if phi, ok := in.(*ssa.Phi); ok {
				c := phi.Comment
				if c == "" {
					c = phi.Name()
				}
				carried = append(carried, c)
				// floating-point accumulation in a map loop is order dependent regardless
				if b, ok := phi.Type().Underlying().(*types.Basic); ok && b.Info()&types.IsFloat != 0 {
					r.Fail("R8.1", name, "floating-point accumulator "+c+" in a range-over-map loop", p.InstrPos(phi), "float addition is not associative: the sum depends on map iteration order")
				}
			}
		}
		if cross == "" {
			r.Pass("R8.1", name, "map-range loop does not mutate other keys of the ranged map", pos, fmt.Sprintf("loop-carried: %v", carried))
			continue
		}
		// with a cross-key mutation the loop may have no other effect
		var other []string
		for b := range l.Blocks {
			for _, in := range b.Instrs {
				switch x := in.(type) {
				case *ssa.Store:
					other = append(other, "store at "+p.InstrPos(x))
				case *ssa.MapUpdate:
					if x.Map != ri.X {
						other = append(other, "map update at "+p.InstrPos(x))
					}
				case *ssa.Call:
					cn := core.CallName(x)
					if strings.HasPrefix(cn, "builtin:") || cn == "strings.Title" || strings.HasPrefix(cn, "strings.") {
						continue
					}
					if _, isT := titleCallArg(x); isT {
						continue
					}
					other = append(other, "call "+cn+" at "+p.InstrPos(x))
				}
			}
		}
		ok2 := len(carried) == 0 && len(other) == 0
		detail := ""
		if !ok2 {
			detail = fmt.Sprintf("%s at %s makes which entries are visited depend on iteration order, yet the loop also carries state %v / has effects %v; the result then differs from run to run",
				cross, p.InstrPos(crossInstr), carried, other)
		}
		r.Check(ok2, "R8.1", name, "map-range loop with cross-key mutation has no other effect", pos, detail)
	}
	return n
}

func checkEmptyListRejected(p *core.Program, r *core.Report, c *wlCtor) {
	fn := c.fn
	name := core.FuncName(fn)
	found := false
	for _, b := range fn.Blocks {
		if len(b.Instrs) == 0 {
			continue
		}
		iff, ok := b.Instrs[len(b.Instrs)-1].(*ssa.If)
		if !ok {
			continue
		}
		for si := 0; si < 2; si++ {
			g, _ := core.EdgeCond(b, si)
			rel, ok := core.AsRel(g)
			if !ok {
				continue
			}
			// len(list) == 0 or len(list) < 1
			isEmpty := false
			if x, isLen := core.LenOf(rel.X); isLen && x == ssa.Value(c.param) {
				if k, isC := core.ConstInt(rel.Y); isC {
					if (rel.Op == token.EQL && k == 0) || (rel.Op == token.LSS && k == 1) || (rel.Op == token.LEQ && k == 0) {
						isEmpty = true
					}
				}
			}
			if !isEmpty {
				continue
			}
			found = true
			errBlock := b.Succs[si]
			okBlock := b.Succs[1-si]
			r.Check(failsClosed(errBlock, map[*ssa.BasicBlock]bool{}), "R10.4", name, "empty input returns a non-nil error", p.InstrPos(iff), "the len(list)==0 edge must end in return nil, err")
			allDom := true
			for _, ret := range core.Returns(fn) {
				if core.IsNilConst(ret.Results[0]) || (len(okBlock.Preds) == 1 && okBlock.Dominates(ret.Block())) {
					continue
				}
				// not dominated (the test sits in an expanded validation helper): known through the merged error instead
				known := false
				for _, g := range core.Guards(ret.Block()) {
					if v, nonEmpty, ok := core.EmptinessTest(g); ok && nonEmpty && v == ssa.Value(c.param) {
						known = true
					}
				}
				if !known {
					allDom = false
				}
			}
			r.Check(allDom, "R10.4", name, "every successful return is dominated by len(list)!=0", p.InstrPos(iff), "")
			// the check comes first: the block testing it is the entry block
			r.Check(b == fn.Blocks[0], "R10.4", name, "emptiness is tested before anything else", p.InstrPos(iff), "")
		}
	}
	if !found {
		r.Fail("R10.4", name, "empty list is rejected", p.Pos(fn.Pos()), "no len(list)==0 test found in the constructor")
	}
	// error returns carry a nil list, success returns a nil error
	for _, ret := range core.Returns(fn) {
		if len(ret.Results) != 2 {
			continue
		}
		a, e := ret.Results[0], ret.Results[1]
		ok := (core.IsNilConst(a) && !core.IsNilConst(e)) || (!core.IsNilConst(a) && core.IsNilConst(e))
		r.Check(ok, "R10.4", name, "return pair is (nil, err) or (list, nil)", p.InstrPos(ret), "")
	}
}

// isSaturatedLen: fn returns uint32(len(recv.<field>)) or MaxUint32 under len > MaxUint32.
func isSaturatedLen(fn *ssa.Function, field string) (bool, string) {
	for _, ret := range core.Returns(fn) {
		v := ret.Results[0]
		if c, ok := core.ConstUint(v); ok {
			if c != maxU32 {
				return false, fmt.Sprintf("constant %d returned", c)
			}
			// must be guarded by len > MaxUint32
			okG := false
			for _, g := range core.Guards(ret.Block()) {
				if rel, ok := core.AsRel(g); ok && (rel.Op == token.GTR || rel.Op == token.GEQ) {
					if k, isC := core.ConstUint(rel.Y); isC && k >= maxU32 {
						if x, isLen := core.LenOf(core.Strip(rel.X)); isLen && isFieldLoad(x, field) {
							okG = true
						}
					}
				}
			}
			if !okG {
				return false, "MaxUint32 returned without the overflow guard"
			}
			continue
		}
		if _, ok := v.(*ssa.Convert); !ok {
			return false, "returned value is not a conversion of len(words): " + core.Describe(v)
		}
		x, isLen := core.LenOf(core.Strip(v))
		if !isLen || !isFieldLoad(x, field) {
			return false, "returned value is not len of the words field: " + core.Describe(v)
		}
	}
	return true, ""
}

func isFieldLoad(v ssa.Value, field string) bool {
	ref, ok := core.LoadPath(v)
	return ok && ref.Path == "."+field
}

// checkKeptSet applies R10.2 and R10.3: the kept words are the keys of one
// dedupe map filled by a full sweep of the input, with the documented deletion
// only — so the kept set depends on the set of input words alone (not on order
// or multiplicity). Also used by C08, whose value is a function of that set.
func checkKeptSet(p *core.Program, r *core.Report, c *wlCtor) bool {
	fn := c.fn
	name := core.FuncName(fn)
	// R10.2 words provenance
	wordsV, ok := c.fields["words"]
	var wordsField string = "words"
	if !ok {
		// by role: the []string field
		for f, v := range c.fields {
			if v != nil && v.Type().String() == "[]string" {
				wordsV, wordsField, ok = v, f, true
			}
		}
	}
	if !ok || wordsV == nil {
		r.Unrecognised("R10.2", name, "words field", p.Pos(fn.Pos()), "no []string field is stored into the result")
		return false
	}
	var app ssa.Instruction
	loop, appCall, elems, ok := sliceAccumulator(wordsV, c.loops)
	app = appCall
	if !ok {
		// the other way to collect the keys: a slice made with len(map) elements, filled by position
		var why string
		loop, app, elems, why = sliceFiller(fn, wordsV, c.loops)
		if loop == nil {
			r.Fail("R10.2", name, "kept words are accumulated by appending map keys", p.Pos(fn.Pos()),
				"the value stored into "+wordsField+" is neither `phi(nil, append(acc, key))` over a range loop nor a slice of len(map) elements filled by position ("+why+"): "+core.Describe(wordsV))
			return false
		}
	}
	ri, ok := core.AsRange(loop)
	if !ok || ri.Kind != "map" {
		r.Fail("R10.2", name, "kept words come from a range over the dedupe map", p.InstrPos(app), "the accumulating loop does not range over a map")
		return false
	}
	mk, ok := ri.X.(*ssa.MakeMap)
	if !ok {
		r.Fail("R10.2", name, "dedupe map is local", p.InstrPos(app), "ranged map is "+core.Describe(ri.X))
		return false
	}
	c.dedupe, c.wordsLoop = mk, ri
	keyOK := len(elems) == 1
	if keyOK {
		ex, isEx := elems[0].(*ssa.Extract)
		keyOK = isEx && ex.Tuple == ssa.Value(ri.Next) && ex.Index == 1
	}
	r.Check(keyOK, "R10.2", name, "exactly the range key is appended", p.InstrPos(app), "each kept word must be a key of the dedupe map, appended unchanged")
	// append executes once per iteration: its block dominates every latch
	once := true
	for _, l := range loop.Latch {
		if !app.Block().Dominates(l) {
			once = false
		}
	}
	r.Check(once, "R10.2", name, "append is unconditional in the loop body", p.InstrPos(app), "a conditional append drops words other than duplicates and capitalised twins")
	dels, upds := mapMutations(fn, mk)
	reach := reachableFromBlock(loop.Header)
	late := ""
	for _, d := range dels {
		if reach[d.Block()] {
			late = "delete at " + p.InstrPos(d)
		}
	}
	for _, u := range upds {
		if reach[u.Block()] {
			late = "insertion at " + p.InstrPos(u)
		}
	}
	r.Check(late == "", "R10.2", name, "dedupe map is final when the words are collected", p.InstrPos(app), late)

	// insertions: full sweep of the parameter
	r.Check(len(upds) >= 1, "R10.2", name, "input elements are inserted into the dedupe map", p.Pos(fn.Pos()), "no insertion found")
	for _, u := range upds {
		okSweep, why := isSweepInsertion(c, u)
		r.Check(okSweep, "R10.2", name, "insertion is a full sweep of the input with the element as key", p.InstrPos(u), why)
	}

	// R10.3 deletions
	for _, d := range dels {
		okDel, why := isDocumentedDeletion(c, d)
		r.Check(okDel, "R10.3", name, "deletion removes Title(k) of the visited key k, guarded by Title(k)!=k and presence", p.InstrPos(d), why)
	}
	r.Floor("R10.3", "deletions from the dedupe map", len(dels), 1)

	// other mutations through aliases of the map (passed to calls)
	for _, ref := range core.Referrers(mk) {
		switch x := ref.(type) {
		case *ssa.MapUpdate, *ssa.Lookup, *ssa.Range, *ssa.DebugRef:
		case *ssa.Call:
			if core.IsBuiltin(x, "delete") || core.IsBuiltin(x, "len") {
				continue
			}
			r.Fail("R10.3", name, "dedupe map escapes to a call", p.InstrPos(x), x.String())
		default:
			r.Fail("R10.3", name, "dedupe map escapes", p.InstrPos(ref), ref.String())
		}
	}

	return true
}

// checkCallerSliceUntouched: R10.1 (resolved constructor).
func checkCallerSliceUntouched(p *core.Program, r *core.Report) {
	if c := resolveWLCtor(p, r, "R10.1"); c != nil {
		checkCallerSliceUntouchedOn(p, r, c)
	}
}

func checkCallerSliceUntouchedOn(p *core.Program, r *core.Report, c *wlCtor) {
	eff := core.GetEff(p)
	fn := c.fn
	name := core.FuncName(fn)
	// R10.1
	bad := 0
	for _, ef := range eff.Writes(fn) {
		bad++
		r.Fail("R10.1", name, ef.What+" -> "+ef.Root.String(), p.InstrPos(ef.Instr), "the constructor modifies memory it does not own (the caller's slice)")
	}
	if bad == 0 {
		r.Pass("R10.1", name, "no write rooted at the parameter", p.Pos(fn.Pos()), fmt.Sprintf("%d direct writes, all to fresh memory", len(eff.Direct[fn])))
	}
	for f, v := range c.fields {
		if v == nil {
			r.Fail("R10.1", name, "field "+f+" stored more than once", p.Pos(fn.Pos()), "")
			continue
		}
		okRoots := true
		why := ""
		for _, root := range eff.MemRoots(v) {
			if root.Kind != core.RFresh && root.Kind != core.RLocal {
				okRoots = false
				why = "value stored into " + f + " aliases " + root.String()
			}
		}
		r.Check(okRoots, "R10.1", name, "result field "+f+" does not retain caller memory", p.Pos(fn.Pos()), why)
	}

}
