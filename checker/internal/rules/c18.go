package rules

import (
	"fmt"
	"go/token"
	"go/types"
	"sort"
	"strings"

	"golang.org/x/tools/go/ssa"

	"spgverif/internal/core"
)

func init() {
	register(&Property{
		Meta: core.PropertyMeta{
			ID: "C18",
			Explanation: "Interprocedural, flow-insensitive taint analysis over the module's SSA form. Sources: every result of the raw-word and " +
				"bounded-draw routines and the CSPRNG buffer. Taint propagates through all value operations (an element selected by a tainted " +
				"index is tainted), local memory cells (per allocation and field), heap cells abstracted per (type, field) / element type, call " +
				"arguments and per-index results (call graph: VTA), closures' captured variables, and foreign functions (result tainted if any " +
				"argument is). A value whose static type can reach a tainted (type, field) cell (Token, Tokens, Password once Token.value is " +
				"tainted) counts as tainted. Sinks, in package spg only: arguments of fmt.Print*/Fprint*, log.*, os.File/io.Writer writes, " +
				"print/println, operands of panic, arguments of error constructors, stores to package variables. The check lists every sink " +
				"site with its verdict; no source may reach a sink. This covers all recipes and streams, including rejected candidates.",
			Rules: []string{
				"R18.1 no tainted sink: no argument of an output call, panic operand, error-constructor argument or global store in package spg is tainted",
				"R18.3 diagnostics carry counts and probabilities only: every operand of an output/log/write call in package spg is built from constants and numeric values (through formatting, concatenation, error construction); a non-constant string, character set, word or name is reported",
				"R18.2 inventory: every sink site is listed with the taint verdict of each argument; floors on analysed sources (>=5) and sinks (>=15) prevent a vacuous pass",
			},
			Trusted:    append([]string{"foreign functions do not stash their arguments in global state that later reaches an output"}, commonTrusted...),
			NotDecided: []string{"control dependence (e.g. the number of retries)", "timing/allocation side channels", "what callers do with the returned Password"},
		},
		Run:            runC18,
		Fixture:        "c18",
		FixtureExpects: []string{"R18.1"},
	})
}

type taintState struct {
	p        *core.Program
	val      map[ssa.Value]bool
	allocC   map[*ssa.Alloc]map[string]bool
	typeC    map[string]bool
	globalC  map[*ssa.Global]bool
	ret      map[*ssa.Function]map[int]bool
	param    map[*ssa.Parameter]bool
	paramF   map[*ssa.Parameter]map[string]bool // tainted fields of struct-typed parameters
	freevar  map[*ssa.FreeVar]bool
	changed  bool
	why      map[ssa.Value]string
	nSources int
}

func (t *taintState) setVal(v ssa.Value, why string) {
	if v == nil || t.val[v] {
		return
	}
	if _, isC := v.(*ssa.Const); isC {
		return
	}
	t.val[v] = true
	t.why[v] = why
	t.changed = true
}

func (t *taintState) setType(c string) {
	if !t.typeC[c] {
		t.typeC[c] = true
		t.changed = true
	}
}

func (t *taintState) setAlloc(a *ssa.Alloc, f string) {
	m := t.allocC[a]
	if m == nil {
		m = map[string]bool{}
		t.allocC[a] = m
	}
	if !m[f] {
		m[f] = true
		t.changed = true
	}
}

func typeName(ty types.Type) string {
	if p, ok := ty.Underlying().(*types.Pointer); ok {
		ty = p.Elem()
	}
	if n := core.NamedOf(ty); n != "" {
		return n
	}
	return ty.String()
}

// typeReach: can a value of type ty reach a tainted heap cell?
func (t *taintState) typeReach(ty types.Type, depth int, seen map[string]bool) bool {
	if depth > 5 {
		return false
	}
	key := ty.String()
	if seen[key] {
		return false
	}
	seen[key] = true
	switch u := ty.Underlying().(type) {
	case *types.Pointer:
		if t.typeC["*"+typeName(u.Elem())] {
			return true
		}
		return t.typeReach(u.Elem(), depth+1, seen)
	case *types.Slice:
		if t.typeC["[]"+u.Elem().String()] {
			return true
		}
		return t.typeReach(u.Elem(), depth+1, seen)
	case *types.Array:
		if t.typeC["[]"+u.Elem().String()] {
			return true
		}
		return t.typeReach(u.Elem(), depth+1, seen)
	case *types.Map:
		if t.typeC["map:"+ty.String()] {
			return true
		}
		return t.typeReach(u.Elem(), depth+1, seen)
	case *types.Struct:
		tn := typeName(ty)
		for i := 0; i < u.NumFields(); i++ {
			if t.typeC[tn+"."+u.Field(i).Name()] {
				return true
			}
			if t.typeReach(u.Field(i).Type(), depth+1, seen) {
				return true
			}
		}
	}
	return false
}

func isStructVal(v ssa.Value) (*types.Struct, bool) {
	st, ok := v.Type().Underlying().(*types.Struct)
	return st, ok
}

// structTaint returns the tainted fields of a struct-typed value ("" = all).
func (t *taintState) structTaint(v ssa.Value, depth int) map[string]bool {
	out := map[string]bool{}
	st, ok := isStructVal(v)
	if !ok || depth > 6 {
		return out
	}
	tn := typeName(v.Type())
	addTypeCells := func() {
		for i := 0; i < st.NumFields(); i++ {
			f := st.Field(i)
			if t.typeC[tn+"."+f.Name()] || t.typeReach(f.Type(), 0, map[string]bool{}) {
				out[f.Name()] = true
			}
		}
	}
	if t.val[v] {
		out[""] = true
		return out
	}
	switch x := v.(type) {
	case *ssa.UnOp:
		if x.Op == token.MUL {
			if al, ok := x.X.(*ssa.Alloc); ok {
				for f := range t.allocC[al] {
					out[f] = true
				}
				// reference-typed fields may still reach tainted heap cells
				for i := 0; i < st.NumFields(); i++ {
					if t.typeReach(st.Field(i).Type(), 0, map[string]bool{}) {
						out[st.Field(i).Name()] = true
					}
				}
				return out
			}
			addTypeCells()
			if ia, ok := x.X.(*ssa.IndexAddr); ok && t.tainted(ia.Index) {
				out[""] = true
			}
			return out
		}
	case *ssa.Parameter:
		for f := range t.paramF[x] {
			out[f] = true
		}
		addTypeCells()
		return out
	case *ssa.Phi:
		for _, e := range x.Edges {
			for f := range t.structTaint(e, depth+1) {
				out[f] = true
			}
		}
		return out
	case *ssa.Const:
		return out
	}
	addTypeCells()
	return out
}

func (t *taintState) tainted(v ssa.Value) bool {
	if v == nil {
		return false
	}
	if t.val[v] {
		return true
	}
	if _, isC := v.(*ssa.Const); isC {
		return false
	}
	if _, isStruct := isStructVal(v); isStruct {
		return len(t.structTaint(v, 0)) > 0
	}
	switch x := v.(type) {
	case *ssa.Parameter:
		if t.param[x] {
			return true
		}
	case *ssa.FreeVar:
		if t.freevar[x] {
			return true
		}
	case *ssa.Alloc:
		if len(t.allocC[x]) > 0 {
			return true
		}
	case *ssa.Slice:
		if al, ok := x.X.(*ssa.Alloc); ok && len(t.allocC[al]) > 0 {
			return true
		}
	}
	return t.typeReach(v.Type(), 0, map[string]bool{})
}

func (t *taintState) whyOf(v ssa.Value) string {
	if w, ok := t.why[v]; ok {
		return w
	}
	if t.typeReach(v.Type(), 0, map[string]bool{}) {
		return "its type " + v.Type().String() + " reaches a heap cell that holds generated material"
	}
	return "derived from a draw"
}

// store marks the cells addr may denote.
func (t *taintState) store(addr ssa.Value) {
	switch a := addr.(type) {
	case *ssa.Alloc:
		t.setAlloc(a, "")
	case *ssa.FieldAddr:
		if al, ok := a.X.(*ssa.Alloc); ok {
			t.setAlloc(al, core.FieldName(a))
			if !al.Heap {
				return
			}
			// a heap object outlives the function: its contents are also visible through the type-keyed cells
		}
		t.setType(typeName(a.X.Type()) + "." + core.FieldName(a))
	case *ssa.IndexAddr:
		switch b := a.X.(type) {
		case *ssa.Alloc:
			t.setAlloc(b, "[]")
			return
		case *ssa.Slice:
			if al, ok := b.X.(*ssa.Alloc); ok {
				t.setAlloc(al, "[]")
				return
			}
		}
		var el types.Type
		switch u := a.X.Type().Underlying().(type) {
		case *types.Slice:
			el = u.Elem()
		case *types.Pointer:
			if ar, ok := u.Elem().Underlying().(*types.Array); ok {
				el = ar.Elem()
			}
		}
		if el != nil {
			t.setType("[]" + el.String())
		}
	case *ssa.Global:
		if !t.globalC[a] {
			t.globalC[a] = true
			t.changed = true
		}
	case *ssa.FreeVar:
		if !t.freevar[a] {
			t.freevar[a] = true
			t.changed = true
		}
	default:
		t.setType("*" + typeName(addr.Type()))
	}
}

// crossTainted: taint that travels with a value across a call boundary. For
// pointers/maps/channels only explicit value taint counts (the pointee's
// contents are tracked by the type-keyed heap cells, which are global).
func (t *taintState) crossTainted(v ssa.Value) bool {
	switch v.Type().Underlying().(type) {
	case *types.Pointer, *types.Map, *types.Chan:
		if t.val[v] {
			return true
		}
		switch x := v.(type) {
		case *ssa.Parameter:
			return t.param[x]
		case *ssa.FreeVar:
			return t.freevar[x]
		}
		return false
	}
	return t.tainted(v)
}

// storeStruct copies the tainted fields of a struct value into the cells of addr.
func (t *taintState) storeStruct(addr ssa.Value, st *types.Struct, tn string, fields map[string]bool) {
	if len(fields) == 0 {
		return
	}
	if fields[""] {
		t.store(addr)
		return
	}
	if al, ok := addr.(*ssa.Alloc); ok {
		for f := range fields {
			t.setAlloc(al, f)
		}
		if !al.Heap {
			return
		}
	}
	for f := range fields {
		t.setType(tn + "." + f)
	}
}

func (t *taintState) loadTainted(addr ssa.Value) bool {
	switch a := addr.(type) {
	case *ssa.Alloc:
		return len(t.allocC[a]) > 0
	case *ssa.FieldAddr:
		if al, ok := a.X.(*ssa.Alloc); ok {
			return t.allocC[al][core.FieldName(a)] || t.allocC[al][""]
		}
		if t.typeC[typeName(a.X.Type())+"."+core.FieldName(a)] {
			return true
		}
		return t.val[a.X] // pointer itself derived from secret selection
	case *ssa.IndexAddr:
		if t.tainted(a.Index) || t.val[a.X] {
			return true
		}
		switch b := a.X.(type) {
		case *ssa.Alloc:
			return t.allocC[b]["[]"] || t.allocC[b][""]
		case *ssa.Slice:
			if al, ok := b.X.(*ssa.Alloc); ok {
				return t.allocC[al]["[]"] || t.allocC[al][""]
			}
		}
		switch u := a.X.Type().Underlying().(type) {
		case *types.Slice:
			return t.typeC["[]"+u.Elem().String()]
		case *types.Pointer:
			if ar, ok := u.Elem().Underlying().(*types.Array); ok {
				return t.typeC["[]"+ar.Elem().String()]
			}
		}
	case *ssa.Global:
		return t.globalC[a]
	case *ssa.FreeVar:
		return t.freevar[a]
	default:
		return t.typeC["*"+typeName(addr.Type())] || t.val[addr]
	}
	return false
}

// foreign functions whose result is not secret material: the CSPRNG read's
// (n, err), and pure counts (the property admits counts in diagnostics, like len)
var untaintedExternal = map[string]bool{"crypto/rand.Read": true, "io.ReadFull": true, "io.ReadAtLeast": true,
	"unicode/utf8.RuneCountInString": true, "unicode/utf8.RuneCount": true, "strings.Count": true}

func computeTaint(p *core.Program) *taintState {
	t := &taintState{p: p, val: map[ssa.Value]bool{}, allocC: map[*ssa.Alloc]map[string]bool{}, typeC: map[string]bool{},
		globalC: map[*ssa.Global]bool{}, ret: map[*ssa.Function]map[int]bool{}, param: map[*ssa.Parameter]bool{},
		freevar: map[*ssa.FreeVar]bool{}, why: map[ssa.Value]string{}, paramF: map[*ssa.Parameter]map[string]bool{}}
	roles := GetRoles(p)
	isSrcFn := map[*ssa.Function]bool{}
	for _, f := range roles.RawWord {
		isSrcFn[f] = true
	}
	for _, f := range roles.BoundedDraw {
		isSrcFn[f] = true
	}
	funcs := p.ModuleFuncs()
	// seed: calls of source functions; CSPRNG buffers
	for _, fn := range funcs {
		for _, c := range core.Calls(fn) {
			cv, ok := c.(*ssa.Call)
			if !ok {
				continue
			}
			for _, g := range p.Callees(cv) {
				if isSrcFn[g] {
					t.setVal(cv, "result of "+core.FuncName(g)+" at "+p.InstrPos(cv))
					t.nSources++
				}
			}
			switch core.CallName(cv) {
			case "crypto/rand.Read":
				if arr, _, ok := fullBuffer(cv.Call.Args[0]); ok {
					if al, isAl := arr.(*ssa.Alloc); isAl {
						t.setAlloc(al, "[]")
						t.nSources++
					}
				}
			case "io.ReadFull", "io.ReadAtLeast":
				if isRandReader(cv.Call.Args[0]) {
					if arr, _, ok := fullBuffer(cv.Call.Args[1]); ok {
						if al, isAl := arr.(*ssa.Alloc); isAl {
							t.setAlloc(al, "[]")
							t.nSources++
						}
					}
				}
			}
		}
	}
	for iter := 0; iter < 40; iter++ {
		t.changed = false
		for _, fn := range funcs {
			t.step(fn)
		}
		if !t.changed {
			break
		}
	}
	return t
}

func (t *taintState) step(fn *ssa.Function) {
	p := t.p
	for _, b := range fn.Blocks {
		for _, in := range b.Instrs {
			switch x := in.(type) {
			case *ssa.Store:
				if st, isStruct := isStructVal(x.Val); isStruct {
					t.storeStruct(x.Addr, st, typeName(x.Val.Type()), t.structTaint(x.Val, 0))
				} else if t.tainted(x.Val) {
					t.store(x.Addr)
				}
			case *ssa.MapUpdate:
				if t.tainted(x.Key) || t.tainted(x.Value) {
					t.setType("map:" + x.Map.Type().String())
					t.setVal(x.Map, "map updated with generated material")
				}
			case *ssa.Return:
				for i, rv := range x.Results {
					if t.crossTainted(rv) {
						m := t.ret[fn]
						if m == nil {
							m = map[int]bool{}
							t.ret[fn] = m
						}
						if !m[i] {
							m[i] = true
							t.changed = true
						}
					}
				}
			case *ssa.MakeClosure:
				clo := x.Fn.(*ssa.Function)
				for i, bnd := range x.Bindings {
					if t.tainted(bnd) && !t.freevar[clo.FreeVars[i]] {
						// a captured variable cell that holds tainted data
						if al, ok := bnd.(*ssa.Alloc); ok && len(t.allocC[al]) == 0 {
							continue
						}
						t.freevar[clo.FreeVars[i]] = true
						t.changed = true
					}
				}
			case ssa.CallInstruction:
				t.stepCall(fn, x)
			}
			v, ok := in.(ssa.Value)
			if !ok || t.val[v] {
				continue
			}
			switch x := in.(type) {
			case *ssa.UnOp:
				if x.Op == token.MUL {
					if _, isStruct := isStructVal(x); isStruct {
						continue // struct values are bags of field cells (structTaint)
					}
					if t.loadTainted(x.X) {
						t.setVal(x, "loaded from a cell holding generated material")
					}
				} else if t.tainted(x.X) {
					t.setVal(x, t.whyOf(x.X))
				}
			case *ssa.BinOp:
				if t.val[x.X] || t.val[x.Y] || t.tainted(x.X) || t.tainted(x.Y) {
					t.setVal(x, "computed from generated material")
				}
			case *ssa.Phi:
				for _, e := range x.Edges {
					if t.tainted(e) {
						t.setVal(x, t.whyOf(e))
					}
				}
			case *ssa.Convert:
				if t.tainted(x.X) {
					t.setVal(x, t.whyOf(x.X))
				}
			case *ssa.ChangeType:
				if t.tainted(x.X) {
					t.setVal(x, t.whyOf(x.X))
				}
			case *ssa.ChangeInterface:
				if t.tainted(x.X) {
					t.setVal(x, t.whyOf(x.X))
				}
			case *ssa.MakeInterface:
				if t.tainted(x.X) {
					t.setVal(x, t.whyOf(x.X))
				}
			case *ssa.TypeAssert:
				if t.tainted(x.X) {
					t.setVal(x, t.whyOf(x.X))
				}
			case *ssa.Slice:
				if t.tainted(x.X) {
					t.setVal(x, t.whyOf(x.X))
				}
			case *ssa.Extract:
				if c, ok := x.Tuple.(*ssa.Call); ok {
					if t.callResultTainted(c, x.Index) {
						t.setVal(x, "result of "+core.CallName(c))
					}
				} else if t.tainted(x.Tuple) {
					t.setVal(x, t.whyOf(x.Tuple))
				}
			case *ssa.Index:
				if t.tainted(x.X) || t.tainted(x.Index) {
					t.setVal(x, "element selected by / from generated material")
				}
			case *ssa.Lookup:
				if t.tainted(x.X) || t.tainted(x.Index) {
					t.setVal(x, "element selected by / from generated material")
				}
			case *ssa.Field:
				if stt, ok := isStructVal(x.X); ok {
					ft := t.structTaint(x.X, 0)
					if ft[""] || ft[stt.Field(x.Field).Name()] {
						if _, inner := isStructVal(x); !inner {
							t.setVal(x, "field "+stt.Field(x.Field).Name()+" holds generated material")
						}
					}
				}
			case *ssa.Next:
				if t.tainted(x.Iter) {
					t.setVal(x, "iteration over generated material")
				}
			case *ssa.Range:
				if t.tainted(x.X) {
					t.setVal(x, t.whyOf(x.X))
				}
			case *ssa.Call:
				if x.Type() != nil {
					if _, isTuple := x.Type().(*types.Tuple); !isTuple && t.callResultTainted(x, 0) {
						t.setVal(x, "result of "+core.CallName(x))
					}
				}
			}
			_ = p
		}
	}
}

// callResultTainted: result #idx of call c is tainted.
func (t *taintState) callResultTainted(c *ssa.Call, idx int) bool {
	if t.val[c] {
		return true // seeded source
	}
	com := c.Common()
	if b, ok := com.Value.(*ssa.Builtin); ok {
		switch b.Name() {
		case "len", "cap":
			return false // lengths are not tracked as secret material (counts only)
		}
		for _, a := range com.Args {
			if t.tainted(a) {
				return true
			}
		}
		return false
	}
	callees := t.p.Callees(c)
	res := false
	for _, g := range callees {
		if t.p.InModule(g) && g.Blocks != nil {
			if t.ret[g][idx] {
				res = true
			}
			continue
		}
		if untaintedExternal[g.String()] {
			continue
		}
		// foreign function: tainted if any argument (or receiver) is
		for _, a := range com.Args {
			if t.tainted(a) {
				res = true
			}
		}
		if com.IsInvoke() && t.tainted(com.Value) {
			res = true
		}
	}
	if len(callees) == 0 {
		for _, a := range com.Args {
			if t.tainted(a) {
				res = true
			}
		}
		if com.IsInvoke() && t.tainted(com.Value) {
			res = true
		}
	}
	return res
}

func (t *taintState) stepCall(fn *ssa.Function, c ssa.CallInstruction) {
	com := c.Common()
	args := com.Args
	for _, g := range t.p.Callees(c) {
		if !t.p.InModule(g) || g.Blocks == nil {
			continue
		}
		params := g.Params
		as := args
		if com.IsInvoke() {
			as = append([]ssa.Value{com.Value}, args...)
		}
		for i, a := range as {
			if i >= len(params) {
				continue
			}
			if _, isStruct := isStructVal(a); isStruct {
				for f := range t.structTaint(a, 0) {
					m := t.paramF[params[i]]
					if m == nil {
						m = map[string]bool{}
						t.paramF[params[i]] = m
					}
					if !m[f] {
						m[f] = true
						t.changed = true
					}
				}
				continue
			}
			if t.crossTainted(a) && !t.param[params[i]] {
				t.param[params[i]] = true
				t.changed = true
			}
		}
		// closure called through a MakeClosure value: bindings handled at creation
	}
	// foreign mutators writing through an argument: append/copy handled as value flow
	if b, ok := com.Value.(*ssa.Builtin); ok && b.Name() == "copy" && len(args) == 2 && t.tainted(args[1]) {
		t.setVal(args[0], "copy of generated material")
	}
}

type sinkSite struct {
	fn    *ssa.Function
	in    ssa.Instruction
	kind  string
	args  []ssa.Value
	descr string
}

// sinkSites enumerates the sink sites of the library.
func sinkSites(p *core.Program) []sinkSite {
	var out []sinkSite
	for _, fn := range p.LibFuncs() {
		core.Instrs(fn, func(in ssa.Instruction) {
			switch x := in.(type) {
			case *ssa.Panic:
				out = append(out, sinkSite{fn, x, "panic", []ssa.Value{x.X}, "panic operand"})
			case *ssa.Store:
				ref, ok := core.AddrPath(x.Addr)
				if !ok {
					return
				}
				root := ref.Root
				if ld, ok := root.(*ssa.UnOp); ok && ld.Op == token.MUL {
					root = ld.X
				}
				if g, ok := root.(*ssa.Global); ok && !(fn.Name() == "init" && fn.Synthetic != "") {
					out = append(out, sinkSite{fn, x, "global", []ssa.Value{x.Val}, "store to package variable " + g.Name()})
				}
			case ssa.CallInstruction:
				com := x.Common()
				name := core.CallName(x)
				if f := core.StaticCallee(x); f != nil && f.Name() == "init" && f.Synthetic != "" {
					return
				}
				kind := ""
				switch {
				case strings.HasPrefix(name, "fmt.Print"), strings.HasPrefix(name, "fmt.Fprint"):
					kind = "output"
				case strings.HasPrefix(name, "log."), strings.HasPrefix(name, "(*log.Logger)."):
					kind = "log"
				case name == "fmt.Errorf", name == "errors.New", name == "fmt.Sprintf" && false:
					kind = "error"
				case strings.HasPrefix(name, "(*os.File).Write"), name == "io.WriteString", strings.HasPrefix(name, "syscall.Write"),
					strings.HasPrefix(name, "(*bufio.Writer).Write"), strings.HasPrefix(name, "os.WriteFile"), strings.HasPrefix(name, "io/ioutil.WriteFile"):
					kind = "write"
				case name == "builtin:print", name == "builtin:println":
					kind = "output"
				case com.IsInvoke() && (com.Method.Name() == "Write" || com.Method.Name() == "WriteString"):
					kind = "write"
				}
				if kind == "" {
					return
				}
				out = append(out, sinkSite{fn, x, kind, com.Args, kind + " call " + name})
			}
		})
	}
	return out
}

func runC18(p *core.Program, r *core.Report) {
	t := computeTaint(p)
	r.Floor("R18.2", "taint sources (draw call sites and CSPRNG buffers)", t.nSources, 5)
	var cells []string
	for c := range t.typeC {
		cells = append(cells, c)
	}
	sort.Strings(cells)
	r.Note("tainted heap cells: %s", strings.Join(cells, ", "))
	nT := 0
	for range t.val {
		nT++
	}
	r.Count("tainted SSA values", nT)
	sinks := sinkSites(p)
	r.Floor("R18.2", "sink sites in package spg", len(sinks), 15)
	for _, s := range sinks {
		name := core.FuncName(s.fn)
		var bad []string
		for i, a := range s.args {
			if t.tainted(a) {
				bad = append(bad, fmt.Sprintf("argument %d (%s): %s", i, core.Describe(a), t.whyOf(a)))
			}
		}
		if len(bad) > 0 {
			r.Fail("R18.1", name, s.descr+" receives generated secret material", p.InstrPos(s.in), strings.Join(bad, "; "))
		} else {
			r.Pass("R18.1", name, s.descr+": no argument derives from a draw", p.InstrPos(s.in), fmt.Sprintf("%d argument(s) inspected", len(s.args)))
		}
		// R18.3 what the library itself writes out (not what it returns in an error) is made of constant text,
		// counts and probabilities only: a word of the list, a set of characters or a name is none of these
		if s.kind == "output" || s.kind == "log" || s.kind == "write" {
			var notNum []string
			for i, a := range s.args {
				if i == 0 && (strings.Contains(s.descr, "Fprint") || s.kind == "write") && !isStringOrBytes(a.Type()) {
					continue // the writer operand
				}
				if why := diagUnclean(p, a, 0, map[ssa.Value]bool{}); why != "" {
					notNum = append(notNum, fmt.Sprintf("argument %d: %s", i, why))
				}
			}
			r.Check(len(notNum) == 0, "R18.3", name, s.descr+" writes constant text, counts and probabilities only", p.InstrPos(s.in), strings.Join(notNum, "; "))
		}
	}
}

func isStringOrBytes(t types.Type) bool {
	switch u := t.Underlying().(type) {
	case *types.Basic:
		return u.Info()&types.IsString != 0
	case *types.Slice:
		b, ok := u.Elem().Underlying().(*types.Basic)
		return ok && b.Kind() == types.Byte
	}
	return false
}

// diagUnclean returns "" when v is made of constants and numeric values only, else the reason it is not.
func diagUnclean(p *core.Program, v ssa.Value, depth int, seen map[ssa.Value]bool) string {
	if seen[v] {
		return ""
	}
	seen[v] = true
	if depth > 12 {
		return "value too deeply derived: " + core.Describe(v)
	}
	if _, ok := v.(*ssa.Const); ok {
		return ""
	}
	if b, ok := v.Type().Underlying().(*types.Basic); ok && b.Info()&(types.IsNumeric|types.IsBoolean) != 0 {
		return ""
	}
	all := func(vs ...ssa.Value) string {
		for _, x := range vs {
			if w := diagUnclean(p, x, depth+1, seen); w != "" {
				return w
			}
		}
		return ""
	}
	switch x := v.(type) {
	case *ssa.MakeInterface:
		return all(x.X)
	case *ssa.ChangeType:
		return all(x.X)
	case *ssa.ChangeInterface:
		return all(x.X)
	case *ssa.BinOp:
		return all(x.X, x.Y)
	case *ssa.Phi:
		return all(x.Edges...)
	case *ssa.Extract:
		if c, ok := x.Tuple.(*ssa.Call); ok {
			return diagCallUnclean(p, c, x.Index, depth, seen)
		}
	case *ssa.Call:
		return diagCallUnclean(p, x, 0, depth, seen)
	case *ssa.Slice:
		// the packed variadic operands: every element stored into the backing array
		if a, ok := x.X.(*ssa.Alloc); ok {
			var vals []ssa.Value
			okAll := true
			for _, ref := range *a.Referrers() {
				switch u := ref.(type) {
				case *ssa.IndexAddr:
					for _, r2 := range *u.Referrers() {
						if st, ok := r2.(*ssa.Store); ok && st.Addr == u {
							vals = append(vals, st.Val)
						} else {
							okAll = false
						}
					}
				case *ssa.Slice:
				default:
					okAll = false
				}
			}
			if okAll {
				return all(vals...)
			}
		}
	}
	return "not a constant or a number: " + core.Describe(v) + " of type " + v.Type().String()
}

func diagCallUnclean(p *core.Program, c *ssa.Call, idx, depth int, seen map[ssa.Value]bool) string {
	all := func(vs []ssa.Value) string {
		for _, x := range vs {
			if w := diagUnclean(p, x, depth+1, seen); w != "" {
				return w
			}
		}
		return ""
	}
	name := core.CallName(c)
	switch {
	case strings.HasPrefix(name, "fmt.Sprint"), name == "fmt.Errorf", name == "errors.New", strings.HasPrefix(name, "strconv.Format"),
		name == "strconv.Itoa", name == "strconv.Quote", name == "strings.Repeat", name == "strings.TrimSpace":
		return all(c.Call.Args)
	case c.Call.IsInvoke() && c.Call.Method.Name() == "Error" && len(c.Call.Args) == 0:
		return diagUnclean(p, c.Call.Value, depth+1, seen)
	case name == "builtin:len", name == "builtin:cap":
		return ""
	}
	if f := core.StaticCallee(c); f != nil && p.InLib(f) && f.Blocks != nil {
		for _, ret := range core.Returns(f) {
			if idx < len(ret.Results) {
				if w := diagUnclean(p, ret.Results[idx], depth+1, seen); w != "" {
					return w
				}
			}
		}
		return ""
	}
	return "result of " + name + " (" + c.Type().String() + ")"
}
