package rules

import (
	"go/token"
	"sort"
	"strings"

	"golang.org/x/tools/go/ssa"

	"spgverif/internal/core"
)

// checkDocumentedGlobalsFrozen is R16.6: the package-level variables of the
// library that carry a documented value (separator presets, class table,
// retry budget, shipped lists — in fact every package-level variable the
// library declares) keep the value their initialiser gave them. What the
// initialiser-reading rules R16.1-R16.5 establish is what a user gets only if
// no function of the module — the library's own init functions and the CLI
// included — stores to the variable, updates the map or slice it holds, or
// lets its address escape to code that could.
//
// Variables the library itself assigns by design are listed in writable with
// the reason; on the pinned tree there are none.
func checkDocumentedGlobalsFrozen(p *core.Program, r *core.Report, rule string) {
	checkPackageVarsFrozen(p, r, rule, p.Lib, "library", 10)
}

// checkPackageVarsFrozen is the rule for one package of the module (the library
// for R16.6, cmd/opgen for R17.6: its word tables, defaults and flag variables).
func checkPackageVarsFrozen(p *core.Program, r *core.Report, rule string, pkg *ssa.Package, what string, floor int) {
	initFn := core.PackageInit(pkg)
	// flag idioms of the CLI: a flag variable or flag set assigned from a call into package flag
	// (`x = fs.String(…)`, `fs = flag.NewFlagSet(…)` in an init function), and a variable bound with
	// `fs.IntVar(&x, …)`. The value such a variable holds comes from the command line by design; its
	// default is the argument of that call, which R17.2 reads.
	fromFlagPkg := func(v ssa.Value) bool {
		if e, ok := v.(*ssa.Extract); ok {
			v = e.Tuple
		}
		c, ok := v.(*ssa.Call)
		if !ok {
			return false
		}
		f := core.StaticCallee(c)
		return f != nil && f.Pkg != nil && f.Pkg.Pkg.Path() == "flag"
	}
	flagIdiom := func(in ssa.Instruction) bool {
		if pkg == p.Lib {
			return false
		}
		switch x := in.(type) {
		case *ssa.Store:
			return fromFlagPkg(x.Val)
		case *ssa.Call:
			f := core.StaticCallee(x)
			if f == nil || f.Pkg == nil || f.Pkg.Pkg.Path() != "flag" {
				return false
			}
			// binding a whole variable of basic type is the idiom; binding a field of the defaults
			// record or an element of a table is not
			for _, a := range x.Call.Args {
				switch a.(type) {
				case *ssa.FieldAddr, *ssa.IndexAddr:
					return false
				}
			}
			return true
		}
		return false
	}
	var globals []*ssa.Global
	// scope. Library: the exported variables (the documented surface: presets, budget, shipped lists)
	// and the class table, found by role. An unexported variable added later (a cache, a pool) carries
	// no documented value; whether writing it is safe is C14's and C15's question, not this rule's.
	// CLI: every variable (tables, defaults, preset map, flag variables, flag sets).
	tbl := ""
	if pkg == p.Lib {
		tbl = classTableName(p)
	}
	for _, m := range pkg.Members {
		if g, ok := m.(*ssa.Global); ok && g.Name() != "init$guard" {
			if pkg == p.Lib && !(g.Object() != nil && g.Object().Exported()) && g.Name() != tbl {
				continue
			}
			globals = append(globals, g)
		}
	}
	sort.Slice(globals, func(i, j int) bool { return globals[i].Name() < globals[j].Name() })
	isG := map[ssa.Value]*ssa.Global{}
	for _, g := range globals {
		isG[g] = g
	}
	bad := map[*ssa.Global]int{}
	// rootGlobal: the library variable an address or a loaded header comes from
	var rootGlobal func(v ssa.Value, depth int) *ssa.Global
	rootGlobal = func(v ssa.Value, depth int) *ssa.Global {
		if depth > 6 {
			return nil
		}
		if g := isG[v]; g != nil {
			return g
		}
		switch x := v.(type) {
		case *ssa.FieldAddr:
			return rootGlobal(x.X, depth+1)
		case *ssa.IndexAddr:
			return rootGlobal(x.X, depth+1)
		case *ssa.UnOp:
			if x.Op == token.MUL {
				return rootGlobal(x.X, depth+1)
			}
		case *ssa.Slice:
			return rootGlobal(x.X, depth+1)
		case *ssa.Field:
			return rootGlobal(x.X, depth+1)
		}
		return nil
	}
	// addrOfGlobal: the variable whose address (or the address of a field or array element of it,
	// without an intervening load) a pointer value is
	var addrOfGlobal func(v ssa.Value, depth int) *ssa.Global
	addrOfGlobal = func(v ssa.Value, depth int) *ssa.Global {
		if depth > 6 {
			return nil
		}
		if g := isG[v]; g != nil {
			return g
		}
		switch x := v.(type) {
		case *ssa.FieldAddr:
			return addrOfGlobal(x.X, depth+1)
		case *ssa.IndexAddr:
			return addrOfGlobal(x.X, depth+1)
		}
		return nil
	}
	for _, fn := range p.ModuleFuncs() {
		core.Instrs(fn, func(in ssa.Instruction) {
			if flagIdiom(in) {
				return
			}
			switch x := in.(type) {
			case *ssa.Store:
				if g := rootGlobal(x.Addr, 0); g != nil {
					if fn == initFn {
						return // the variable's own initialiser (R16.1-R16.5 read it and count the stores)
					}
					bad[g]++
					r.Fail(rule, core.FuncName(fn), "store to "+what+" variable "+g.Name()+" outside its initialiser", p.InstrPos(x),
						"a documented package-level value (preset, class table, budget, shipped list) is changed after initialisation")
					return
				}
				if g := isG[x.Val]; g != nil {
					bad[g]++
					r.Fail(rule, core.FuncName(fn), "address of "+what+" variable "+g.Name()+" is stored", p.InstrPos(x), "whoever loads the pointer can change the documented value")
				}
				return
			case *ssa.MapUpdate:
				if g := rootGlobal(x.Map, 0); g != nil && fn != initFn {
					bad[g]++
					r.Fail(rule, core.FuncName(fn), "update of the map held by "+what+" variable "+g.Name()+" outside its initialiser", p.InstrPos(x),
						"a documented package-level table is changed after initialisation")
				}
				return
			case *ssa.UnOp, *ssa.FieldAddr, *ssa.IndexAddr:
				return // loads and address arithmetic: judged at the store
			case *ssa.DebugRef:
				return
			}
			// any other instruction that takes the variable's address as an operand lets it escape
			for _, op := range in.Operands(nil) {
				if op == nil || *op == nil {
					continue
				}
				if g := addrOfGlobal(*op, 0); g != nil {
					bad[g]++
					r.Fail(rule, core.FuncName(fn), "address of "+what+" variable "+g.Name()+" escapes", p.InstrPos(in), "passed on as a pointer: the callee can change the documented value")
				}
			}
			// delete(m, k) on a library table, clear(...)
			if c, ok := in.(ssa.CallInstruction); ok {
				if b, ok := c.Common().Value.(*ssa.Builtin); ok && (b.Name() == "delete" || b.Name() == "clear" || b.Name() == "copy") && len(c.Common().Args) > 0 {
					if g := rootGlobal(c.Common().Args[0], 0); g != nil && fn != initFn {
						bad[g]++
						r.Fail(rule, core.FuncName(fn), b.Name()+" on the value held by "+what+" variable "+g.Name(), p.InstrPos(in), "a documented package-level table or list is changed after initialisation")
					}
				}
			}
		})
	}
	n := 0
	for _, g := range globals {
		if bad[g] == 0 {
			n++
			r.Pass(rule, "-", what+" variable "+g.Name()+" is never stored to, updated or exposed by address outside its initialiser", "", "")
		}
	}
	r.Floor(rule, "package-level variables of the "+what, len(globals), floor)
}

// mentionsVar: an R16.6 obligation about one of the named variables (the construct text names the
// variable after the word "variable").
func mentionsVar(construct string, names ...string) bool {
	for _, n := range names {
		if n == "" {
			continue
		}
		i := strings.Index(construct, "variable "+n)
		if i < 0 {
			continue
		}
		rest := construct[i+len("variable "+n):]
		if rest == "" || rest[0] == ' ' {
			return true
		}
	}
	return false
}

// classTableName resolves the class table (flag -> class string) by role.
func classTableName(p *core.Program) string {
	if iv := classTable(p, core.GlobalInits(p.Lib)); iv != nil && iv.Global != nil {
		return iv.Global.Name()
	}
	return ""
}
