package rules

import (
	"go/constant"
	"go/ast"
	"fmt"
	"go/token"
	"go/types"
	"sort"
	"strings"

	"golang.org/x/tools/go/ssa"

	"spgverif/internal/core"
)

func init() {
	register(&Property{
		Meta: core.PropertyMeta{
			ID: "C11",
			Explanation: "Decides writer/reader agreement between MakeIndices (with Kind) and Tokenize instead of evaluating the round trip: " +
				"(1) the unit of every length the encoder writes and of the length test in Kind() equals the unit of the container the decoder " +
				"slices (bytes for len(string) and string slicing; characters for utf8.RuneCount*, len(strings.Split(s,\"\")), []rune); (2) the " +
				"kind tables agree: declared constants = decoder cases, kinds Kind() returns are all decoded, each encoded index starts with the " +
				"kind byte of its branch; (3) per-kind layout: index sizes 1, 1+n, 1+2n; in the full layout the (length,type) offsets written " +
				"match those read; the alternating parity->type map is the same in isAlternatingTokens and the decoder; (4) every narrowing " +
				"conversion of a length to a byte is dominated by length <= 255 (linear prover) and the only rejection is length > 255. With " +
				"strings.Split(s,\"\")/strings.Join inverse on character boundaries (trusted) these give the round trip for tokens of 1..255 characters.",
			Rules: []string{
				"R11.1 unit agreement: units of encoder length bytes == unit of Kind()'s length-1 test == unit of the decoder's sliced container",
				"R11.2 kind tables: IndexKind constants == decoder cases; kinds returned by Kind() ⊆ decoder cases; first byte of every encoded index is byte(kind) of its branch (or the constant of the default branch)",
				"R11.3 layout: sizes 1 / 1+len(ts) / 1+2*len(ts); full layout offsets (length at 2i, type at 2i+1, after the kind byte) equal the decoder's read offsets (i, i+1 from i=1 step 2); alternating parity map equal on both sides",
				"R11.5 decoded values: every token value the decoder stores is cut from the password string itself (strings.Join of a slice of strings.Split(pw, \"\"), an element of that split, or pw[a:b]); no conversion through []rune/[]byte/rune, which re-encodes bytes that are not valid UTF-8",
				"R11.4 lossy conversion guarded: every int->uint8 conversion of a length is dominated by length <= 255; every error return of the encoder is guarded by length > 255 exactly and returns a nil index",
			},
			Trusted:    append([]string{"strings.Split(s, \"\") splits after each UTF-8 sequence and strings.Join(parts, \"\") is its inverse; utf8.RuneCountInString counts the same units"}, commonTrusted...),
			NotDecided: []string{"equality of reconstructed values as such (follows from unit and layout agreement plus the trusted Split/Join inverse)", "zero-length tokens (outside the statement)"},
		},
		Run: runC11,
	})
}

// unitOf classifies an integer value as a count of bytes or of characters.
func unitOf(p *core.Program, v ssa.Value, depth int) string {
	if depth > 6 {
		return ""
	}
	switch x := v.(type) {
	case *ssa.Convert:
		return unitOf(p, x.X, depth+1)
	case *ssa.ChangeType:
		return unitOf(p, x.X, depth+1)
	case *ssa.Phi:
		u := ""
		for _, e := range x.Edges {
			if e == ssa.Value(x) {
				continue
			}
			eu := unitOf(p, e, depth+1)
			if eu == "" {
				continue
			}
			if u != "" && u != eu {
				return "mixed"
			}
			u = eu
		}
		return u
	case *ssa.Call:
		if core.IsBuiltin(x, "len") {
			return containerUnit(x.Call.Args[0])
		}
		switch core.CallName(x) {
		case "unicode/utf8.RuneCountInString", "unicode/utf8.RuneCount":
			return "chars"
		}
		if f := core.StaticCallee(x); f != nil && p.InLib(f) && f.Blocks != nil {
			u := ""
			for _, ret := range core.Returns(f) {
				if len(ret.Results) != 1 {
					return ""
				}
				eu := unitOf(p, ret.Results[0], depth+1)
				if eu == "" {
					continue
				}
				if u != "" && u != eu {
					return "mixed"
				}
				u = eu
			}
			return u
		}
	}
	return ""
}

// containerUnit: the unit of positions/lengths of a container value.
func containerUnit(c ssa.Value) string { return containerUnitRec(c, map[ssa.Value]bool{}) }

func containerUnitRec(c ssa.Value, seen map[ssa.Value]bool) string {
	c = core.StripType(c)
	if seen[c] {
		return "" // a loop-carried merge: the other edges decide
	}
	seen[c] = true
	if b, ok := c.Type().Underlying().(*types.Basic); ok && b.Info()&types.IsString != 0 {
		return "bytes"
	}
	switch x := c.(type) {
	case *ssa.Call:
		if core.CallName(x) == "strings.Split" {
			if s, ok := core.ConstString(x.Call.Args[1]); ok && s == "" {
				return "chars"
			}
		}
	case *ssa.Convert:
		if sl, ok := x.Type().Underlying().(*types.Slice); ok {
			if b, ok := sl.Elem().Underlying().(*types.Basic); ok {
				if _, fromStr := x.X.Type().Underlying().(*types.Basic); fromStr {
					if b.Kind() == types.Int32 {
						return "chars"
					}
					if b.Kind() == types.Uint8 {
						return "bytes"
					}
				}
			}
		}
	case *ssa.Slice:
		return containerUnitRec(x.X, seen)
	case *ssa.Phi:
		u := ""
		for _, e := range x.Edges {
			if seen[core.StripType(e)] {
				continue
			}
			eu := containerUnitRec(e, seen)
			if u != "" && eu != u {
				return "mixed"
			}
			u = eu
		}
		return u
	}
	return ""
}

func runC11(p *core.Program, r *core.Report) {
	enc := p.Method("Tokens", "MakeIndices")
	kindFn := p.Method("Tokens", "Kind")
	dec := p.Func("Tokenize")
	if enc == nil || kindFn == nil || dec == nil {
		r.Unrecognised("R11.1", "-", "anchors", "", "Tokens.MakeIndices / Tokens.Kind / Tokenize not all found")
		return
	}
	encName, decName := core.FuncName(enc), core.FuncName(dec)

	// ---------- R11.1 units
	units := map[string][]string{} // unit -> sites
	nEnc := 0
	var lengthConvs []*ssa.Convert
	core.Instrs(enc, func(in ssa.Instruction) {
		cv, ok := in.(*ssa.Convert)
		if !ok {
			return
		}
		if b, ok := cv.Type().Underlying().(*types.Basic); !ok || b.Kind() != types.Uint8 {
			return
		}
		u := unitOf(p, cv.X, 0)
		if u == "" {
			return
		}
		nEnc++
		lengthConvs = append(lengthConvs, cv)
		units[u] = append(units[u], "encoder length byte at "+p.InstrPos(cv))
	})
	r.Floor("R11.1", "encoder length-byte sites", nEnc, 2)
	nKind := 0
	core.Instrs(kindFn, func(in ssa.Instruction) {
		bo, ok := in.(*ssa.BinOp)
		if !ok || bo.Op != token.EQL && bo.Op != token.NEQ && bo.Op != token.LEQ && bo.Op != token.GTR {
			return
		}
		for _, side := range []ssa.Value{bo.X, bo.Y} {
			if u := unitOf(p, side, 0); u != "" {
				nKind++
				units[u] = append(units[u], "Kind() length test at "+p.InstrPos(bo))
			}
		}
	})
	r.Floor("R11.1", "Kind() length tests", nKind, 1)
	nDec := 0
	decUnit := ""
	core.Instrs(dec, func(in ssa.Instruction) {
		sl, ok := in.(*ssa.Slice)
		if !ok || sl.High == nil || sl.Low == nil {
			return
		}
		if _, isC := sl.High.(*ssa.Const); isC {
			return
		}
		u := containerUnit(sl.X)
		if u == "" {
			return
		}
		nDec++
		units[u] = append(units[u], "decoder slices "+sl.X.Type().String()+" at "+p.InstrPos(sl))
		decUnit = u
	})
	r.Floor("R11.1", "decoder slice sites", nDec, 3)
	var us []string
	for u := range units {
		us = append(us, u)
	}
	sort.Strings(us)
	detail := ""
	for _, u := range us {
		detail += fmt.Sprintf("[%s: %s] ", u, strings.Join(units[u], "; "))
	}
	if len(us) == 1 && us[0] != "mixed" {
		r.Pass("R11.1", "-", "encoder, Kind() and decoder count token lengths in the same unit ("+us[0]+")", p.Pos(enc.Pos()), detail)
	} else {
		// report each site that disagrees with the decoder
		for _, u := range us {
			if u == decUnit {
				continue
			}
			for _, s := range units[u] {
				fnName := encName
				if strings.HasPrefix(s, "Kind") {
					fnName = core.FuncName(kindFn)
				}
				r.Fail("R11.1", fnName, "length counted in "+u+" but the decoder consumes "+decUnit, strings.TrimPrefix(s[strings.LastIndex(s, " at ")+4:], ""),
					s+": a token with multi-byte characters is encoded with a length the decoder interprets in different units, so the round trip fails; all sites: "+detail)
			}
		}
	}

	// ---------- R11.2 kind tables
	kinds := core.ConstsOfType(p.LibPkg.Types, "IndexKind")
	declared := map[int64]string{}
	for n, v := range kinds {
		if i, ok := constInt64(v); ok {
			declared[i] = n
		}
	}
	decCases := map[int64]bool{}
	core.Instrs(dec, func(in ssa.Instruction) {
		bo, ok := in.(*ssa.BinOp)
		if !ok || bo.Op != token.EQL {
			return
		}
		if named := core.NamedOf(bo.X.Type()); named != core.ModulePath+".IndexKind" {
			return
		}
		if k, isC := core.ConstInt(bo.Y); isC {
			decCases[k] = true
		}
	})
	for k, n := range declared {
		r.Check(decCases[k], "R11.2", decName, "decoder has a case for "+n, p.Pos(dec.Pos()), "")
	}
	for k := range decCases {
		_, ok := declared[k]
		r.Check(ok, "R11.2", decName, fmt.Sprintf("decoder case %d is a declared IndexKind", k), p.Pos(dec.Pos()), "")
	}
	for _, ret := range core.Returns(kindFn) {
		k, isC := core.ConstInt(ret.Results[0])
		r.Check(isC && decCases[k], "R11.2", core.FuncName(kindFn), "kind returned by Kind() is decoded", p.InstrPos(ret), core.Describe(ret.Results[0]))
	}
	// first byte of every encoded index
	var kindCall ssa.Value
	for _, c := range core.Calls(enc) {
		if core.StaticCallee(c) == kindFn {
			kindCall = c.(*ssa.Call)
		}
	}
	nRet := 0
	for _, ret := range core.Returns(enc) {
		if core.IsNilConst(ret.Results[0]) {
			if len(ret.Results) == 2 && core.IsNilConst(ret.Results[1]) {
				// "no index, no error" is the answer for the empty token sequence and for nothing else
				okEmpty := false
				for _, g := range core.Guards(ret.Block()) {
					rel, ok := core.AsRel(g)
					if !ok {
						continue
					}
					if x, isLen := core.LenOf(rel.X); isLen && x == ssa.Value(enc.Params[0]) {
						if k, isC := core.ConstInt(rel.Y); isC && (rel.Op == token.EQL && k == 0 || rel.Op == token.LSS && k == 1 || rel.Op == token.LEQ && k == 0) {
							okEmpty = true
						}
					}
				}
				r.Check(okEmpty, "R11.3", encName, "only the empty token sequence gets no index (and no error)", p.InstrPos(ret), "a non-empty sequence without an index cannot be reconstructed")
			}
			continue
		}
		nRet++
		first, total, ok := indexShape(ret.Results[0], core.Loops(enc))
		pos := p.InstrPos(ret)
		if !ok {
			r.Unrecognised("R11.3", encName, "shape of the encoded index", pos, "result is neither a one-byte literal nor literal + appended byte slice: "+core.Describe(ret.Results[0]))
			continue
		}
		// first byte
		okFirst := false
		why := core.Describe(first)
		branchKinds := guardKinds(ret.Block(), kindCall)
		if core.StripType(first) == kindCall && kindCall != nil {
			okFirst = true
		} else if k, isC := core.ConstInt(first); isC {
			// constant: must be a declared kind not excluded by the branch guards
			_, decl := declared[k]
			okFirst = decl && !branchKinds.excluded[k] && (len(branchKinds.equal) == 0 || branchKinds.equal[k])
			why = fmt.Sprintf("constant %d; branch guards: equal %v, excluded %v", k, keys(branchKinds.equal), keys(branchKinds.excluded))
		}
		r.Check(okFirst, "R11.2", encName, "encoded index starts with the kind byte of its branch", pos, why)
		// size
		pv := core.NewProver(enc)
		ts := enc.Params[0]
		n := pv.LenForm(ts)
		var want core.Lin
		sizeName := ""
		switch {
		case total == nil:
			want, sizeName = constLin(1), "1"
			r.Check(true, "R11.3", encName, "character index is one byte", pos, "")
			continue
		default:
			f := core.Lin{}
			if dt, isDirect := total.(*directTotal); isDirect {
				f = pv.LenForm(dt.ranged).Scale(dt.perTrip)
			} else {
				f = pv.Form(total)
			}
			// which branch: equal kinds
			isFull := len(branchKinds.equal) == 0
			if isFull {
				want, sizeName = n.Scale(2), "2*len(tokens)"
			} else {
				want, sizeName = n, "len(tokens)"
			}
			d := f.Add(want, -1)
			r.Check(len(d.T) == 0 && d.C == 0, "R11.3", encName, "index payload has "+sizeName+" bytes after the kind byte", pos, "payload length form "+f.String()+" vs "+want.String())
		}
	}
	r.Floor("R11.2", "encoding returns", nRet, 3)

	// ---------- R11.5 token values are pieces of the password string itself
	checkDecodedValuesArePieces(p, r, dec)
	r.Borrow("R11.5", func() { checkTokenAccessors(p, r) })
	// … consecutive pieces whose lengths are the index bytes (= C12 R12.2b re-run)
	if len(dec.Params) == 3 {
		r.Borrow("R11.5", func() { checkConsecutiveSlices(p, r, dec, dec.Params[1]) })
	}
	// ---------- R11.2 the classification looks at every token
	checkKindHelpers(p, r, kindFn)
	// ---------- R11.4 the decoder refuses only what the format rules out
	checkDecoderRefusals(p, r, dec)

	// ---------- R11.3 full layout offsets
	checkFullLayout(p, r, enc, dec)
	checkAlternatingParity(p, r, dec)

	// ---------- R11.4
	pv := core.NewProver(enc)
	pv.Canon = core.StableLoads(enc, core.GetEff(p))
	for _, cv := range lengthConvs {
		ok, why := pv.ProveLE(cv.Block(), pv.Form(cv.X).Plus(-255))
		r.Check(ok, "R11.4", encName, "length converted to a byte only when <= 255", p.InstrPos(cv), why)
	}
	for _, ret := range core.Returns(enc) {
		if len(ret.Results) != 2 || core.IsNilConst(ret.Results[1]) {
			continue
		}
		pos := p.InstrPos(ret)
		r.Check(core.IsNilConst(ret.Results[0]), "R11.4", encName, "an unencodable token yields an error and no index", pos, "")
		exactAt := func(b *ssa.BasicBlock) bool {
			for _, g := range core.Guards(b) {
				rel, ok := core.AsRel(g)
				if !ok || unitOf(p, rel.X, 0) == "" {
					continue
				}
				if k, isC := core.ConstInt(rel.Y); isC && ((rel.Op == token.GTR && k == 255) || (rel.Op == token.GEQ && k == 256)) {
					return true
				}
			}
			return false
		}
		exact := exactAt(ret.Block())
		if !exact {
			// the error may have been produced earlier (a length helper expanded in place): every
			// non-nil definition reaching the returned error must have been made under length > 255
			if phi, isPhi := ret.Results[1].(*ssa.Phi); isPhi {
				exact = true
				n := 0
				for i, e := range phi.Edges {
					if core.IsNilConst(e) {
						continue
					}
					n++
					pred := phi.Block().Preds[i]
					def := pred
					if c, isC := e.(*ssa.Call); isC {
						def = c.Block()
					}
					if !exactAt(def) && !exactAt(pred) {
						exact = false
					}
				}
				if n == 0 {
					exact = false
				}
			}
		}
		r.Check(exact, "R11.4", encName, "the only rejection is length > 255", pos, "tokens of up to 255 characters must be encodable")
	}
}

type kindGuards struct{ equal, excluded map[int64]bool }

func guardKinds(b *ssa.BasicBlock, kind ssa.Value) kindGuards {
	kg := kindGuards{map[int64]bool{}, map[int64]bool{}}
	if kind == nil {
		return kg
	}
	for _, g := range core.Guards(b) {
		rel, ok := core.AsRel(g)
		if !ok || rel.X != kind {
			continue
		}
		if k, isC := core.ConstInt(rel.Y); isC {
			if rel.Op == token.EQL {
				kg.equal[k] = true
			} else if rel.Op == token.NEQ {
				kg.excluded[k] = true
			}
		}
	}
	// a block with several predecessors (fallthrough cases): union of the equalities on the incoming edges
	if len(kg.equal) == 0 && len(b.Preds) > 1 {
		for i, pred := range b.Preds {
			_ = i
			for si, s := range pred.Succs {
				if s != b {
					continue
				}
				if g, ok := core.EdgeCond(pred, si); ok {
					if rel, ok := core.AsRel(g); ok && rel.X == kind && rel.Op == token.EQL {
						if k, isC := core.ConstInt(rel.Y); isC {
							kg.equal[k] = true
						}
					}
				}
			}
		}
	}
	// walk up through single-pred chains for multi-pred ancestors
	if len(kg.equal) == 0 {
		for d := b.Idom(); d != nil && len(kg.equal) == 0; d = d.Idom() {
			if len(d.Preds) > 1 {
				sub := guardKinds(d, kind)
				for k := range sub.equal {
					kg.equal[k] = true
				}
				break
			}
		}
	}
	return kg
}

func keys(m map[int64]bool) []int64 {
	var out []int64
	for k := range m {
		out = append(out, k)
	}
	sort.Slice(out, func(i, j int) bool { return out[i] < out[j] })
	return out
}

// indexShape: the returned index is either slice(lit[1]{first}) (total=nil) or
// phi(slice(lit[1]{first}), append(acc, one element)) accumulated over a full
// range of a make([]byte, total) payload.
// directTotal stands for "perTrip bytes for every element of ranged" where the payload is appended
// to the index directly (it is only ever used as the total of indexShape).
type directTotal struct {
	ssa.Value
	ranged  ssa.Value
	perTrip int64
}

func indexShape(v ssa.Value, loops []*core.Loop) (first ssa.Value, total ssa.Value, ok bool) {
	lit := func(v ssa.Value) (ssa.Value, bool) {
		sl, ok := core.StripType(v).(*ssa.Slice)
		if !ok {
			return nil, false
		}
		al, ok := sl.X.(*ssa.Alloc)
		if !ok {
			return nil, false
		}
		at, ok := al.Type().Underlying().(*types.Pointer).Elem().Underlying().(*types.Array)
		if !ok || at.Len() != 1 {
			return nil, false
		}
		for _, ref := range core.Referrers(al) {
			if ia, ok := ref.(*ssa.IndexAddr); ok {
				for _, rr := range core.Referrers(ia) {
					if st, ok := rr.(*ssa.Store); ok && st.Addr == ia {
						return st.Val, true
					}
				}
			}
		}
		return nil, false
	}
	if f, ok := lit(v); ok {
		return f, nil, true
	}
	if mk, isMk := core.StripType(v).(*ssa.MakeSlice); isMk {
		// the index made at its final size and filled in place: [0] = kind byte, [1 + k*i + c] per token i
		return inPlaceIndexShape(mk, loops)
	}
	phi, ok := core.StripType(v).(*ssa.Phi)
	if !ok {
		return nil, nil, false
	}
	var loop *core.Loop
	for _, l := range loops {
		if l.Header == phi.Block() {
			loop = l
		}
	}
	if loop == nil {
		return nil, nil, false
	}
	ri, okR := core.AsRange(loop)
	if !okR || ri.Kind != "slice" {
		return nil, nil, false
	}
	mk, okM := core.StripType(ri.X).(*ssa.MakeSlice)
	if !okM {
		// the direct form: k bytes appended to the index itself on every trip of a range over the tokens
		var end ssa.Value
		for i, e := range phi.Edges {
			if !loop.Blocks[phi.Block().Preds[i]] {
				f, ok := lit(e)
				if !ok {
					return nil, nil, false
				}
				first = f
				continue
			}
			if end != nil && end != e {
				return nil, nil, false
			}
			end = e
		}
		k := int64(0)
		for cur := end; cur != ssa.Value(phi); {
			c, ok := cur.(*ssa.Call)
			if !ok || !core.IsBuiltin(c, "append") || k > 4 {
				return nil, nil, false
			}
			if _, ok := lit(c.Call.Args[1]); !ok {
				return nil, nil, false
			}
			k++
			cur = c.Call.Args[0]
		}
		if first == nil || k == 0 {
			return nil, nil, false
		}
		return first, &directTotal{ranged: ri.X, perTrip: k}, true
	}
	for i, e := range phi.Edges {
		if !loop.Blocks[phi.Block().Preds[i]] {
			f, ok := lit(e)
			if !ok {
				return nil, nil, false
			}
			first = f
			continue
		}
		c, ok := e.(*ssa.Call)
		if !ok || !core.IsBuiltin(c, "append") || c.Call.Args[0] != ssa.Value(phi) {
			return nil, nil, false
		}
		// appended: exactly one element = payload[rangeindex]
		el, ok := lit(c.Call.Args[1])
		if !ok {
			return nil, nil, false
		}
		ld, ok := el.(*ssa.UnOp)
		if !ok {
			return nil, nil, false
		}
		ia, ok := ld.X.(*ssa.IndexAddr)
		if !ok || core.StripType(ia.X) != ssa.Value(mk) || ia.Index != ri.Index {
			return nil, nil, false
		}
	}
	return first, mk.Len, first != nil
}

// inPlaceIndexShape: mk = make(Indices, 1 + k*len(ts)); mk[0] = first; inside one range loop over ts the
// positions 1+k*i .. k+k*i are each stored exactly once per trip (unconditionally), nothing else is stored.
func inPlaceIndexShape(mk *ssa.MakeSlice, loops []*core.Loop) (first ssa.Value, total ssa.Value, ok bool) {
	pv := core.NewProver(mk.Parent())
	var loop *core.Loop
	var ri *core.RangeInfo
	offs := map[int64]bool{}
	for _, ref := range core.Referrers(mk) {
		ia, isIA := ref.(*ssa.IndexAddr)
		if !isIA {
			if c, isCall := ref.(*ssa.Call); isCall && (core.IsBuiltin(c, "append") || core.IsBuiltin(c, "copy")) {
				return nil, nil, false
			}
			continue
		}
		for _, r2 := range core.Referrers(ia) {
			st, isSt := r2.(*ssa.Store)
			if !isSt || st.Addr != ssa.Value(ia) {
				continue
			}
			if z, isC := core.ConstInt(ia.Index); isC {
				if z != 0 || first != nil {
					return nil, nil, false
				}
				first = st.Val
				continue
			}
			l := core.InnermostLoop(loops, st.Block())
			if l == nil {
				return nil, nil, false
			}
			x, okR := core.AsRange(l)
			if !okR || x.Kind != "slice" || (loop != nil && l != loop) {
				return nil, nil, false
			}
			loop, ri = l, x
			for _, la := range l.Latch {
				if !st.Block().Dominates(la) {
					return nil, nil, false
				}
			}
			// index = k*i + c: find k in {1,2}
			found := false
			for _, k := range []int64{1, 2} {
				f := pv.Form(ia.Index).Add(pv.Form(ri.Index), -k)
				if len(f.T) == 0 {
					if offs[f.C] {
						return nil, nil, false
					}
					offs[f.C*10+k] = true
					found = true
					break
				}
			}
			if !found {
				return nil, nil, false
			}
		}
	}
	if first == nil || loop == nil {
		return nil, nil, false
	}
	// all stores share k; offsets are exactly 1..k
	var k int64
	var cs []int64
	for key := range offs {
		kk := key % 10
		if k != 0 && kk != k {
			return nil, nil, false
		}
		k = kk
		cs = append(cs, key/10)
	}
	if int64(len(cs)) != k {
		return nil, nil, false
	}
	seenC := map[int64]bool{}
	for _, c := range cs {
		if c < 1 || c > k || seenC[c] {
			return nil, nil, false
		}
		seenC[c] = true
	}
	// size: 1 + k*len(ranged)
	want := pv.LenForm(ri.X).Scale(k).Plus(1)
	d := pv.Form(mk.Len).Add(want, -1)
	if len(d.T) != 0 || d.C != 0 {
		return nil, nil, false
	}
	return first, &directTotal{ranged: ri.X, perTrip: k}, true
}

// checkFullLayout: encoder stores length at payload[2i+a], type at payload[2i+b];
// decoder reads length at ti[i+c], type at ti[i+d] in a loop from s step 2:
// require 1+a == s+c and 1+b == s+d.
func checkFullLayout(p *core.Program, r *core.Report, enc, dec *ssa.Function) {
	encName, decName := core.FuncName(enc), core.FuncName(dec)
	pvE := core.NewProver(enc)
	type off struct {
		coef, c int64
		pos     string
	}
	var lenOffE, typOffE *off
	core.Instrs(enc, func(in ssa.Instruction) {
		st, ok := in.(*ssa.Store)
		if !ok {
			return
		}
		ia, ok := st.Addr.(*ssa.IndexAddr)
		if !ok {
			return
		}
		l := core.InnermostLoop(core.Loops(enc), st.Block())
		if l == nil {
			return
		}
		ri, ok := core.AsRange(l)
		if !ok || ri.Kind != "slice" {
			return
		}
		f := pvE.Form(ia.Index).Add(pvE.Form(ri.Index), -2) // index - 2*i must be a constant
		if len(f.T) != 0 {
			return
		}
		c := f.C
		// stores into the index itself (made at its final size) are absolute: relative to the payload they are one less
		for _, ret := range core.Returns(enc) {
			if len(ret.Results) > 0 && core.StripType(ret.Results[0]) == core.StripType(ia.X) {
				c = f.C - 1
			}
		}
		o := &off{2, c, p.InstrPos(st)}
		if unitOf(p, st.Val, 0) != "" {
			lenOffE = o
		} else if isTokenTypeValue(st.Val) {
			typOffE = o
		}
	})
	if lenOffE == nil && typOffE == nil {
		// the direct form: two appends per trip of a range over the tokens; the position of a byte
		// within the trip's pair is its place in the append chain
		for _, l := range core.Loops(enc) {
			ri, ok := core.AsRange(l)
			if !ok || ri.Kind != "slice" || core.StripType(ri.X) != ssa.Value(enc.Params[0]) {
				continue
			}
			for _, in := range l.Header.Instrs {
				phi, isPhi := in.(*ssa.Phi)
				if !isPhi {
					break
				}
				var end ssa.Value
				okChain := true
				for i, e := range phi.Edges {
					if !l.Blocks[l.Header.Preds[i]] {
						continue
					}
					if end != nil && end != e {
						okChain = false
					}
					end = e
				}
				var chain []*ssa.Call
				for cur := end; okChain && cur != nil && cur != ssa.Value(phi); {
					c, ok := cur.(*ssa.Call)
					if !ok || !core.IsBuiltin(c, "append") || len(chain) > 4 {
						okChain = false
						break
					}
					chain = append([]*ssa.Call{c}, chain...)
					cur = c.Call.Args[0]
				}
				if !okChain || len(chain) != 2 {
					continue
				}
				for k, c := range chain {
					var el ssa.Value
					if sl, ok := c.Call.Args[1].(*ssa.Slice); ok {
						if al, ok := sl.X.(*ssa.Alloc); ok {
							for _, ref := range core.Referrers(al) {
								if ia, ok := ref.(*ssa.IndexAddr); ok {
									for _, rr := range core.Referrers(ia) {
										if st, ok := rr.(*ssa.Store); ok && st.Addr == ia {
											el = st.Val
										}
									}
								}
							}
						}
					}
					if el == nil {
						continue
					}
					o := &off{2, int64(k), p.InstrPos(c)}
					if unitOf(p, el, 0) != "" {
						lenOffE = o
					} else if isTokenTypeValue(el) {
						typOffE = o
					}
				}
			}
		}
	}
	// decoder: a loop whose induction value advances the read position by 2 per trip: a counted loop
	// with step 2 reading index[i+c], or a loop with step 1 (counted, or a range over the tokens)
	// reading index[2i+c]; the index may be read through a tail slice index[lo:] with constant lo.
	// Absolute position of the read in trip k: lo + a*init + c + 2k (a = 2/step).
	pvD := core.NewProver(dec)
	var lenOffD, typOffD *off
	var start int64 = -1
	for _, l := range core.Loops(dec) {
		var iv ssa.Value
		var init, step int64
		if cnt, ok := core.AsCounted(l); ok && (cnt.Step == 2 || cnt.Step == 1) {
			s0, isC := core.ConstInt(cnt.Init)
			if !isC {
				continue
			}
			iv, init, step = cnt.Phi, s0, cnt.Step
		} else if ri, ok := core.AsRange(l); ok && ri.Kind == "slice" && ri.Index != nil {
			iv, init, step = ri.Index, 0, 1
		} else {
			continue
		}
		a := 2 / step
		for b := range l.Blocks {
			for _, in := range b.Instrs {
				ia, ok := in.(*ssa.IndexAddr)
				if !ok {
					continue
				}
				var lo int64
				base := core.StripType(ia.X)
				if sl, isSl := base.(*ssa.Slice); isSl && sl.High == nil && sl.Max == nil && sl.Low != nil {
					k, isC := core.ConstInt(sl.Low)
					if !isC {
						continue
					}
					lo, base = k, core.StripType(sl.X)
				}
				if base != ssa.Value(dec.Params[1]) {
					continue
				}
				f := pvD.Form(ia.Index).Add(pvD.Form(iv), -a)
				if len(f.T) != 0 {
					continue
				}
				// what is the loaded byte used for?
				use := ""
				for _, ref := range core.Referrers(ia) {
					ld, ok := ref.(*ssa.UnOp)
					if !ok {
						continue
					}
					use = byteUse(ld, 0)
				}
				o := &off{1, lo + a*init + f.C, p.InstrPos(ia)}
				switch use {
				case "length":
					lenOffD = o
					start = 0
				case "type":
					typOffD = o
					start = 0
				}
			}
		}
	}
	if lenOffE == nil || typOffE == nil {
		r.Unrecognised("R11.3", encName, "full layout: (length,type) stores at payload[2i+a]/[2i+b]", p.Pos(enc.Pos()), "stores not recognised")
		return
	}
	if lenOffD == nil || typOffD == nil || start < 0 {
		r.Unrecognised("R11.3", decName, "full layout: reads at index[i+c]/[i+d] in a stride-2 loop", p.Pos(dec.Pos()), "reads not recognised")
		return
	}
	okL := 1+lenOffE.c == start+lenOffD.c
	okT := 1+typOffE.c == start+typOffD.c
	r.Check(okL, "R11.3", decName, "full layout: length byte is read where it is written", lenOffD.pos,
		fmt.Sprintf("encoder writes length at 1+2i%+d (%s), decoder reads length at %d+2k%+d", lenOffE.c, lenOffE.pos, start, lenOffD.c))
	r.Check(okT, "R11.3", decName, "full layout: type byte is read where it is written", typOffD.pos,
		fmt.Sprintf("encoder writes type at 1+2i%+d (%s), decoder reads type at %d+2k%+d", typOffE.c, typOffE.pos, start, typOffD.c))
}

func isTokenTypeValue(v ssa.Value) bool {
	v = core.StripType(v)
	if cv, ok := v.(*ssa.Convert); ok {
		v = cv.X
	}
	return core.NamedOf(core.StripType(v).Type()) == core.ModulePath+".TokenType" || core.NamedOf(v.Type()) == core.ModulePath+".TokenType"
}

// byteUse: how a loaded index byte is used: "length" (added to a position) or "type" (converted to TokenType).
func byteUse(v ssa.Value, depth int) string {
	if depth > 4 {
		return ""
	}
	for _, ref := range core.Referrers(v) {
		switch x := ref.(type) {
		case *ssa.Convert:
			if core.NamedOf(x.Type()) == core.ModulePath+".TokenType" {
				return "type"
			}
			if u := byteUse(x, depth+1); u != "" {
				return u
			}
		case *ssa.ChangeType:
			if core.NamedOf(x.Type()) == core.ModulePath+".TokenType" {
				return "type"
			}
			if u := byteUse(x, depth+1); u != "" {
				return u
			}
		case *ssa.BinOp:
			if x.Op == token.ADD {
				return "length"
			}
		}
	}
	return ""
}

// parityPhiMap: phi of two TokenType constants selected by idx%2 == par -> {par: type}.
func parityPhiMap(phi *ssa.Phi) map[int64]int64 {
	out := map[int64]int64{}
	if core.NamedOf(phi.Type()) != core.ModulePath+".TokenType" || len(phi.Edges) != 2 {
		return out
	}
	for i, e := range phi.Edges {
		T, isC := core.ConstInt(e)
		if !isC {
			return map[int64]int64{}
		}
		pred := phi.Block().Preds[i]
		var gs []core.Guard
		gs = append(gs, core.Guards(pred)...)
		for si, s := range pred.Succs {
			if s == phi.Block() && len(pred.Succs) == 2 {
				if g, ok := core.EdgeCond(pred, si); ok {
					gs = append(gs, g)
				}
			}
		}
		for _, g := range gs {
			if g.If.Block() != phi.Block().Idom() {
				continue
			}
			rel, ok := core.AsRel(g)
			if !ok {
				continue
			}
			rem, ok := rel.X.(*ssa.BinOp)
			if !ok {
				continue
			}
			// i%2 or i&1
			if k, isK := core.ConstInt(rem.Y); !(rem.Op == token.REM && isK && k == 2) && !(rem.Op == token.AND && isK && k == 1) {
				continue
			}
			par, isC := core.ConstInt(rel.Y)
			if !isC {
				continue
			}
			if rel.Op == token.EQL {
				out[par] = T
			} else if rel.Op == token.NEQ {
				out[1-par] = T
			}
		}
	}
	return out
}

// checkAlternatingParity compares the parity->type map of isAlternatingTokens
// with the decoder's.
func checkAlternatingParity(p *core.Program, r *core.Report, dec *ssa.Function) {
	alt := alternationPredicate(p)
	if alt == nil {
		if _, has := alternatingKind(p); has {
			r.Unrecognised("R11.3", core.FuncName(dec), "alternating parity->type maps", p.Pos(dec.Pos()), "the decoder assigns token types by index parity under one kind, but the predicate Kind() uses to choose that kind was not resolved")
			return
		}
		r.Note("no alternating layout in the decoder: parity map not compared")
		return
	}
	// encoder side: under guard idx%2 == par, compare type != T leads to return false
	encMap := map[int64]int64{}
	core.Instrs(alt, func(in ssa.Instruction) {
		bo, ok := in.(*ssa.BinOp)
		if !ok || (bo.Op != token.NEQ && bo.Op != token.EQL) || !isTokenTypeValue(bo.X) {
			return
		}
		T, isC := core.ConstInt(bo.Y)
		if !isC {
			// compared with an "expected type" selected by the index parity
			for _, side := range []ssa.Value{bo.X, bo.Y} {
				if phi, isPhi := side.(*ssa.Phi); isPhi {
					for par, t := range parityPhiMap(phi) {
						encMap[par] = t
					}
				}
			}
			return
		}
		for _, g := range core.Guards(bo.Block()) {
			rel, ok := core.AsRel(g)
			if !ok || rel.Op != token.EQL {
				continue
			}
			rem, ok := rel.X.(*ssa.BinOp)
			if !ok || rem.Op != token.REM {
				continue
			}
			if k, isC := core.ConstInt(rem.Y); !isC || k != 2 {
				continue
			}
			if par, isC := core.ConstInt(rel.Y); isC {
				encMap[par] = T
			}
		}
	})
	// decoder side: phi of TokenType constants selected by idx%2 == 1
	decMap := map[int64]int64{}
	core.Instrs(dec, func(in ssa.Instruction) {
		phi, ok := in.(*ssa.Phi)
		if !ok {
			return
		}
		for par, t := range parityPhiMap(phi) {
			decMap[par] = t
		}
	})
	// yes is said only after every position was looked at: the `return true` lies behind the
	// exit of a full sweep of the tokens, every other return is `false`
	for _, ret := range core.Returns(alt) {
		if len(ret.Results) != 1 {
			continue
		}
		c, isC := ret.Results[0].(*ssa.Const)
		if !isC || c.Value == nil {
			r.Unrecognised("R11.3", core.FuncName(alt), "the alternation predicate returns constant verdicts", p.InstrPos(ret), core.Describe(ret.Results[0]))
			continue
		}
		if c.Value.String() != "true" {
			continue
		}
		okAfter := false
		for _, l := range core.Loops(alt) {
			var exit *ssa.BasicBlock
			if ri, isR := core.AsRange(l); isR && ri.Kind == "slice" && core.StripType(ri.X) == ssa.Value(alt.Params[0]) {
				exit = ri.Exit
			} else if cnt, isC := core.AsCounted(l); isC && cnt.Step == 1 && cnt.Op == token.LSS {
				if z, isZ := core.ConstInt(cnt.Init); isZ && z == 0 {
					if x, isLen := core.LenOf(cnt.Bound); isLen && core.StripType(x) == ssa.Value(alt.Params[0]) {
						exit = cnt.Exit
					}
				}
			}
			if exit != nil && !l.Blocks[ret.Block()] && (exit == ret.Block() || exit.Dominates(ret.Block())) {
				okAfter = true
			}
		}
		r.Check(okAfter, "R11.3", core.FuncName(alt), "the alternation predicate says yes only after a full sweep of the tokens", p.InstrPos(ret),
			"a `true` on an early path classifies sequences as alternating whose types the decoder will then assign wrongly")
	}
	// the size clause needs the converse too: a sequence A S A … A must be classified as
	// alternating, so every `return false` of the predicate has a reason that rules that out
	for _, ret := range core.Returns(alt) {
		if len(ret.Results) != 1 {
			continue
		}
		c, isC := ret.Results[0].(*ssa.Const)
		if !isC || c.Value == nil || c.Value.String() != "false" {
			continue
		}
		accepted := func(g core.Guard) bool {
			if rel, ok := core.AsRel(g); ok {
				if rem, isRem := rel.X.(*ssa.BinOp); isRem && (rem.Op == token.REM || rem.Op == token.AND) {
					if _, isLen := core.LenOf(rem.X); isLen {
						if m, isM := core.ConstInt(rem.Y); isM && (rem.Op == token.REM && m == 2 || rem.Op == token.AND && m == 1) {
							k, isK := core.ConstInt(rel.Y)
							return isK && (rel.Op == token.NEQ && k == 1 || rel.Op == token.EQL && k == 0)
						}
					}
					return false
				}
				if x, isLen := core.LenOf(rel.X); isLen {
					k, isK := core.ConstInt(rel.Y)
					if !isK {
						return false
					}
					if _, isMap := x.Type().Underlying().(*types.Map); isMap {
						return rel.Op == token.NEQ && k == 2
					}
					return rel.Op == token.LSS && k <= 3 || rel.Op == token.LEQ && k <= 2 || rel.Op == token.EQL && k == 0
				}
				if (isTokenTypeValue(rel.X) || isTokenTypeValue(rel.Y)) && rel.Op == token.NEQ {
					return true
				}
				return false
			}
			if lk, isLk := g.Cond.(*ssa.Lookup); isLk && !g.Pos {
				if mt, isMap := lk.X.Type().Underlying().(*types.Map); isMap && core.NamedOf(mt.Key()) == core.ModulePath+".TokenType" {
					return true
				}
			}
			return false
		}
		ok := false
		// unreachable: x%2 is neither 0 nor 1
		ne := map[ssa.Value]map[int64]bool{}
		for _, g := range core.Guards(ret.Block()) {
			if accepted(g) {
				ok = true
			}
			if rel, isRel := core.AsRel(g); isRel && rel.Op == token.NEQ {
				if rem, isRem := rel.X.(*ssa.BinOp); isRem && rem.Op == token.REM {
					if m, isM := core.ConstInt(rem.Y); isM && m == 2 {
						if k, isK := core.ConstInt(rel.Y); isK {
							if ne[rem] == nil {
								ne[rem] = map[int64]bool{}
							}
							ne[rem][k] = true
						}
					}
				}
			}
		}
		for _, ks := range ne {
			if ks[0] && ks[1] {
				ok = true
			}
		}
		if !ok && len(ret.Block().Preds) > 0 {
			ok = true
			for _, pb := range ret.Block().Preds {
				for si, sb := range pb.Succs {
					if sb != ret.Block() {
						continue
					}
					g, has := core.EdgeCond(pb, si)
					if !has || !accepted(g) {
						ok = false
					}
				}
			}
		}
		r.Check(ok, "R11.3", core.FuncName(alt), "the alternation predicate says no only for a reason that rules out A S A … A (even or too short length, a type out of place, not both types)", p.InstrPos(ret),
			"otherwise a strictly alternating sequence gets the two-bytes-per-token index instead of the documented one byte per token")
	}
	if len(encMap) != 2 || len(decMap) != 2 {
		r.Unrecognised("R11.3", core.FuncName(dec), "alternating parity->type maps", p.Pos(dec.Pos()), fmt.Sprintf("encoder map %v, decoder map %v not both recognised", encMap, decMap))
		return
	}
	ok := encMap[0] == decMap[0] && encMap[1] == decMap[1]
	r.Check(ok, "R11.3", core.FuncName(dec), "alternating layout: same parity->token-type map on both sides", p.Pos(dec.Pos()),
		fmt.Sprintf("isAlternatingTokens requires %v, decoder assigns %v (TokenType values)", encMap, decMap))
}

// checkDecodedValuesArePieces: R11.5.
func checkDecodedValuesArePieces(p *core.Program, r *core.Report, dec *ssa.Function) {
	name := core.FuncName(dec)
	valField := tokenValueField(p)
	n := 0
	core.Instrs(dec, func(in ssa.Instruction) {
		st, ok := in.(*ssa.Store)
		if !ok {
			return
		}
		fa, ok := st.Addr.(*ssa.FieldAddr)
		if !ok || core.FieldName(fa) != valField || core.NamedOf(fa.X.Type()) != core.ModulePath+".Token" {
			return
		}
		n++
		seen := map[ssa.Value]bool{}
		var lossy func(v ssa.Value, d int) string
		lossy = func(v ssa.Value, d int) string {
			if v == nil || d > 10 || seen[v] {
				return ""
			}
			seen[v] = true
			switch x := v.(type) {
			case *ssa.Convert:
				if b, isB := x.Type().Underlying().(*types.Basic); isB && b.Info()&types.IsString != 0 {
					switch x.X.Type().Underlying().(type) {
					case *types.Slice:
						return "string(" + x.X.Type().String() + ") conversion at " + p.InstrPos(x)
					case *types.Basic:
						if xb := x.X.Type().Underlying().(*types.Basic); xb.Info()&types.IsInteger != 0 {
							return "string(rune) conversion at " + p.InstrPos(x)
						}
					}
				}
				return lossy(x.X, d+1)
			case *ssa.Phi:
				for _, e := range x.Edges {
					if w := lossy(e, d+1); w != "" {
						return w
					}
				}
			case *ssa.Extract:
				return lossy(x.Tuple, d+1)
			case *ssa.UnOp:
				return lossy(x.X, d+1)
			case *ssa.IndexAddr:
				return lossy(x.X, d+1)
			case *ssa.Slice:
				return lossy(x.X, d+1)
			case *ssa.ChangeType:
				return lossy(x.X, d+1)
			case *ssa.Call:
				switch core.CallName(x) {
				case "strings.Join", "strings.Split":
					return lossy(x.Call.Args[0], d+1)
				case "(*strings.Builder).String":
					// whatever was written into the builder
					for _, ref := range core.Referrers(x.Call.Args[0]) {
						if wc, isC := ref.(*ssa.Call); isC && len(wc.Call.Args) == 2 {
							switch core.CallName(wc) {
							case "(*strings.Builder).WriteRune":
								return "strings.Builder.WriteRune at " + p.InstrPos(wc)
							case "(*strings.Builder).WriteString":
								if w := lossy(wc.Call.Args[1], d+1); w != "" {
									return w
								}
							}
						}
					}
				}
				if f := core.StaticCallee(x); f != nil && p.InLib(f) && f.Blocks != nil {
					for _, ret := range core.Returns(f) {
						for _, rv := range ret.Results {
							if w := lossy(rv, d+1); w != "" {
								return w
							}
						}
					}
				}
			case *ssa.Alloc:
				for _, ref := range core.Referrers(x) {
					if s2, isSt := ref.(*ssa.Store); isSt && s2.Addr == ssa.Value(x) {
						if w := lossy(s2.Val, d+1); w != "" {
							return w
						}
					}
				}
			}
			return ""
		}
		why := lossy(st.Val, 0)
		r.Check(why == "", "R11.5", name, "token value is cut from the password string itself (no re-encoding through runes or bytes)", p.InstrPos(st),
			why+": bytes that are not valid UTF-8 come back as U+FFFD, so the reconstructed token values differ from the original ones")
	})
	r.Floor("R11.5", "token value stores in the decoder", n, 3)
	// and they are read back unchanged: Token's accessors return the stored fields
	nAcc := 0
	// the accessors the round trip goes through: those the encoder, Kind() and its helpers,
	// and Password.String() call
	used := map[*ssa.Function]bool{}
	var roots []*ssa.Function
	for _, f := range []*ssa.Function{p.Method("Tokens", "MakeIndices"), p.Method("Tokens", "Kind"), p.Method("Password", "String")} {
		if f != nil {
			roots = append(roots, f)
		}
	}
	for f := range p.ReachableFrom(roots...) {
		used[f] = true
	}
	for _, fn := range p.LibFuncs() {
		if fn.Signature.Recv() == nil || fn.Parent() != nil || core.NamedOf(fn.Signature.Recv().Type()) != core.ModulePath+".Token" {
			continue
		}
		if fn.Signature.Params().Len() != 0 || fn.Signature.Results().Len() != 1 || !ast.IsExported(fn.Name()) || !used[fn] {
			continue
		}
		nAcc++
		for _, ret := range core.Returns(fn) {
			okF := false
			switch x := ret.Results[0].(type) {
			case *ssa.Field:
				okF = x.X == ssa.Value(fn.Params[0])
			case *ssa.UnOp:
				if fa, isFA := x.X.(*ssa.FieldAddr); isFA {
					if al, isAl := fa.X.(*ssa.Alloc); isAl && paramCopiedInto(al) == 0 {
						okF = true
					}
					if fa.X == ssa.Value(fn.Params[0]) {
						okF = true
					}
				}
			}
			r.Check(okF, "R11.5", core.FuncName(fn), "Token accessor returns the stored field unchanged", p.InstrPos(ret), core.Describe(ret.Results[0]))
		}
	}
	r.Floor("R11.5", "exported accessors of Token", nAcc, 2)
}

// checkKindHelpers: every helper Kind() consults looks at all the tokens (a loop
// over the receiver covers it from the first to the last element), and the length
// it compares with 1 is the maximum token length.
func checkKindHelpers(p *core.Program, r *core.Report, kindFn *ssa.Function) {
	seen := map[*ssa.Function]bool{}
	var helpers []*ssa.Function
	var walk func(f *ssa.Function, d int)
	walk = func(f *ssa.Function, d int) {
		if f == nil || seen[f] || d > 4 || !p.InLib(f) || f.Blocks == nil {
			return
		}
		seen[f] = true
		helpers = append(helpers, f)
		for _, c := range core.Calls(f) {
			walk(core.StaticCallee(c), d+1)
		}
	}
	walk(kindFn, 0)
	nLoops := 0
	for _, f := range helpers {
		if len(f.Params) == 0 || f.Signature.Recv() == nil || core.NamedOf(f.Signature.Recv().Type()) != core.ModulePath+".Tokens" {
			continue
		}
		recv := ssa.Value(f.Params[0])
		for _, l := range core.Loops(f) {
			nLoops++
			full := false
			if ri, ok := core.AsRange(l); ok && ri.Kind == "slice" {
				full = core.StripType(ri.X) == recv
			} else if cnt, ok := core.AsCounted(l); ok && cnt.Step == 1 && cnt.Op == token.LSS {
				if z, isZ := core.ConstInt(cnt.Init); isZ && z == 0 {
					if x, isLen := core.LenOf(cnt.Bound); isLen && core.StripType(x) == recv {
						full = true
					}
				}
			}
			r.Check(full, "R11.2", core.FuncName(f), "the classification helper sweeps all the tokens (first to last)", p.InstrPos(l.Header.Instrs[0]),
				"a token left out of the classification can have a type or length the chosen index kind cannot represent")
		}
	}
	r.Floor("R11.2", "token sweeps in Kind() and its helpers", nLoops, 2)
	// the length compared with 1 is the maximum
	for _, c := range core.Calls(kindFn) {
		cv, ok := c.(*ssa.Call)
		if !ok {
			continue
		}
		f := core.StaticCallee(cv)
		if f == nil || !p.InLib(f) || f.Blocks == nil || f.Signature.Results().Len() != 1 || f.Signature.Results().At(0).Type().String() != "int" {
			continue
		}
		cmp1 := false
		for _, ref := range core.Referrers(cv) {
			if bo, ok := ref.(*ssa.BinOp); ok {
				if k, isC := core.ConstInt(bo.Y); isC && k == 1 && (bo.Op == token.EQL || bo.Op == token.NEQ || bo.Op == token.LEQ || bo.Op == token.GTR) {
					cmp1 = true
				}
			}
		}
		if !cmp1 {
			continue
		}
		for _, ret := range core.Returns(f) {
			ok, why := isMaxAccumulator(p, ret.Results[0])
			r.Check(ok, "R11.2", core.FuncName(f), "the length Kind() compares with 1 is the maximum token length", p.InstrPos(ret), why)
		}
	}
}

// isMaxAccumulator: v = phi(c0 <= 1, …) over a loop where every update stores a
// length L under the guard L > phi (or >=).
func isMaxAccumulator(p *core.Program, v ssa.Value) (bool, string) {
	phi, ok := v.(*ssa.Phi)
	if !ok {
		return false, "result is not a loop accumulator: " + core.Describe(v)
	}
	var check func(e ssa.Value, from *ssa.BasicBlock, d int) (bool, string)
	check = func(e ssa.Value, from *ssa.BasicBlock, d int) (bool, string) {
		if d > 4 {
			return false, "too deep"
		}
		if e == ssa.Value(phi) {
			return true, ""
		}
		if k, isC := core.ConstInt(e); isC {
			if k <= 1 && k >= 0 {
				return true, ""
			}
			return false, fmt.Sprintf("initial value %d", k)
		}
		if inner, isPhi := e.(*ssa.Phi); isPhi && inner != phi {
			for i, ie := range inner.Edges {
				if ok, why := check(ie, inner.Block().Preds[i], d+1); !ok {
					return false, why
				}
			}
			return true, ""
		}
		if unitOf(p, e, 0) == "" {
			return false, "updated with something that is not a token length: " + core.Describe(e)
		}
		// guard L > phi on the path
		gs := append([]core.Guard{}, core.Guards(from)...)
		if len(from.Succs) == 2 {
			for si := range from.Succs {
				if g, has := core.EdgeCond(from, si); has {
					_ = g
				}
			}
		}
		for _, g := range gs {
			if rel, isRel := core.AsRel(g); isRel {
				if rel.X == e && rel.Y == ssa.Value(phi) && (rel.Op == token.GTR || rel.Op == token.GEQ) {
					return true, ""
				}
				if rel.Y == e && rel.X == ssa.Value(phi) && (rel.Op == token.LSS || rel.Op == token.LEQ) {
					return true, ""
				}
			}
		}
		return false, "the length is stored without the test `l > max`"
	}
	for i, e := range phi.Edges {
		if ok, why := check(e, phi.Block().Preds[i], 0); !ok {
			return false, why
		}
	}
	return true, ""
}

// checkDecoderRefusals: every error return of the decoder is taken for one of the
// documented reasons — an empty or truncated index (a test on len(index)), an
// unknown kind, or a password shorter than the lengths demand (an ordered
// comparison of a position with the number of characters). Any other test that
// leads to an error (for instance "the lengths must add up to …" computed in a
// narrower type) can refuse a pair that MakeIndices produced.
func checkDecoderRefusals(p *core.Program, r *core.Report, dec *ssa.Function) {
	if len(dec.Params) != 3 {
		return
	}
	name := core.FuncName(dec)
	ti := ssa.Value(dec.Params[1])
	n := 0
	for _, ret := range core.Returns(dec) {
		if len(ret.Results) != 2 || core.IsNilConst(ret.Results[1]) {
			continue
		}
		if !isFreshError(ret.Results[1]) {
			// an error handed up by expanded helpers (a merge of nil and fresh errors, returned under != nil):
			// each fresh error in the merge was made for a reason of its own
			if phi, isPhi := ret.Results[1].(*ssa.Phi); isPhi && freshOrNil(phi, map[ssa.Value]bool{}) {
				var visit func(v ssa.Value, seen map[ssa.Value]bool)
				visit = func(v ssa.Value, seen map[ssa.Value]bool) {
					if seen[v] {
						return
					}
					seen[v] = true
					switch x := v.(type) {
					case *ssa.Phi:
						for _, e := range x.Edges {
							visit(e, seen)
						}
					case *ssa.Call:
						n++
						reason, unknown := refusalReason(x.Block(), ti, 0)
						r.Check(reason != "", "R11.4", name, "the decoder refuses only an empty/truncated index, an unknown kind or a password too short for the lengths", p.InstrPos(x),
							"error made under "+unknown+": a pair produced by MakeIndices could be refused")
					}
				}
				visit(phi, map[ssa.Value]bool{})
			}
			continue
		}
		n++
		reason, unknown := refusalReason(ret.Block(), ti, 0)
		r.Check(reason != "", "R11.4", name, "the decoder refuses only an empty/truncated index, an unknown kind or a password too short for the lengths", p.InstrPos(ret),
			"error returned under "+unknown+": a pair produced by MakeIndices could be refused")
	}
	r.Floor("R11.4", "error returns of the decoder", n, 3)
}


// refusalReason classifies the innermost test under which block b runs (see checkDecoderRefusals).
func refusalReason(b *ssa.BasicBlock, ti ssa.Value, depth int) (reason, unknown string) {
	gs := core.Guards(b)
	if len(gs) == 0 || depth > 3 {
		return "", "no test"
	}
	g := gs[0]
	var lenOfIndex func(v ssa.Value, d int) bool
	lenOfIndex = func(v ssa.Value, d int) bool {
		if d > 3 {
			return false
		}
		if bo, isB := v.(*ssa.BinOp); isB && (bo.Op == token.REM || bo.Op == token.SUB || bo.Op == token.QUO || bo.Op == token.ADD) {
			return lenOfIndex(bo.X, d+1)
		}
		x, isLen := core.LenOf(v)
		if !isLen {
			return false
		}
		if sl, isSl := core.StripType(x).(*ssa.Slice); isSl {
			x = sl.X
		}
		return core.StripType(x) == ti
	}
	if rel, ok := core.AsRel(g); ok {
		switch {
		case lenOfIndex(rel.X, 0) || lenOfIndex(rel.Y, 0):
			return "index length", ""
		case core.NamedOf(rel.X.Type()) == core.ModulePath+".IndexKind" && rel.Op == token.NEQ:
			return "kind", ""
		case rel.Op == token.GTR || rel.Op == token.GEQ || rel.Op == token.LSS || rel.Op == token.LEQ:
			if isIntType(rel.X.Type()) && isIntType(rel.Y.Type()) {
				return "position against the number of characters", ""
			}
		}
		return "", core.Describe(g.Cond)
	}
	// a success flag handed back by an expanded helper: every edge that sets it to the failing
	// value must itself be taken for a documented reason
	cond := g.Cond
	pos := g.Pos
	if u, isU := cond.(*ssa.UnOp); isU && u.Op == token.NOT {
		cond, pos = u.X, !pos
	}
	if phi, isPhi := cond.(*ssa.Phi); isPhi {
		n := 0
		for i, e := range phi.Edges {
			c, isC := e.(*ssa.Const)
			if !isC || c.Value == nil || c.Value.Kind() != constant.Bool {
				return "", core.Describe(g.Cond)
			}
			if constant.BoolVal(c.Value) != pos {
				continue
			}
			n++
			if rsn, unk := refusalReason(phi.Block().Preds[i], ti, depth+1); rsn == "" {
				return "", unk
			}
		}
		if n > 0 {
			return "flag set for a documented reason", ""
		}
	}
	return "", core.Describe(g.Cond)
}
