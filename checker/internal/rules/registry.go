// Package rules holds the repository-specific rules, one file per property.
package rules

import (
	"strings"
	"sort"
	"sync"

	"spgverif/internal/core"
)

// Property is one registered check.
type Property struct {
	Meta core.PropertyMeta
	Run  func(p *core.Program, r *core.Report)
	// Fixture names a directory under checker/fixtures holding a tiny module
	// with one seeded positive per zero-expected-count rule; FixtureExpects
	// lists the rule ids that must report at least one violation there on
	// every run (otherwise the rule is blind and the check fails).
	Fixture        string
	FixtureExpects []string
}

var registry = map[string]*Property{}

func register(p *Property) { registry[p.Meta.ID] = p }

// Get returns the check of a property.
func Get(id string) *Property { return registry[id] }

// IDs lists the registered properties.
func IDs() []string {
	var out []string
	for id := range registry {
		out = append(out, id)
	}
	sort.Strings(out)
	return out
}

// common trusted base, repeated in each evidence file
var commonTrusted = []string{
	"Go semantics as modelled by go/types and go/ssa (golang.org/x/tools v0.29.0) and their agreement with the compiler",
	"VTA call-graph soundness for this module (no reflection, unsafe or linkname: rule R9.1 checks the last two)",
	"the checker itself (evidence of sensitivity: controls and fixtures; it is not verified)",
}

// ResetCaches drops per-program caches (used between control variants).
func ResetCaches() {
	rolesMu.Lock()
	rolesCache = map[*core.Program]*Roles{}
	rolesMu.Unlock()
	core.ResetCaches()
}

// Forget drops the caches of one program.
func Forget(p *core.Program) {
	rolesMu.Lock()
	delete(rolesCache, p)
	rolesMu.Unlock()
	core.Forget(p)
}

// runMu serialises rule evaluation: some rule sets keep per-program working
// state in package variables (the CLI model of C17, token field names), so two
// programs (thorough-tier controls are analysed concurrently) must not be
// evaluated at the same time. Loading and SSA construction stay parallel.
var runMu sync.Mutex

// RunLocked evaluates the property's rules on p under the evaluation lock.
func (pr *Property) RunLocked(p *core.Program, r *core.Report) {
	runMu.Lock()
	defer runMu.Unlock()
	pr.Run(p, r)
}

// borrowSelected runs another property's whole rule set on a scratch report and re-issues, under
// rule id `as`, the obligations `want` selects (keyed "[<original rule>] construct" like Report.Borrow).
// Used where the owner's rules are not split into callable parts.
func borrowSelected(p *core.Program, r *core.Report, run func(*core.Program, *core.Report), as string, want func(o core.Obligation) bool) {
	tmp := core.NewReport(r.Property, p)
	run(p, tmp)
	for _, o := range tmp.Obs {
		if strings.HasPrefix(o.Construct, "[") || !want(o) {
			continue
		}
		construct := "[" + o.Rule + "] " + o.Construct
		switch o.Status {
		case core.Discharged:
			r.Check(true, as, o.Func, construct, o.Pos, o.Detail)
		case core.Violated:
			r.Check(false, as, o.Func, construct, o.Pos, o.Detail)
		default:
			r.Unrecognised(as, o.Func, construct, o.Pos, o.Detail)
		}
	}
}
