package rules

import (
	"strings"
	"go/constant"
	"fmt"
	"go/token"
	"go/types"

	"golang.org/x/tools/go/ssa"

	"spgverif/internal/core"
)

func init() {
	register(&Property{
		Meta: core.PropertyMeta{
			ID: "C12",
			Explanation: "Decides the no-panic clause and the error clauses of Tokenize for every (string, index, entropy) triple at once: every " +
				"instruction reachable from Tokenize that can panic (index, slice, make with computed length, division, type assertion, explicit " +
				"panic, nil dereference, foreign call outside a list of total functions) becomes an obligation discharged by a small linear+parity " +
				"prover from the branch conditions that dominate it and from loop invariants (counted loops, monotone accumulators), with Fourier-" +
				"Motzkin refutation over the integers. The error clauses are decided on the CFG: success returns are dominated by a comparison of " +
				"the kind byte with a declared IndexKind constant and by a non-empty index; every return is (password, non-nil error) or " +
				"(password, nil); the Password carries the entropy parameter; token slices are consecutive (low bound = previous high bound) and " +
				"as long as the index byte says; a fixed-width (2-byte) record loop must consume the index exactly (parity).",
			Rules: []string{
				"R12.1 panic-freedom: every potentially panicking instruction reachable from Tokenize is discharged by LIN / nilness, no exemptions",
				"R12.2 error clauses: empty index and unknown kind cannot reach a success return; every error return carries a non-nil error; Password.Entropy is only ever assigned the entropy parameter and every returned Password derives from that assignment",
				"R12.2b consecutive slices: every slice of the character list taken in a loop has low = loop-carried phi(0, high) and high = low + int(index byte)",
				"R12.3 exact consumption: a stride-2 loop over the index has len(index) ≡ start (mod 2) proven at loop entry, so a truncated record is an error, not silently ignored",
			},
			Trusted:    append([]string{"strings.Split, strings.Join, fmt.Errorf do not panic", "int arithmetic on lengths (at most 255 per index byte) does not overflow"}, commonTrusted...),
			NotDecided: []string{"value-level equality of reconstructed tokens (C11)", "behaviour for invalid UTF-8 beyond strings.Split's character split"},
		},
		Run: runC12,
	})
}

func runC12(p *core.Program, r *core.Report) {
	fn := p.Func("Tokenize")
	if fn == nil {
		r.Unrecognised("R12.1", "Tokenize", "function", "", "exported function Tokenize not found")
		return
	}
	eng := &panicEngine{p: p, r: r, rule: "R12.1", roles: GetRoles(p), visited: map[string]bool{},
		exempt: func(ssa.Instruction) (string, bool) { return "", false }}
	eng.analyze(fn, nilCtx{})
	r.Floor("R12.1", "panic-site obligations reachable from Tokenize", eng.nSites, 12)
	r.Count("functions analysed for panic-freedom", eng.nFuncs)

	name := core.FuncName(fn)
	if len(fn.Params) != 3 {
		r.Unrecognised("R12.2", name, "signature", p.Pos(fn.Pos()), "expected (string, Indices, float32)")
		return
	}
	ti := fn.Params[1]
	entropy := fn.Params[2]

	// kind value: conversion of ti[0]
	isKind := func(v ssa.Value) bool {
		v = core.Strip(v)
		ld, ok := v.(*ssa.UnOp)
		if !ok || ld.Op != token.MUL {
			return false
		}
		ia, ok := ld.X.(*ssa.IndexAddr)
		if !ok || ia.X != ssa.Value(ti) {
			return false
		}
		c, ok := core.ConstInt(ia.Index)
		return ok && c == 0
	}
	kinds := core.ConstsOfType(p.LibPkg.Types, "IndexKind")
	kindVals := map[int64]string{}
	for n, v := range kinds {
		if i, ok := constInt64(v); ok {
			kindVals[i] = n
		}
	}
	nSucc := 0
	for _, ret := range core.Returns(fn) {
		if len(ret.Results) != 2 {
			continue
		}
		errV := ret.Results[1]
		pos := p.InstrPos(ret)
		if core.IsNilConst(errV) {
			nSucc++
			okKind, okNonEmpty := false, false
			kindName := ""
			for _, g := range core.Guards(ret.Block()) {
				rel, ok := core.AsRel(g)
				if !ok {
					continue
				}
				if rel.Op == token.EQL {
					x, y := rel.X, rel.Y
					if _, isC := x.(*ssa.Const); isC {
						x, y = y, x
					}
					if k, isC := core.ConstInt(y); isC && isKind(x) {
						if n, declared := kindVals[k]; declared {
							okKind, kindName = true, n
						}
					}
				}
				if x, isLen := core.LenOf(rel.X); isLen && x == ssa.Value(ti) {
					if k, isC := core.ConstInt(rel.Y); isC {
						if (rel.Op == token.NEQ && k == 0) || (rel.Op == token.GTR && k == 0) || (rel.Op == token.GEQ && k == 1) {
							okNonEmpty = true
						}
					}
				}
			}
			r.Check(okKind, "R12.2", name, "success return dominated by kind == declared IndexKind constant", pos, "an unknown kind byte must not reach a successful return; matched "+kindName)
			r.Check(okNonEmpty, "R12.2", name, "success return dominated by len(index) != 0", pos, "an empty index must be reported as an error")
		} else {
			okErr := isFreshError(errV)
			if phi, isPhi := errV.(*ssa.Phi); isPhi && !okErr {
				// an error produced by an expanded helper: merged with nil, returned under err != nil
				guarded := false
				for _, g := range core.Guards(ret.Block()) {
					if rel, ok := core.AsRel(g); ok && rel.Op == token.NEQ && rel.X == ssa.Value(phi) && core.IsNilConst(rel.Y) {
						guarded = true
					}
				}
				okErr = guarded && freshOrNil(phi, map[ssa.Value]bool{})
			}
			r.Check(okErr, "R12.2", name, "error return carries a freshly constructed non-nil error", pos, "error value is "+core.Describe(errV))
		}
		// returned Password derives from an alloc that received the entropy parameter
		okEnt, why := passwordCarriesEntropy(ret.Results[0], entropy, 0)
		r.Check(okEnt, "R12.2", name, "returned Password carries the entropy parameter", pos, why)
	}
	r.Floor("R12.2", "success returns of Tokenize", nSucc, 4)
	// no other store to an Entropy field
	core.Instrs(fn, func(in ssa.Instruction) {
		st, ok := in.(*ssa.Store)
		if !ok {
			return
		}
		if fa, ok := st.Addr.(*ssa.FieldAddr); ok && core.FieldName(fa) == "Entropy" {
			r.Check(st.Val == ssa.Value(entropy), "R12.2", name, "Entropy field assigned only the entropy parameter", p.InstrPos(st), "assigned "+core.Describe(st.Val))
		}
	})

	// R12.2b consecutive slices, R12.3 exact consumption
	pv := core.NewProver(fn)
	checkConsecutiveSlices(p, r, fn, ti)
	// "never fake text": token values are cut from the string itself (= C11 R11.5 re-run)
	r.Borrow("R12.2b", func() { checkDecodedValuesArePieces(p, r, fn) })
	// … and the decoded tokens are seen through Password.Tokens()/Token.Value()/Type(): they hand out the
	// stored fields unchanged (= C05 R5.3 accessor rules; an accessor that filters or copies selectively
	// changes the character counts the caller observes)
	r.Borrow("R12.2b", func() { checkTokenAccessors(p, r) })
	checkFormattedOperands(p, r, fn)

	// R12.3: a full index is 1 + 2k bytes; a success return in the full-kind branch must know len(index) is odd
	fullVal := int64(-1)
	for v, n := range kindVals {
		if n == "FullIndexKind" {
			fullVal = v
		}
	}
	nFull := 0
	for _, ret := range core.Returns(fn) {
		if len(ret.Results) != 2 || !core.IsNilConst(ret.Results[1]) {
			continue
		}
		inFull := false
		for _, g := range core.Guards(ret.Block()) {
			if rel, ok := core.AsRel(g); ok && rel.Op == token.EQL {
				x, y := rel.X, rel.Y
				if _, isC := x.(*ssa.Const); isC {
					x, y = y, x
				}
				if k, isC := core.ConstInt(y); isC && k == fullVal && isKind(x) {
					inFull = true
				}
			}
		}
		if !inFull {
			continue
		}
		nFull++
		par, okP := pv.ParityAt(ret.Block(), pv.LenForm(ti))
		r.Check(okP && par == 1, "R12.3", name, "success in the full-index branch only for an index of odd length (kind byte + complete (length,type) pairs)", p.InstrPos(ret),
			fmt.Sprintf("parity of len(index) known=%v value=%d: an index with an incomplete last record would be accepted (truncated index not reported) or read out of range", okP, par))
	}
	r.Floor("R12.3", "success returns in the full-index branch", nFull, 1)
}

func constInt64(v interface{ String() string }) (int64, bool) {
	var i int64
	_, err := fmt.Sscan(v.String(), &i)
	return i, err == nil
}

// isIndexByte: int(*(&s[j])) where s is ti or a slice of ti.
func isIndexByte(v ssa.Value, ti ssa.Value) bool {
	v = core.Strip(v)
	ld, ok := v.(*ssa.UnOp)
	if !ok || ld.Op != token.MUL {
		return false
	}
	ia, ok := ld.X.(*ssa.IndexAddr)
	if !ok {
		return false
	}
	base := core.StripType(ia.X)
	if sl, ok := base.(*ssa.Slice); ok {
		base = core.StripType(sl.X)
	}
	return base == ti
}

// passwordCarriesEntropy: v is a load of a Password alloc whose Entropy field
// was stored from the parameter, directly or through whole-struct copies.
func passwordCarriesEntropy(v ssa.Value, entropy ssa.Value, depth int) (bool, string) {
	if depth > 4 {
		return false, "copy chain too deep"
	}
	ld, ok := v.(*ssa.UnOp)
	if !ok || ld.Op != token.MUL {
		return false, "returned value is not a load of a local Password: " + core.Describe(v)
	}
	al, ok := ld.X.(*ssa.Alloc)
	if !ok {
		return false, "returned Password is not a local variable"
	}
	for _, ref := range core.Referrers(al) {
		switch x := ref.(type) {
		case *ssa.FieldAddr:
			if core.FieldName(x) != "Entropy" {
				continue
			}
			for _, rr := range core.Referrers(x) {
				if st, ok := rr.(*ssa.Store); ok && st.Addr == x && st.Val == entropy {
					return true, ""
				}
			}
		case *ssa.Store:
			if x.Addr == al {
				if ok, _ := passwordCarriesEntropy(x.Val, entropy, depth+1); ok {
					return true, ""
				}
			}
		}
	}
	return false, "no assignment of the entropy parameter reaches the returned Password"
}

// isFreshError: a call of fmt.Errorf or errors.New.
func isFreshError(v ssa.Value) bool {
	c, ok := v.(*ssa.Call)
	return ok && (core.CallName(c) == "fmt.Errorf" || core.CallName(c) == "errors.New")
}

// exitReturnsError: the edge from -> to ends in a return of a non-nil error. Besides the direct
// form (the target block returns one) this follows the shape left by an expanded helper: the target
// merges the helper's error result and tests it against nil; on this edge the merged value is an
// error known to be non-nil (freshly made, or tested != nil where it comes from), so only the
// error branch of that test can be taken.
func exitReturnsError(from, to *ssa.BasicBlock, depth int) bool {
	for _, in := range to.Instrs {
		if ret, isRet := in.(*ssa.Return); isRet && len(ret.Results) == 2 && !core.IsNilConst(ret.Results[1]) {
			return true
		}
	}
	if depth > 6 || len(to.Instrs) == 0 {
		return false
	}
	idx := -1
	for i, pb := range to.Preds {
		if pb == from {
			idx = i
		}
	}
	nonNil := func(v ssa.Value) bool {
		if isFreshError(v) {
			return true
		}
		for _, g := range core.Guards(from) {
			if rel, ok := core.AsRel(g); ok && rel.Op == token.NEQ && rel.X == v && core.IsNilConst(rel.Y) {
				return true
			}
		}
		return false
	}
	switch last := to.Instrs[len(to.Instrs)-1].(type) {
	case *ssa.Jump:
		for _, in := range to.Instrs[:len(to.Instrs)-1] {
			if _, isPhi := in.(*ssa.Phi); !isPhi {
				return false
			}
		}
		return exitReturnsError(to, to.Succs[0], depth+1)
	case *ssa.If:
		cmp, ok := last.Cond.(*ssa.BinOp)
		if !ok || (cmp.Op != token.NEQ && cmp.Op != token.EQL) || !core.IsNilConst(cmp.Y) {
			return false
		}
		for _, in := range to.Instrs[:len(to.Instrs)-1] {
			if _, isPhi := in.(*ssa.Phi); !isPhi && in != ssa.Instruction(cmp) {
				return false
			}
		}
		v := cmp.X
		if phi, isPhi := v.(*ssa.Phi); isPhi && phi.Block() == to && idx >= 0 {
			v = phi.Edges[idx]
		}
		if !nonNil(v) {
			return false
		}
		next := to.Succs[0]
		if cmp.Op == token.EQL {
			next = to.Succs[1]
		}
		return exitReturnsError(to, next, depth+1)
	}
	return false
}

// freshOrNil: nil, a freshly constructed error, or a merge of such values (an error handed up
// through expanded helpers); under a guard v != nil such a value is a fresh error.
func freshOrNil(v ssa.Value, seen map[ssa.Value]bool) bool {
	if seen[v] {
		return true
	}
	seen[v] = true
	if core.IsNilConst(v) || isFreshError(v) {
		return true
	}
	if phi, ok := v.(*ssa.Phi); ok {
		for _, e := range phi.Edges {
			if !freshOrNil(e, seen) {
				return false
			}
		}
		return true
	}
	return false
}

// advancedUnlessError: e is a merge (inside the loop) of `high` with the
// unchanged position, and every edge that leaves the position unchanged carries,
// in a sibling phi, a fresh non-nil error that is known to be nil at every
// latch of the loop — so whenever the loop goes round, the position advanced.
func advancedUnlessError(e ssa.Value, header *ssa.Phi, high ssa.Value, l *core.Loop) bool {
	m, ok := e.(*ssa.Phi)
	if !ok || !l.Blocks[m.Block()] || m.Block() == header.Block() {
		return false
	}
	for i, me := range m.Edges {
		if me == high {
			continue
		}
		if me != ssa.Value(header) {
			return false
		}
		excluded := false
		for _, in := range m.Block().Instrs {
			ep, isPhi := in.(*ssa.Phi)
			if !isPhi {
				break
			}
			if ep == m {
				continue
			}
			// the failure indicator carried beside the position: a fresh error, or a bool constant
			isErr := isFreshError(ep.Edges[i])
			bc, isBool := ep.Edges[i].(*ssa.Const)
			if isBool && (bc.Value == nil || bc.Value.Kind() != constant.Bool) {
				isBool = false
			}
			if !isErr && !isBool {
				continue
			}
			all := len(l.Latch) > 0
			for _, la := range l.Latch {
				known := false
				for _, g := range core.Guards(la) {
					if isErr {
						if rel, ok := core.AsRel(g); ok && rel.Op == token.EQL && rel.X == ssa.Value(ep) && core.IsNilConst(rel.Y) {
							known = true
						}
					} else if g.Cond == ssa.Value(ep) && g.Pos == !constant.BoolVal(bc.Value) {
						known = true // the flag is known to have the other value when the loop goes round
					}
				}
				if !known {
					all = false
				}
			}
			if all {
				excluded = true
			}
		}
		if !excluded {
			return false
		}
	}
	return true
}

// checkConsecutiveSlices: R12.2b (also run by C11: the decoder cuts the string into
// consecutive pieces whose lengths are the index bytes).
func checkConsecutiveSlices(p *core.Program, r *core.Report, fn *ssa.Function, ti ssa.Value) {
	name := core.FuncName(fn)
	loops := core.Loops(fn)
	nSl := 0
	core.Instrs(fn, func(in ssa.Instruction) {
		sl, ok := in.(*ssa.Slice)
		if !ok {
			return
		}
		if _, isStrSlice := sl.X.Type().Underlying().(*types.Slice); !isStrSlice || sl.X.Type().String() != "[]string" {
			return
		}
		l := core.InnermostLoop(loops, sl.Block())
		if l == nil || sl.Low == nil || sl.High == nil {
			return
		}
		nSl++
		pos := p.InstrPos(sl)
		phi, ok := sl.Low.(*ssa.Phi)
		okPhi := ok && phi.Block() == l.Header
		if okPhi {
			for i, e := range phi.Edges {
				if l.Blocks[phi.Block().Preds[i]] {
					if e != sl.High && !advancedUnlessError(e, phi, sl.High, l) {
						okPhi = false
					}
				} else if z, isC := core.ConstInt(e); !isC || z != 0 {
					okPhi = false
				}
			}
		}
		r.Check(okPhi, "R12.2b", name, "token slice starts where the previous one ended (low = phi(0, high))", pos, "low bound is "+core.Describe(sl.Low))
		// high = low + int(byte of ti)
		okHi := false
		if bo, ok := sl.High.(*ssa.BinOp); ok && bo.Op == token.ADD {
			other := bo.Y
			if bo.Y == sl.Low {
				other = bo.X
			}
			if (bo.X == sl.Low || bo.Y == sl.Low) && isIndexByte(other, ti) {
				okHi = true
			}
		}
		r.Check(okHi, "R12.2b", name, "token length is the index byte (high = low + int(index[j]))", pos, "high bound is "+core.Describe(sl.High))
		// every entry of the index is consumed: the token loop is left only through its own
		// test or by returning an error
		for b := range l.Blocks {
			if b == l.Header {
				continue
			}
			for _, sb := range b.Succs {
				if l.Blocks[sb] {
					continue
				}
				okExit := exitReturnsError(b, sb, 0)
				r.Check(okExit, "R12.2b", name, "the token loop ends only when the index is used up or with an error", p.InstrPos(b.Instrs[len(b.Instrs)-1]),
					"an early exit leaves index entries unconsumed: the returned tokens do not have the character counts the index specifies")
			}
		}
	})
	r.Floor("R12.2b", "token slices taken in loops", nSl, 3)
}

// checkFormattedOperands: a value handed to a fmt call is formatted by its own Format/String/Error/
// GoString method when its type has one. For module types used in the decoder's messages such a
// method is part of "never panics": it must not hand the same type back to fmt (endless re-entry:
// stack overflow, which no recover catches) nor call itself.
func checkFormattedOperands(p *core.Program, r *core.Report, dec *ssa.Function) {
	name := core.FuncName(dec)
	seen := map[string]bool{}
	for _, c := range core.Calls(dec) {
		cv, ok := c.(*ssa.Call)
		if !ok || !strings.HasPrefix(core.CallName(cv), "fmt.") {
			continue
		}
		var operands []ssa.Value
		for _, a := range cv.Call.Args {
			if sl, isSl := a.(*ssa.Slice); isSl {
				if al, isAl := sl.X.(*ssa.Alloc); isAl {
					for _, ref := range core.Referrers(al) {
						if ia, ok := ref.(*ssa.IndexAddr); ok {
							for _, r2 := range core.Referrers(ia) {
								if st, ok := r2.(*ssa.Store); ok && st.Addr == ssa.Value(ia) {
									operands = append(operands, st.Val)
								}
							}
						}
					}
				}
				continue
			}
			operands = append(operands, a)
		}
		for _, o := range operands {
			if mi, ok := o.(*ssa.MakeInterface); ok {
				o = mi.X
			}
			tn := core.NamedOf(o.Type())
			if !strings.HasPrefix(tn, core.ModulePath+".") || seen[tn] {
				continue
			}
			seen[tn] = true
			short := strings.TrimPrefix(tn, core.ModulePath+".")
			for _, m := range []string{"Format", "String", "Error", "GoString"} {
				f := p.Method(short, m)
				if f == nil || f.Blocks == nil {
					continue
				}
				bad := ""
				for _, c2 := range core.Calls(f) {
					if core.StaticCallee(c2) == f {
						bad = "calls itself"
					}
					if !strings.HasPrefix(core.CallName(c2), "fmt.") {
						continue
					}
					for _, a := range c2.Common().Args {
						vals := []ssa.Value{a}
						if sl, isSl := a.(*ssa.Slice); isSl {
							if al, isAl := sl.X.(*ssa.Alloc); isAl {
								for _, ref := range core.Referrers(al) {
									if ia, ok := ref.(*ssa.IndexAddr); ok {
										for _, r2 := range core.Referrers(ia) {
											if st, ok := r2.(*ssa.Store); ok && st.Addr == ssa.Value(ia) {
												vals = append(vals, st.Val)
											}
										}
									}
								}
							}
						}
						for _, v := range vals {
							if mi, ok := v.(*ssa.MakeInterface); ok {
								v = mi.X
							}
							if core.NamedOf(v.Type()) == tn {
								bad = "hands a " + short + " back to " + core.CallName(c2) + " (re-enters itself)"
							}
						}
					}
				}
				r.Check(bad == "", "R12.1", core.FuncName(f), "formatting method used by the decoder's messages terminates", p.Pos(f.Pos()), bad)
			}
		}
	}
	_ = name
}
