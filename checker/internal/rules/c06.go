package rules

import (
	"fmt"
	"go/token"
	"go/types"
	"sort"
	"strings"

	"golang.org/x/tools/go/ssa"

	"spgverif/internal/core"
)

func init() {
	register(&Property{
		Meta: core.PropertyMeta{
			ID: "C06",
			Explanation: "Partial: the probability bound itself needs the exact output distribution (a counting statement) and is not decided. " +
				"Decided are its structural necessary conditions: (1) the Entropy field of every returned Password is the result of Entropy() " +
				"called on the same (unmodified) copy of the recipe the draws were made for; (2) the wordlist entropy formula has exactly the " +
				"documented addends under the documented conditions (ledger), and every addend is matched by the draws Generate makes for it: " +
				"Length word draws bounded by Size(), Length coin draws (bound 2) exactly under CSRandom, one draw bounded by Length exactly " +
				"under CSOne, separator calls exactly for the Length-1 gaps — so a term without matching randomness (overstatement) or a " +
				"scheme handled on one side only is reported; (3) capitalisation bits are gated by 'every word capitalisable' (count == 0); " +
				"(4) the character recipe's Entropy() rebuilds the same alphabet Generate draws from and takes the simple term iff no required " +
				"characters remain.",
			Rules: []string{
				"R6.1 entropy copy: in every Generator implementation of the library, every return of a non-nil password is preceded by a store of Entropy() — called on the receiver copy — into that password's Entropy field, and Generate stores to no recipe field",
				"R6.2 ledger agreement: addends of WLRecipe.Entropy() = documented terms (shared with C08/R8.3); the set of schemes with a bonus term equals the set of schemes for which Generate draws; bounds of those draws match the terms (2 per position / Length once / Size per word); separator entropy multiplied by Length-1 = number of separator calls",
				"R6.3 gate: capitalisation addends are control-dependent on isAllCapitalizable() == true, which is count == 0, and the count stored by NewWordList counts exactly the kept words with strings.Title(w) == w over the final key set (= C08 R8.2)",
				"R6.5 generator side: every draw routine is a schema instance (= C01 R1.1-R1.3 re-run; a biased draw makes some password likelier than 2^-Entropy while the formula is untouched) and the alphabet the character draws index is the list of members of a set (= C02 R2.1 re-run; a character listed twice is drawn twice as often while log2 of the set size is reported)",
				"R6.4 character recipe: Entropy() calls the same builder as Generate on its own copy; simple term entropySimple(Length, len(alphabet)) iff the required sets are empty, else the required-sets count on the same copy",
			},
			Trusted:    append([]string{"C01/C02/C04 (draws uniform and independent)", "math.Log2"}, commonTrusted...),
			NotDecided: []string{"the probability bound P(password) <= 2^-Entropy itself", "everything numeric in the required-sets count (C07)", "min-entropy claim when some words are uncapitalisable"},
		},
		Run: runC06,
	})
}

func runC06(p *core.Program, r *core.Report) {
	// R6.1
	nGen := 0
	for _, tn := range []string{"CharRecipe", "WLRecipe"} {
		gen, ent := p.Method(tn, "Generate"), p.Method(tn, "Entropy")
		if gen == nil || ent == nil {
			r.Unrecognised("R6.1", tn, "Generate/Entropy", "", "not found")
			continue
		}
		nGen++
		name := core.FuncName(gen)
		var recv *ssa.Alloc
		for _, in := range gen.Blocks[0].Instrs {
			if al, ok := in.(*ssa.Alloc); ok && paramCopiedInto(al) == 0 {
				recv = al
			}
		}
		for _, ret := range core.Returns(gen) {
			if core.IsNilConst(ret.Results[0]) {
				continue
			}
			pos := p.InstrPos(ret)
			pw, ok := ret.Results[0].(*ssa.Alloc)
			if !ok {
				r.Fail("R6.1", name, "returned password is a fresh object", pos, core.Describe(ret.Results[0]))
				continue
			}
			var stores []*ssa.Store
			for _, ref := range core.Referrers(pw) {
				if fa, ok := ref.(*ssa.FieldAddr); ok && core.FieldName(fa) == "Entropy" {
					for _, rr := range core.Referrers(fa) {
						if st, ok := rr.(*ssa.Store); ok && st.Addr == fa {
							stores = append(stores, st)
						}
					}
				}
			}
			okSt := len(stores) >= 1
			why := fmt.Sprintf("%d store(s) to Entropy", len(stores))
			for _, st := range stores {
				c, isCall := st.Val.(*ssa.Call)
				if !isCall || core.StaticCallee(c) != ent {
					okSt = false
					why = "Entropy field assigned " + core.Describe(st.Val) + " instead of the recipe's Entropy()"
					continue
				}
				// receiver: whole load of the receiver copy
				ld, isLd := c.Call.Args[0].(*ssa.UnOp)
				if !isLd || recv == nil || ld.X != ssa.Value(recv) {
					okSt = false
					why = "Entropy() is called on something other than this call's recipe copy"
				}
				if !core.InstrDominates(st, ret) {
					okSt = false
					why = "the store does not precede the return on every path"
				}
			}
			r.Check(okSt, "R6.1", name, "Password.Entropy = Entropy() of the recipe the draws were made for", pos, why)
		}
		// no store to an exported recipe field in Generate
		if recv != nil {
			bad := ""
			for _, ref := range core.Referrers(recv) {
				if fa, ok := ref.(*ssa.FieldAddr); ok && isExportedName(core.FieldName(fa)) {
					for _, rr := range core.Referrers(fa) {
						if st, ok := rr.(*ssa.Store); ok && st.Addr == fa {
							bad = "store to ." + core.FieldName(fa) + " at " + p.InstrPos(st)
						}
					}
				}
			}
			r.Check(bad == "", "R6.1", name, "Generate does not modify the recipe's public fields (entropy and draws refer to the same recipe)", p.Pos(gen.Pos()), bad)
		}
	}
	r.Floor("R6.1", "Generator implementations", nGen, 2)

	// R6.2 / R6.3 ledger
	checkWLEntropyLedger(p, r, "R6.2")
	checkDrawTermAgreement(p, r)

	// R6.3 the gate's count counts exactly the uncapitalisable words
	if c := resolveWLCtor(p, r, "R6.3"); c != nil {
		checkStoredCountRule(p, r, c, "R6.3")
	}

	// R6.4
	checkCharEntropy(p, r)

	// R6.5 generator side: the bound is only meaningful if the draws are uniform
	checkDrawRoutines(p, r, "R6.5", "R6.5", "R6.5")
	checkAlphabetProvenance(p, r, "R6.5")
	// log2(Size) per word presupposes Size distinct, equally likely words (= C10 R10.2/R10.3 re-run)
	if c2 := resolveWLCtor(p, r, "R6.5"); c2 != nil {
		r.Borrow("R6.5", func() { checkKeptSet(p, r, c2) })
	}
	// … and the character recipe's count is the exact count (= C07 re-run)
	r.Borrow("R6.4", func() { runC07(p, r) })
	// the strings Generate can return are exactly those the count behind Entropy() counts: whole
	// candidates over the alphabet, kept iff they hit every required set (= C02 R2.4/R2.5 re-run;
	// a filter that accepts fewer strings makes each of them likelier than 2^-Entropy)
	if g, why := resolveCharGen(p); g == nil {
		r.Unrecognised("R6.5", "(spg.CharRecipe).Generate", "generation shape", "", why)
	} else {
		r.Borrow("R6.5", func() {
			checkDrawShape(p, r, g, "R2.2", "R2.3")
			checkWholeCandidateRejection(p, r, g, "R2.4")
			checkFilterAllOf(p, r, g, "R2.5")
		})
	}
	// the capitalisation bonus is granted on the constructor's judgement "Title(w) != w for every kept
	// word"; it is only earned when the generator capitalises with that same function (= C04 R4.4 re-run)
	if g, why := resolveWLGen(p); g == nil {
		r.Unrecognised("R6.3", "(spg.WLRecipe).Generate", "generation shape", "", why)
	} else {
		r.Borrow("R6.3", func() { checkTitleIffCap(p, r, g, "R4.4") })
	}
	// a separator function made by the factory reports the entropy of the very generation that
	// produced the separator (= C16 R16.3 factory rule; a pre-computed figure is wrong when that generation fails)
	r.Borrow("R6.2", func() { checkSeparatorFactories(p, r) })
	// Generate and Entropy() agree on which separator applies: the function whenever it is not nil, called per gap (= C04 R4.3 re-run)
	if g, why := resolveWLGen(p); g == nil {
		r.Unrecognised("R6.2", "(spg.WLRecipe).Generate", "generation shape", "", why)
	} else {
		r.Borrow("R6.2", func() { checkSeparatorPerGap(p, r, g, "R4.3") })
	}
	// the shipped lists hold no empty and no duplicate entry (an empty word is dropped from the password but counted
	// in log2(Size); = C16 R16.5 re-run)
	borrowSelected(p, r, runC16, "R6.5", func(o core.Obligation) bool { return o.Rule == "R16.5" || o.Rule == "R16.6" && mentionsVar(o.Construct, "AgileWords", "AgileSyllables") })
}

// checkDrawTermAgreement: schemes with a bonus in Entropy == schemes that draw in Generate, with matching bounds.
func checkDrawTermAgreement(p *core.Program, r *core.Report) {
	g, why := resolveWLGen(p)
	ent := p.Method("WLRecipe", "Entropy")
	if g == nil || ent == nil {
		r.Unrecognised("R6.2", "-", "wordlist Generate/Entropy", "", why)
		return
	}
	name := core.FuncName(g.fn)
	// schemes with a bonus term
	bonus := map[string]string{}
	for _, t := range addends(core.Returns(ent)[0].Results[0], 0) {
		_, _, scheme, _, _ := describeGuards(p, t.Guards)
		if scheme == "" {
			continue
		}
		switch {
		case recipeField(t.V, "Length"):
			bonus[scheme] = "Length bits"
		case isLog2Of(t.V, func(a ssa.Value) bool { return recipeField(a, "Length") }):
			bonus[scheme] = "log2(Length) bits"
		default:
			bonus[scheme] = "other"
		}
	}
	// schemes that draw
	draws := map[string]string{}
	for _, d := range g.draws {
		if d == g.wordDraw {
			continue
		}
		s := schemeGuard(g, d.Block())
		if s == "" {
			if l := core.InnermostLoop(g.loops, d.Block()); l != nil {
				s = schemeGuard(g, l.Header)
			}
		}
		switch d {
		case g.coinDraw:
			draws[s] = "Length bits"
		case g.oneDraw:
			draws[s] = "log2(Length) bits"
		default:
			draws[s] = "other"
		}
	}
	var all []string
	seen := map[string]bool{}
	for s := range bonus {
		if !seen[s] {
			all = append(all, s)
			seen[s] = true
		}
	}
	for s := range draws {
		if !seen[s] {
			all = append(all, s)
			seen[s] = true
		}
	}
	sort.Strings(all)
	for _, s := range all {
		b, d := bonus[s], draws[s]
		r.Check(b == d && b != "other", "R6.2", name, "scheme \""+s+"\": entropy bonus matches the randomness Generate consumes", p.Pos(g.fn.Pos()),
			fmt.Sprintf("Entropy() adds %q, Generate draws %q (a bonus without matching draws overstates the entropy)", b, d))
	}
	r.Floor("R6.2", "capitalisation schemes with draws or bonus", len(all), 2)
	// word draws: one per position bounded by Size (R4.1/R4.2 shapes) — base term uses the same Size and Length
	if g.wordDraw != nil {
		b := core.Strip(g.wordDraw.Call.Args[0])
		c, ok := b.(*ssa.Call)
		okB := ok && core.StaticCallee(c) == p.Method("WLRecipe", "Size")
		if ok && !okB {
			// the list's own Size() applied to the recipe's list: what the recipe's Size() forwards to (it only adds the nil test)
			if sz := p.Method("WLRecipe", "Size"); sz != nil && len(c.Call.Args) == 1 {
				for _, ret := range core.Returns(sz) {
					if ic, isC := core.Strip(ret.Results[0]).(*ssa.Call); isC && core.StaticCallee(ic) == core.StaticCallee(c) && len(ic.Call.Args) == 1 {
						rootW, pw, ok1 := valueAccessPath(ic.Call.Args[0])
						rootG, pg, ok2 := valueAccessPath(c.Call.Args[0])
						if ok1 && ok2 && rootIsParam0(rootW, sz) && rootG == ssa.Value(g.recv) && strings.Join(pw, ".") == strings.Join(pg, ".") {
							okB = true
						}
					}
				}
			}
		}
		if g.wordViaPick {
			// uniform pick over list.words: its bound is len(words), which Size() reports (saturating)
			if sz := p.Method("WLRecipe", "Size"); sz != nil {
				if path, okS := sizeSummary(p, sz, 0); okS {
					if root, ap, okP := valueAccessPath(g.wordDraw.Call.Args[0]); okP && root == ssa.Value(g.recv) && strings.Join(ap, ".") == strings.Join(path, ".") {
						okB = true
					}
				}
			}
		}
		r.Check(okB, "R6.2", name, "each word draw is bounded by Size(), the quantity in the base term", p.InstrPos(g.wordDraw), core.Describe(b))
		inMain := g.main != nil && g.main.Loop.Blocks[g.wordDraw.Block()] && recipeField(g.main.Bound, "Length")
		r.Check(inMain, "R6.2", name, "Length word draws (one per iteration of the 0..Length loop)", p.InstrPos(g.wordDraw), "")
	}
	// separator calls: Length-1 (guard i < Length-1 inside the 0..Length loop)
	if g.sepCall != nil && g.main != nil {
		ok := false
		for _, gd := range core.Guards(g.sepCall.Block()) {
			if gapGuard(g, gd) != "" {
				ok = true
			}
		}
		r.Check(ok, "R6.2", name, "Length-1 separator calls, the multiplier of the separator entropy", p.InstrPos(g.sepCall), "")
	}
}

func checkCharEntropy(p *core.Program, r *core.Report) {
	ent := p.Method("CharRecipe", "Entropy")
	builder := alphabetBuilder(p)
	if ent == nil || builder == nil {
		r.Unrecognised("R6.4", "CharRecipe.Entropy", "method/builder", "", "not found")
		return
	}
	name := core.FuncName(ent)
	var bc *ssa.Call
	for _, c := range core.Calls(ent) {
		if cv, ok := c.(*ssa.Call); ok && core.StaticCallee(cv) == builder {
			bc = cv
		}
	}
	if bc == nil {
		r.Fail("R6.4", name, "Entropy() rebuilds the alphabet with the builder Generate uses", p.Pos(ent.Pos()), "no call of "+core.FuncName(builder))
		return
	}
	al, isAl := bc.Call.Args[0].(*ssa.Alloc)
	r.Check(isAl && paramCopiedInto(al) == 0 && bc.Block() == ent.Blocks[0], "R6.4", name, "the builder runs first, on this call's copy of the recipe", p.InstrPos(bc), "")
	nSimple, nReq := 0, 0
	for _, ret := range core.Returns(ent) {
		pos := p.InstrPos(ret)
		v := stripFloatConv(ret.Results[0])
		c, ok := v.(*ssa.Call)
		if !ok {
			r.Fail("R6.4", name, "entropy is one of the two documented computations", pos, core.Describe(v))
			continue
		}
		// guard: size of required sets == 0 / != 0
		reqEmpty, reqNonEmpty := false, false
		for _, gd := range core.Guards(ret.Block()) {
			rel, ok := core.AsRel(gd)
			if !ok {
				continue
			}
			sc, isCall := rel.X.(*ssa.Call)
			k, isC := core.ConstInt(rel.Y)
			if !isCall || !isC || k != 0 || len(sc.Call.Args) != 1 {
				continue
			}
			if ref, okP := core.LoadPath(sc.Call.Args[0]); !okP || ref.Path != "."+requiredSetsField(p) || ref.Root != ssa.Value(al) {
				continue
			}
			if f := core.StaticCallee(sc); f == nil || !p.InLib(f) {
				continue
			}
			switch rel.Op {
			case token.EQL:
				reqEmpty = true
			case token.NEQ, token.GTR:
				reqNonEmpty = true
			}
		}
		// the same test with the size accessor written out: `len(sets) != 0 && union(sets).s.Cardinality() != 0`
		if !reqEmpty && !reqNonEmpty {
			cond := func(gd core.Guard) (empty, nonEmpty bool) {
				rel, ok := core.AsRel(gd)
				if !ok {
					return
				}
				k, isC := core.ConstInt(rel.Y)
				if !isC || k != 0 {
					return
				}
				isReqSets := func(v ssa.Value) bool {
					ref, okP := core.LoadPath(v)
					return okP && ref.Path == "."+requiredSetsField(p) && ref.Root == ssa.Value(al)
				}
				if x, isLen := core.LenOf(rel.X); isLen && isReqSets(x) {
					return rel.Op == token.EQL, false // no required sets at all: nothing required
				}
				if cc, isCall := rel.X.(*ssa.Call); isCall && cc.Call.IsInvoke() && cc.Call.Method.Name() == "Cardinality" {
					// Cardinality of the set field of the union of the required sets
					recv := core.StripType(cc.Call.Value)
					if fl, isF := recv.(*ssa.Field); isF {
						recv = fl.X
					} else if ld, isLd := recv.(*ssa.UnOp); isLd {
						if fa, isFA := ld.X.(*ssa.FieldAddr); isFA {
							if al2, isAl2 := fa.X.(*ssa.Alloc); isAl2 {
								for _, ref := range core.Referrers(al2) {
									if st, isSt := ref.(*ssa.Store); isSt && st.Addr == ssa.Value(al2) {
										recv = st.Val
									}
								}
							}
						}
					}
					if uc, isU := recv.(*ssa.Call); isU && len(uc.Call.Args) == 1 && isReqSets(uc.Call.Args[0]) {
						if f := core.StaticCallee(uc); f != nil && p.InLib(f) {
							return rel.Op == token.EQL, rel.Op == token.NEQ || rel.Op == token.GTR
						}
					}
				}
				return
			}
			b := ret.Block()
			for _, gd := range core.Guards(b) {
				e, ne := cond(gd)
				reqEmpty = reqEmpty || e
				reqNonEmpty = reqNonEmpty || ne
			}
			if !reqEmpty && !reqNonEmpty && len(b.Preds) >= 2 {
				// reached from several tests, each of which establishes "nothing required" on its own
				all := true
				for _, pb := range b.Preds {
					gs := append([]core.Guard{}, core.Guards(pb)...)
					if len(pb.Succs) == 2 && pb.Succs[0] != pb.Succs[1] {
						idx := 0
						if pb.Succs[1] == b {
							idx = 1
						}
						if eg, ok := core.EdgeCond(pb, idx); ok {
							gs = append(gs, eg)
						}
					}
					one := false
					for _, gd := range gs {
						if e, _ := cond(gd); e {
							one = true
						}
					}
					if !one {
						all = false
					}
				}
				reqEmpty = all
			}
		}
		// the same test spelled as a search: a sweep over the required sets that
		// leaves for the counting path at the first non-empty one, the simple term after it
		if !reqEmpty && !reqNonEmpty {
			reqEmpty, reqNonEmpty = anyRequiredSetNonEmpty(p, ent, al, ret.Block())
		}
		if isEntropySimpleCall(p, c) {
			nSimple++
			x, isLen := core.LenOf(c.Call.Args[1])
			okArgs := recipeField(c.Call.Args[0], "Length") && isLen && core.StripType(x) == ssa.Value(bc)
			r.Check(okArgs, "R6.4", name, "simple term is entropySimple(Length, len(alphabet just built))", pos, "")
			r.Check(reqEmpty, "R6.4", name, "simple term is used iff no required characters remain", pos, "")
		} else {
			nReq++
			f := core.StaticCallee(c)
			okCall := f != nil && p.InLib(f) && len(c.Call.Args) == 1
			if okCall {
				// the copy itself (value receiver) or its address (pointer receiver)
				ld, isLd := c.Call.Args[0].(*ssa.UnOp)
				okCall = (isLd && ld.X == ssa.Value(al) || c.Call.Args[0] == ssa.Value(al)) && core.InstrDominates(bc, c)
			}
			r.Check(okCall, "R6.4", name, "required-sets count is computed on the copy the builder just prepared", pos, core.Describe(c))
			r.Check(reqNonEmpty, "R6.4", name, "the counting path is taken iff required characters remain", pos, "")
		}
	}
	r.Check(nSimple == 1 && nReq == 1, "R6.4", name, "exactly the two documented entropy computations", p.Pos(ent.Pos()), fmt.Sprintf("%d simple, %d counting", nSimple, nReq))
	_ = types.Typ
}

// anyRequiredSetNonEmpty recognises
//
//	for _, e := range copy.requiredSets { if e.s.Cardinality() != 0 { <at: counting path> } }
//	<at: simple path>
//
// and reports whether block `at` is known to run with all required sets empty
// (after the complete sweep) or with a non-empty one (inside the test).
func anyRequiredSetNonEmpty(p *core.Program, fn *ssa.Function, recv *ssa.Alloc, at *ssa.BasicBlock) (allEmpty, someNonEmpty bool) {
	for _, l := range core.Loops(fn) {
		ri, ok := core.AsRange(l)
		if !ok || ri.Kind != "slice" {
			continue
		}
		if ref, okP := core.LoadPath(ri.X); !okP || ref.Path != "."+requiredSetsField(p) || ref.Root != ssa.Value(recv) {
			continue
		}
		// the blocks leaving the loop other than through the header's exit are
		// guarded by Cardinality(element.s) != 0
		nonEmptyGuard := func(b *ssa.BasicBlock) bool {
			for _, gd := range core.Guards(b) {
				if !l.Blocks[gd.If.Block()] {
					continue
				}
				rel, ok := core.AsRel(gd)
				if !ok {
					continue
				}
				sc, isCall := rel.X.(*ssa.Call)
				k, isC := core.ConstInt(rel.Y)
				if !isCall || !isC || k != 0 || !(rel.Op == token.NEQ || rel.Op == token.GTR) {
					continue
				}
				if !sc.Common().IsInvoke() || sc.Common().Method.Name() != "Cardinality" {
					continue
				}
				if elementOfRange(sc.Common().Value, ri, 0) {
					return true
				}
			}
			return false
		}
		okExits := true
		for b := range l.Blocks {
			for _, sb := range b.Succs {
				if l.Blocks[sb] || b == l.Header {
					continue
				}
				if !nonEmptyGuard(sb) {
					okExits = false
				}
			}
		}
		if !okExits {
			continue
		}
		if nonEmptyGuard(at) {
			return false, true
		}
		if !l.Blocks[at] && ri.Exit != nil && ri.Exit.Dominates(at) && len(ri.Exit.Preds) == 1 {
			return true, false
		}
	}
	return false, false
}

// elementOfRange: v is (a field of) the element of the ranged slice at the range index.
func elementOfRange(v ssa.Value, ri *core.RangeInfo, d int) bool {
	if d > 6 || v == nil {
		return false
	}
	switch x := v.(type) {
	case *ssa.Field:
		return elementOfRange(x.X, ri, d+1)
	case *ssa.FieldAddr:
		return elementOfRange(x.X, ri, d+1)
	case *ssa.UnOp:
		return x.Op == token.MUL && elementOfRange(x.X, ri, d+1)
	case *ssa.IndexAddr:
		return x.Index == ri.Index && sameSliceLoad(x.X, ri.X)
	case *ssa.Alloc:
		// a local copy of the element: stored once from it
		n := 0
		okv := false
		for _, ref := range core.Referrers(x) {
			if st, ok := ref.(*ssa.Store); ok && st.Addr == ssa.Value(x) {
				n++
				okv = elementOfRange(st.Val, ri, d+1)
			}
		}
		return n == 1 && okv
	}
	return false
}
