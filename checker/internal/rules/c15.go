package rules

import (
	"fmt"
	"go/token"
	"go/types"
	"sort"
	"strings"

	"golang.org/x/tools/go/ssa"

	"spgverif/internal/core"
)

func init() {
	register(&Property{
		Meta: core.PropertyMeta{
			ID: "C15",
			Explanation: "A call can only depend on call history through memory that survives the call. The check shows (effect/ownership " +
				"analysis shared with C14) that no API call writes memory owned by the recipe, the word list, a caller-supplied slice, a package " +
				"variable or a closure's captured variable, that the recipe's computed (unexported, derived) fields are re-derived from the " +
				"public fields before every read in every entry point's call tree (so a changed public field is honoured and stale derived state is " +
				"never consulted), and that the only inputs besides the recipe are the immutable tables, the documented retry knobs and CSPRNG " +
				"bytes (no clock/environment/file access; non-generating entry points reach the random source only through a separator function " +
				"whose drawn string is discarded).",
			Rules: []string{
				"R15.1 = R14.1/R14.4/R14.7 for every API entry point: no persistent write, hence nothing for a later call to observe; caller-owned slices (RequireSets, the []string given to NewWordList, Indices) never written",
				"R15.3 recompute before read: every load of a computed recipe field (an unexported field stored by a non-constructor function) is dominated in the same function by a store or a must-writing builder call on the same struct copy, or the function is unexported and every reachable call site passes a copy for which that holds (checked recursively)",
				"R15.4 no hidden inputs: no call into time/os/runtime/syscall/net from library functions reachable from the API; bounded draws are reachable from Entropy/Alphabet/SuccessProbability/Size only through a dynamic separator-function call whose string result is unused",
				"R15.5 separator not remembered: decided under C04/C05 (R4.3)",
			},
			Trusted:    append([]string{"golang-set algebra methods return new sets"}, commonTrusted...),
			NotDecided: []string{"a user-supplied SeparatorFunc is outside the analysed program and assumed pure", "exported package variables (MaxTrials, presets, lists) reassigned by the caller"},
		},
		Run:            runC15,
		Fixture:        "c14",
		FixtureExpects: []string{"R15.1", "R15.3", "R15.4"},
	})
}

func runC15(p *core.Program, r *core.Report) {
	entries := apiEntryPoints(p)
	checkNoSharedWrites(p, r, "R15", entries, 20)
	checkRecompute(p, r, entries)
	checkHiddenInputs(p, r, entries)
}

// computedFields: unexported fields of exported struct types of the library
// that some function stores into through a pointer parameter or a local copy
// outside a constructor's fresh allocation.
func computedFields(p *core.Program) map[string]map[string]bool {
	out := map[string]map[string]bool{}
	for _, fn := range p.LibFuncs() {
		core.Instrs(fn, func(in ssa.Instruction) {
			st, ok := in.(*ssa.Store)
			if !ok {
				return
			}
			fa, ok := st.Addr.(*ssa.FieldAddr)
			if !ok {
				return
			}
			tn := core.NamedOf(fa.X.Type())
			if !strings.HasPrefix(tn, core.ModulePath+".") {
				return
			}
			short := tn[len(core.ModulePath)+1:]
			if !isExportedName(short) || isExportedName(core.FieldName(fa)) {
				return
			}
			if p.Method(short, "Generate") == nil {
				return // only recipes (Generator implementations) have derived state
			}
			// stores into a heap object allocated here (constructor / composite literal) do not make the field "computed"
			if al, ok := fa.X.(*ssa.Alloc); ok && al.Heap {
				return
			}
			if al, ok := fa.X.(*ssa.Alloc); ok && !allocIsParamCopy(al) {
				return // local composite literal
			}
			if out[short] == nil {
				out[short] = map[string]bool{}
			}
			out[short][core.FieldName(fa)] = true
		})
	}
	return out
}

// allocIsParamCopy: alloc whose whole value is stored from a parameter (a
// by-value receiver/argument spilled to memory) or from another struct value.
func allocIsParamCopy(al *ssa.Alloc) bool {
	for _, ref := range core.Referrers(al) {
		if st, ok := ref.(*ssa.Store); ok && st.Addr == al {
			return true
		}
	}
	return false
}

// mustWriters: functions that store field f of the pointee of pointer
// parameter i on every path to every return.
func mustWrites(p *core.Program, fn *ssa.Function, idx int, field string, depth int) bool {
	if fn == nil || fn.Blocks == nil || idx >= len(fn.Params) || depth > 3 {
		return false
	}
	prm := fn.Params[idx]
	rets := core.Returns(fn)
	if len(rets) == 0 {
		return false
	}
	var definers []ssa.Instruction
	for _, ref := range core.Referrers(prm) {
		switch x := ref.(type) {
		case *ssa.FieldAddr:
			if core.FieldName(x) != field {
				continue
			}
			for _, rr := range core.Referrers(x) {
				if st, ok := rr.(*ssa.Store); ok && st.Addr == x {
					definers = append(definers, st)
				}
			}
		case *ssa.Call:
			for j, a := range x.Call.Args {
				if a == ssa.Value(prm) && mustWrites(p, core.StaticCallee(x), j, field, depth+1) {
					definers = append(definers, x)
				}
			}
		}
	}
	for _, ret := range rets {
		ok := false
		for _, d := range definers {
			if core.InstrDominates(d, ret) {
				ok = true
			}
		}
		if !ok {
			return false
		}
	}
	return true
}

// definedBefore: is field `field` of object base (Alloc or pointer param)
// definitely (re)computed before instruction at, within at's function?
func definedBefore(p *core.Program, base ssa.Value, field string, at ssa.Instruction) (bool, string) {
	for _, ref := range core.Referrers(base) {
		switch x := ref.(type) {
		case *ssa.FieldAddr:
			if core.FieldName(x) != field {
				continue
			}
			for _, rr := range core.Referrers(x) {
				if st, ok := rr.(*ssa.Store); ok && st.Addr == x && core.InstrDominates(st, at) {
					return true, "store at " + p.InstrPos(st)
				}
			}
		case *ssa.Call:
			for j, a := range x.Call.Args {
				if a == base && core.InstrDominates(x, at) && mustWrites(p, core.StaticCallee(x), j, field, 0) {
					return true, "builder call at " + p.InstrPos(x)
				}
			}
		}
	}
	return false, ""
}

func checkRecompute(p *core.Program, r *core.Report, entries []*ssa.Function) {
	cf := computedFields(p)
	var names []string
	for t, fs := range cf {
		for f := range fs {
			names = append(names, t+"."+f)
		}
	}
	sort.Strings(names)
	r.Note("computed fields: %s", strings.Join(names, ", "))
	r.Floor("R15.3", "computed recipe fields", len(names), 2)
	isEntry := map[*ssa.Function]bool{}
	for _, e := range entries {
		isEntry[e] = true
	}
	reach := p.ReachableFrom(entries...)
	nLoads := 0
	// inherited[fn][field] memo: does every reachable caller define the field before calling fn with the copy
	type key struct {
		fn    *ssa.Function
		idx   int
		field string
	}
	memo := map[key]int{}
	var inherited func(fn *ssa.Function, idx int, field string, depth int) (bool, string)
	inherited = func(fn *ssa.Function, idx int, field string, depth int) (bool, string) {
		k := key{fn, idx, field}
		if v, ok := memo[k]; ok {
			return v == 1, "memo"
		}
		memo[k] = 1 // optimistic for recursion
		if isEntry[fn] || (fn.Object() != nil && fn.Object().Exported()) {
			memo[k] = 2
			return false, core.FuncName(fn) + " is an API entry point: callers cannot be relied on to have computed the field"
		}
		if depth > 4 {
			memo[k] = 2
			return false, "call chain too deep"
		}
		sites := p.Callers(fn)
		n := 0
		for _, site := range sites {
			caller := site.Parent()
			if !reach[caller] || !p.InModule(caller) {
				continue
			}
			n++
			args := site.Common().Args
			if idx >= len(args) {
				memo[k] = 2
				return false, "cannot map argument at " + p.InstrPos(site)
			}
			a := core.StripType(args[idx])
			// struct copy loaded from an alloc, or a pointer to it
			var base ssa.Value
			if ld, ok := a.(*ssa.UnOp); ok && ld.Op == token.MUL {
				base = ld.X
			} else {
				base = a
			}
			switch b := base.(type) {
			case *ssa.Alloc:
				if ok, _ := definedBefore(p, b, field, site); ok {
					continue
				}
				// the alloc may itself be a copy of caller's parameter
				if pi := paramCopiedInto(b); pi >= 0 {
					if ok, why := inherited(caller, pi, field, depth+1); ok {
						continue
					} else {
						memo[k] = 2
						return false, "via " + core.FuncName(caller) + ": " + why
					}
				}
				memo[k] = 2
				return false, "call at " + p.InstrPos(site) + " passes a copy whose " + field + " was not recomputed"
			case *ssa.Parameter:
				pi := paramIndex(b)
				if _, isPtr := b.Type().Underlying().(*types.Pointer); isPtr {
					if ok, _ := definedBefore(p, b, field, site); ok {
						continue
					}
				}
				if ok, why := inherited(caller, pi, field, depth+1); ok {
					continue
				} else {
					memo[k] = 2
					return false, "via " + core.FuncName(caller) + ": " + why
				}
			default:
				memo[k] = 2
				return false, "call at " + p.InstrPos(site) + " passes " + core.Describe(a)
			}
		}
		if n == 0 {
			memo[k] = 2
			return false, "no reachable caller establishes the field"
		}
		return true, fmt.Sprintf("%d caller(s) recompute first", n)
	}

	var fns []*ssa.Function
	for fn := range reach {
		if p.InLib(fn) && fn.Blocks != nil {
			fns = append(fns, fn)
		}
	}
	sort.Slice(fns, func(i, j int) bool { return fns[i].String() < fns[j].String() })
	for _, fn := range fns {
		core.Instrs(fn, func(in ssa.Instruction) {
			ld, ok := in.(*ssa.UnOp)
			if !ok || ld.Op != token.MUL {
				return
			}
			fa, ok := ld.X.(*ssa.FieldAddr)
			if !ok {
				return
			}
			tn := core.NamedOf(fa.X.Type())
			short := strings.TrimPrefix(tn, core.ModulePath+".")
			field := core.FieldName(fa)
			if !cf[short][field] {
				return
			}
			nLoads++
			name := core.FuncName(fn)
			construct := "read of computed field " + short + "." + field
			if ok, how := definedBefore(p, fa.X, field, ld); ok {
				r.Pass("R15.3", name, construct+" preceded by recomputation", p.InstrPos(ld), how)
				return
			}
			// inherited from callers
			pi := -1
			switch b := fa.X.(type) {
			case *ssa.Alloc:
				pi = paramCopiedInto(b)
			case *ssa.Parameter:
				pi = paramIndex(b)
			}
			if pi < 0 {
				r.Fail("R15.3", name, construct+" without recomputation", p.InstrPos(ld), "the struct read from is neither recomputed here nor a parameter copy")
				return
			}
			ok2, why := inherited(fn, pi, field, 0)
			r.Check(ok2, "R15.3", name, construct+" recomputed by every caller first", p.InstrPos(ld), why)
		})
	}
	r.Floor("R15.3", "reads of computed fields", nLoads, 4)
}

func paramIndex(prm *ssa.Parameter) int {
	for i, q := range prm.Parent().Params {
		if q == prm {
			return i
		}
	}
	return -1
}

// paramCopiedInto returns i when the alloc's only whole-value store is from
// parameter i of its function (the by-value receiver/argument spill), else -1.
func paramCopiedInto(al *ssa.Alloc) int {
	idx := -1
	n := 0
	for _, ref := range core.Referrers(al) {
		if st, ok := ref.(*ssa.Store); ok && st.Addr == al {
			n++
			if prm, ok := st.Val.(*ssa.Parameter); ok {
				idx = paramIndex(prm)
			}
		}
	}
	if n != 1 {
		return -1
	}
	return idx
}

func checkHiddenInputs(p *core.Program, r *core.Report, entries []*ssa.Function) {
	reach := p.ReachableFrom(entries...)
	nAmb := 0
	nFn := 0
	for fn := range reach {
		if !p.InLib(fn) || fn.Blocks == nil {
			continue
		}
		nFn++
		for _, c := range core.Calls(fn) {
			f := core.StaticCallee(c)
			if f == nil || f.Pkg == nil {
				continue
			}
			if ambientPkgs[f.Pkg.Pkg.Path()] {
				nAmb++
				r.Fail("R15.4", core.FuncName(fn), "call of ambient-state function "+f.String(), p.InstrPos(c), "result of an API call may depend on clock/environment/process state")
			}
		}
	}
	if nAmb == 0 {
		r.Pass("R15.4", "-", "no clock/environment/file access reachable from the API", "", fmt.Sprintf("%d library functions inspected", nFn))
	}
	// non-generating entry points reach draws only via a separator call whose string is unused
	roles := GetRoles(p)
	isDraw := map[*ssa.Function]bool{}
	for _, f := range roles.BoundedDraw {
		isDraw[f] = true
	}
	for _, f := range roles.RawWord {
		isDraw[f] = true
	}
	for _, e := range entries {
		if e.Name() == "Generate" || e.Parent() != nil || e.Name() == "NewSFFunction" || isSeparatorSignature(p, e.Signature) {
			continue // generating entry points (a function of the separator-function type generates a separator)
		}
		// walk the call graph from e, not crossing dynamic calls of SFFunction type whose #0 result is unused
		seen := map[*ssa.Function]bool{}
		var bad []string
		var walk func(fn *ssa.Function, chain string)
		walk = func(fn *ssa.Function, chain string) {
			if seen[fn] || !p.InModule(fn) || fn.Blocks == nil {
				return
			}
			seen[fn] = true
			if isDraw[fn] {
				bad = append(bad, chain)
				return
			}
			for _, c := range core.Calls(fn) {
				if core.StaticCallee(c) == nil && !c.Common().IsInvoke() {
					if cv, ok := c.(*ssa.Call); ok && sepStringUnused(cv) {
						continue
					}
				}
				for _, g := range p.Callees(c) {
					walk(g, chain+" -> "+core.FuncName(g))
				}
			}
		}
		walk(e, core.FuncName(e))
		r.Check(len(bad) == 0, "R15.4", core.FuncName(e), "random source not reachable (except through a separator call whose string is discarded)", p.Pos(e.Pos()), strings.Join(bad, "; "))
	}
}

// sepStringUnused: dynamic call returning (string, FloatE) whose first result has no use.
func sepStringUnused(c *ssa.Call) bool {
	sig, ok := c.Call.Value.Type().Underlying().(*types.Signature)
	if !ok || sig.Results().Len() != 2 {
		return false
	}
	for _, ref := range core.Referrers(c) {
		ex, ok := ref.(*ssa.Extract)
		if !ok {
			return false
		}
		if ex.Index == 0 {
			for _, rr := range core.Referrers(ex) {
				if _, dbg := rr.(*ssa.DebugRef); !dbg {
					return false
				}
			}
		}
	}
	return true
}

// isSeparatorSignature: the signature of the library's separator-function type (func() (string, FloatE)).
func isSeparatorSignature(p *core.Program, sig *types.Signature) bool {
	obj := p.LibPkg.Types.Scope().Lookup("SFFunction")
	if obj == nil {
		return false
	}
	want, ok := obj.Type().Underlying().(*types.Signature)
	return ok && sig.Recv() == nil && types.Identical(want, sig)
}
