package rules

import (
	"fmt"
	"go/token"
	"go/types"
	"strings"

	"golang.org/x/tools/go/ssa"

	"spgverif/internal/core"
)

// Shared model of the character-recipe machinery (C02, C03, C06).

const setType = "github.com/deckarep/golang-set.Set"

// builderModel is the role-resolved alphabet builder.
type builderModel struct {
	fn       *ssa.Function
	recv     *ssa.Parameter
	loops    []*core.Loop
	classRI  *core.RangeInfo // range over the class table
	classKey ssa.Value       // f
	classVal ssa.Value       // ct
	allowAcc *ssa.Phi        // string accumulator seeded with AllowChars
	exclAcc  *ssa.Phi        // string accumulator seeded with ExcludeChars
	E        ssa.Value       // the excluded set
	setOf    *ssa.Function   // "string -> set of its characters"
	strOf    *ssa.Function   // "set -> concatenation of its elements"
	clean    map[ssa.Value]bool
	sweeps   []*cleanSweep
	problems []string
}

// cleanSweep: a full range sweep over recv.<field> storing a clean set into
// element.<sub> unconditionally.
type cleanSweep struct {
	loop  *core.Loop
	field string // e.g. requiredSets
	sub   string // e.g. s
	store *ssa.Store
}

func recvFieldLoad(v ssa.Value, recv ssa.Value, field string) bool {
	ld, ok := v.(*ssa.UnOp)
	if !ok || ld.Op != token.MUL {
		return false
	}
	fa, ok := ld.X.(*ssa.FieldAddr)
	if !ok || core.FieldName(fa) != field {
		return false
	}
	return fa.X == recv || isSnapshotOf(fa.X, recv)
}

// isSnapshotOf: x is a local struct whose only store is `*recv` (the whole recipe copied once, as a helper
// with a value receiver does when it is expanded inside a pointer-receiver method) and whose fields are
// never written: reading a field of it is reading that field of the recipe as it was at the copy.
func isSnapshotOf(x ssa.Value, recv ssa.Value) bool {
	al, ok := x.(*ssa.Alloc)
	if !ok {
		return false
	}
	n := 0
	for _, ref := range core.Referrers(al) {
		switch y := ref.(type) {
		case *ssa.Store:
			if y.Addr != ssa.Value(al) {
				return false
			}
			ld, isLd := y.Val.(*ssa.UnOp)
			if !isLd || ld.Op != token.MUL || ld.X != recv {
				return false
			}
			n++
		case *ssa.FieldAddr:
			for _, r2 := range core.Referrers(y) {
				if st, isSt := r2.(*ssa.Store); isSt && st.Addr == ssa.Value(y) {
					return false
				}
			}
		case *ssa.DebugRef, *ssa.UnOp:
		default:
			return false
		}
	}
	return n == 1
}

func isSetTyped(v ssa.Value) bool { return core.NamedOf(v.Type()) == setType }

func resolveBuilder(p *core.Program) (*builderModel, string) {
	fn := alphabetBuilder(p)
	if fn == nil {
		return nil, "no function whose result CharRecipe.Generate indexes with a bounded draw"
	}
	if len(fn.Params) != 1 {
		return nil, "alphabet builder does not take exactly the recipe"
	}
	m := &builderModel{fn: fn, recv: fn.Params[0], loops: core.Loops(fn), clean: map[ssa.Value]bool{}}
	if !isParamPtrV(m.recv) {
		return nil, "alphabet builder does not take the recipe by pointer (shape not modelled)"
	}
	for _, l := range m.loops {
		ri, ok := core.AsRange(l)
		if !ok || ri.Kind != "map" {
			continue
		}
		ld, ok := ri.X.(*ssa.UnOp)
		if !ok {
			continue
		}
		if _, isG := ld.X.(*ssa.Global); !isG {
			continue
		}
		m.classRI = ri
		for _, ref := range core.Referrers(ri.Next) {
			if ex, ok := ref.(*ssa.Extract); ok {
				if ex.Index == 1 {
					m.classKey = ex
				}
				if ex.Index == 2 {
					m.classVal = ex
				}
			}
		}
		for _, in := range l.Header.Instrs {
			phi, ok := in.(*ssa.Phi)
			if !ok {
				continue
			}
			for i, e := range phi.Edges {
				if l.Blocks[phi.Block().Preds[i]] {
					continue
				}
				if recvFieldLoad(e, m.recv, "AllowChars") {
					m.allowAcc = phi
				}
				if recvFieldLoad(e, m.recv, "ExcludeChars") {
					m.exclAcc = phi
				}
			}
		}
	}
	if m.classRI == nil {
		return nil, "no range over the class table in the alphabet builder"
	}
	// set constructors by role: module functions string -> Set called on the accumulators
	for _, c := range core.Calls(fn) {
		cv, ok := c.(*ssa.Call)
		if !ok {
			continue
		}
		f := core.StaticCallee(cv)
		if f == nil || !p.InLib(f) || len(cv.Call.Args) != 1 {
			continue
		}
		if isSetTyped(cv) && m.exclAcc != nil && cv.Call.Args[0] == ssa.Value(m.exclAcc) {
			m.E = cv
			m.setOf = f
		}
		if isSetTyped(cv.Call.Args[0]) && cv.Type().String() == "string" {
			m.strOf = f
		}
	}
	return m, ""
}

func isParamPtrV(v ssa.Value) bool {
	p, ok := v.(*ssa.Parameter)
	if !ok {
		return false
	}
	_, isPtr := p.Type().Underlying().(*types.Pointer)
	return isPtr
}

// computeClean runs the cleanliness fixpoint: which set-typed values are
// provably disjoint from E.
func (m *builderModel) computeClean(p *core.Program) {
	fn := m.fn
	// optimistic start: every set-typed value clean, then strike
	var vals []ssa.Value
	core.Instrs(fn, func(in ssa.Instruction) {
		if v, ok := in.(ssa.Value); ok && isSetTyped(v) {
			vals = append(vals, v)
			m.clean[v] = true
		}
	})
	// sweeps are recomputed inside the loop because they depend on cleanliness
	for iter := 0; iter < 20; iter++ {
		changed := false
		m.findSweeps()
		for _, v := range vals {
			if !m.clean[v] {
				continue
			}
			if !m.isClean(p, v) {
				m.clean[v] = false
				changed = true
			}
		}
		if !changed {
			break
		}
	}
	m.findSweeps()
}

func (m *builderModel) isClean(p *core.Program, v ssa.Value) bool {
	switch x := v.(type) {
	case *ssa.Call:
		com := x.Common()
		if com.IsInvoke() && isSetTyped(com.Value) {
			switch com.Method.Name() {
			case "Difference":
				if len(com.Args) == 1 && com.Args[0] == m.E {
					return true
				}
				return m.cleanV(com.Value)
			case "Intersect":
				return m.cleanV(com.Value) || (len(com.Args) == 1 && m.cleanV(com.Args[0]))
			case "Union":
				return m.cleanV(com.Value) && len(com.Args) == 1 && m.cleanV(com.Args[0])
			case "Clone":
				return m.cleanV(com.Value)
			}
			return false
		}
		f := core.StaticCallee(x)
		if f != nil && f.String() == "github.com/deckarep/golang-set.NewSet" {
			return len(com.Args) == 0 || core.IsNilConst(com.Args[0])
		}
		return false // set built from a string, or unknown: dirty until subtracted
	case *ssa.Phi:
		for _, e := range x.Edges {
			if !m.cleanV(e) {
				return false
			}
		}
		return true
	case *ssa.UnOp:
		if x.Op != token.MUL {
			return false
		}
		return m.cleanLoad(p, x)
	case *ssa.Field:
		// field of a struct value: result of a summarised union-of-elements call
		if c, ok := x.X.(*ssa.Call); ok {
			return m.cleanUnionCall(p, c, x)
		}
		return false
	case *ssa.ChangeInterface:
		return m.cleanV(x.X)
	case *ssa.MakeInterface:
		return m.cleanV(x.X)
	}
	return false
}

func (m *builderModel) cleanV(v ssa.Value) bool {
	if c, ok := v.(*ssa.Const); ok {
		return c.IsNil()
	}
	return m.clean[v]
}

// cleanLoad: load of a set from memory.
func (m *builderModel) cleanLoad(p *core.Program, ld *ssa.UnOp) bool {
	fa, ok := ld.X.(*ssa.FieldAddr)
	if !ok {
		return false
	}
	field := core.FieldName(fa)
	if fa.X == ssa.Value(m.recv) {
		// field of the recipe: every store clean and one dominates the load
		dom := false
		for _, ref := range core.Referrers(m.recv) {
			fa2, ok := ref.(*ssa.FieldAddr)
			if !ok || core.FieldName(fa2) != field {
				continue
			}
			for _, rr := range core.Referrers(fa2) {
				st, ok := rr.(*ssa.Store)
				if !ok || st.Addr != fa2 {
					continue
				}
				if !m.cleanV(st.Val) {
					return false
				}
				if core.InstrDominates(st, ld) {
					dom = true
				}
			}
		}
		return dom
	}
	// element cell: &elem.sub with elem = &S[idx]
	if ia, ok := fa.X.(*ssa.IndexAddr); ok {
		// same address stored clean earlier (dominating)
		for _, ref := range core.Referrers(ia) {
			fa2, ok := ref.(*ssa.FieldAddr)
			if !ok || core.FieldName(fa2) != field {
				continue
			}
			for _, rr := range core.Referrers(fa2) {
				if st, ok := rr.(*ssa.Store); ok && st.Addr == fa2 && core.InstrDominates(st, ld) && m.cleanV(st.Val) {
					return true
				}
			}
		}
		// after a cleaning sweep of that cell
		for _, sw := range m.sweeps {
			if sw.sub == field && recvFieldLoad(ia.X, m.recv, sw.field) && m.afterLoop(sw.loop, ld.Block()) {
				return true
			}
		}
	}
	return false
}

func (m *builderModel) afterLoop(l *core.Loop, b *ssa.BasicBlock) bool {
	if l.Blocks[b] {
		return false
	}
	// every path to b passes the loop header and leaves the loop: header dominates b
	return l.Header.Dominates(b)
}

// findSweeps recognises cleaning sweeps over recv.<field>.
func (m *builderModel) findSweeps() {
	m.sweeps = nil
	for _, l := range m.loops {
		ri, ok := core.AsRange(l)
		var idx ssa.Value
		var field string
		if ok && ri.Kind == "slice" {
			ld, isLd := ri.X.(*ssa.UnOp)
			if !isLd {
				continue
			}
			fa, isFA := ld.X.(*ssa.FieldAddr)
			if !isFA || fa.X != ssa.Value(m.recv) {
				continue
			}
			idx, field = ri.Index, core.FieldName(fa)
		} else if cnt, ok2 := core.AsCounted(l); ok2 && cnt.Step == 1 && cnt.Op == token.LSS {
			if z, isC := core.ConstInt(cnt.Init); !isC || z != 0 {
				continue
			}
			x, isLen := core.LenOf(cnt.Bound)
			if !isLen {
				continue
			}
			ld, isLd := x.(*ssa.UnOp)
			if !isLd {
				continue
			}
			fa, isFA := ld.X.(*ssa.FieldAddr)
			if !isFA || fa.X != ssa.Value(m.recv) {
				continue
			}
			idx, field = cnt.Phi, core.FieldName(fa)
		} else {
			continue
		}
		// the field must not be reassigned inside the loop
		reassigned := false
		for b := range l.Blocks {
			for _, in := range b.Instrs {
				if st, ok := in.(*ssa.Store); ok {
					if fa, ok := st.Addr.(*ssa.FieldAddr); ok && fa.X == ssa.Value(m.recv) && core.FieldName(fa) == field {
						reassigned = true
					}
				}
			}
		}
		if reassigned {
			continue
		}
		for b := range l.Blocks {
			for _, in := range b.Instrs {
				st, ok := in.(*ssa.Store)
				if !ok {
					continue
				}
				fa, ok := st.Addr.(*ssa.FieldAddr)
				if !ok {
					continue
				}
				ia, ok := fa.X.(*ssa.IndexAddr)
				if !ok || ia.Index != idx || !recvFieldLoad(ia.X, m.recv, field) {
					continue
				}
				if !m.cleanV(st.Val) {
					continue
				}
				// unconditional: the store's block dominates every latch
				uncond := true
				for _, la := range l.Latch {
					if !st.Block().Dominates(la) {
						uncond = false
					}
				}
				if uncond {
					m.sweeps = append(m.sweeps, &cleanSweep{l, field, core.FieldName(fa), st})
				}
			}
		}
	}
}

// cleanUnionCall: x = call(S).sub where the callee returns the union of the
// elements' sub-sets of S, S = recv.<field> after a cleaning sweep.
func (m *builderModel) cleanUnionCall(p *core.Program, c *ssa.Call, fld *ssa.Field) bool {
	f := core.StaticCallee(c)
	if f == nil || !p.InLib(f) || len(c.Call.Args) != 1 {
		return false
	}
	st, _ := fld.X.Type().Underlying().(*types.Struct)
	if st == nil {
		return false
	}
	sub := st.Field(fld.Field).Name()
	if !isUnionOfElems(f, sub) {
		return false
	}
	for _, sw := range m.sweeps {
		if sw.sub == sub && recvFieldLoad(c.Call.Args[0], m.recv, sw.field) && m.afterLoop(sw.loop, c.Block()) {
			return true
		}
	}
	return false
}

// isUnionOfElems: f(rs) returns a struct whose field sub is
// NewSet() ∪ rs[0].sub ∪ rs[1].sub ... (nothing else).
func isUnionOfElems(f *ssa.Function, sub string) bool {
	if f.Blocks == nil || len(f.Params) != 1 {
		return false
	}
	// accumulator form: the returned struct's sub field is phi(NewSet(), acc.Union(elem.sub))
	for _, ret := range core.Returns(f) {
		var setV ssa.Value
		if ld, ok := ret.Results[0].(*ssa.UnOp); ok {
			if al, ok := ld.X.(*ssa.Alloc); ok {
				if v := core.StructLiteral(al)[sub]; v != nil {
					setV = v
				}
			}
		}
		phi, ok := setV.(*ssa.Phi)
		if !ok {
			continue
		}
		okAcc := true
		nU := 0
		for _, e := range phi.Edges {
			if e == ssa.Value(phi) {
				continue
			}
			c, isC := e.(*ssa.Call)
			if !isC {
				okAcc = false
				continue
			}
			if g := core.StaticCallee(c); g != nil && g.String() == "github.com/deckarep/golang-set.NewSet" {
				continue
			}
			com := c.Common()
			if !com.IsInvoke() || com.Method.Name() != "Union" || com.Value != ssa.Value(phi) {
				okAcc = false
				continue
			}
			ref, okP := core.LoadPath(com.Args[0])
			if !okP || !strings.HasSuffix(ref.Path, "."+sub) {
				// value-level field of a loaded element
				if fl, isF := com.Args[0].(*ssa.Field); !isF || fl.X.Type().Underlying().(*types.Struct).Field(fl.Field).Name() != sub {
					okAcc = false
					continue
				}
			}
			nU++
		}
		if okAcc && nU >= 1 {
			return true
		}
	}
	// every set-typed value stored into a local struct's sub field is NewSet() or acc.Union(elem.sub)
	okAll := true
	n := 0
	core.Instrs(f, func(in ssa.Instruction) {
		st, ok := in.(*ssa.Store)
		if !ok {
			return
		}
		fa, ok := st.Addr.(*ssa.FieldAddr)
		if !ok || core.FieldName(fa) != sub || !isSetTyped(st.Val) {
			return
		}
		n++
		c, ok := st.Val.(*ssa.Call)
		if !ok {
			okAll = false
			return
		}
		if g := core.StaticCallee(c); g != nil && g.String() == "github.com/deckarep/golang-set.NewSet" {
			return
		}
		com := c.Common()
		if !com.IsInvoke() || com.Method.Name() != "Union" {
			okAll = false
			return
		}
		// operands are loads of .sub fields (of the accumulator or of an element copy)
		for _, o := range []ssa.Value{com.Value, com.Args[0]} {
			ref, ok := core.LoadPath(o)
			if !ok || !strings.HasSuffix(ref.Path, "."+sub) {
				okAll = false
			}
		}
	})
	return okAll && n >= 2
}

// ---- rule helpers used by C02/C03

// flagGuard: is block b guarded, within the class loop, by exactly
// (recv.<flagField> & key) != 0 and nothing else?
func (m *builderModel) flagGuard(b *ssa.BasicBlock, flagField string) bool {
	n := 0
	for _, g := range core.Guards(b) {
		if m.classRI.Loop.Blocks[g.If.Block()] && g.If.Block() != m.classRI.Loop.Header {
			n++
		}
	}
	if n != 1 {
		return false
	}
	for _, g := range core.Guards(b) {
		rel, ok := core.AsRel(g)
		if !ok || rel.Op != token.NEQ {
			continue
		}
		if z, isC := core.ConstUint(rel.Y); !isC || z != 0 {
			continue
		}
		and, ok := rel.X.(*ssa.BinOp)
		if !ok || and.Op != token.AND {
			continue
		}
		a, bb := and.X, and.Y
		if bb != m.classKey {
			a, bb = bb, a
		}
		if bb == m.classKey && recvFieldLoad(a, m.recv, flagField) {
			return true
		}
	}
	return false
}

// checkAccumulator verifies that acc (seeded with the custom string) gains
// exactly the class string under the given flag.
func (m *builderModel) checkAccumulator(p *core.Program, r *core.Report, rule string, acc *ssa.Phi, seedField, flagField string) {
	name := core.FuncName(m.fn)
	if acc == nil {
		r.Fail(rule, name, "accumulator seeded with "+seedField, p.Pos(m.fn.Pos()), "no string accumulator over the class table starts from the recipe's "+seedField)
		return
	}
	pos := p.InstrPos(acc)
	adds := 0
	var visit func(v ssa.Value, depth int) bool
	seen := map[ssa.Value]bool{}
	visit = func(v ssa.Value, depth int) bool {
		if seen[v] || depth > 8 {
			return true
		}
		seen[v] = true
		if v == ssa.Value(acc) {
			return true
		}
		switch x := v.(type) {
		case *ssa.Phi:
			for _, e := range x.Edges {
				if !visit(e, depth+1) {
					return false
				}
			}
			return true
		case *ssa.BinOp:
			if x.Op != token.ADD {
				return false
			}
			base, add := x.X, x.Y
			if !visit(base, depth+1) {
				return false
			}
			if add != m.classVal {
				r.Fail(rule, name, seedField+" accumulator gains something other than the class string", p.InstrPos(x), core.Describe(add))
				return true
			}
			adds++
			r.Check(m.flagGuard(x.Block(), flagField), rule, name, "class string joins the "+seedField+" accumulator iff "+flagField+"&flag != 0", p.InstrPos(x), "")
			return true
		}
		return false
	}
	l := m.classRI.Loop
	for i, e := range acc.Edges {
		if !l.Blocks[acc.Block().Preds[i]] {
			continue
		}
		if !visit(e, 0) {
			r.Fail(rule, name, seedField+" accumulator has an unrecognised update", pos, core.Describe(e))
		}
	}
	r.Check(adds >= 1, rule, name, flagField+" classes are expanded through the class table", pos, fmt.Sprintf("%d guarded addition(s)", adds))
}
