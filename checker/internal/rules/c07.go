package rules

import (
	"fmt"
	"go/token"
	"go/types"
	"strings"

	"golang.org/x/tools/go/ssa"

	"spgverif/internal/core"
)

func init() {
	register(&Property{
		Meta: core.PropertyMeta{
			ID: "C07",
			Explanation: "Partial. The numeric equality itself is not evaluated; what is decided is that the counting code is an *instance of a " +
				"counting schema whose exactness is proven once on paper for every family of required sets and every length*, that it is fed " +
				"exactly the builder's sets and the recipe's Length, that the logarithm of the (arbitrarily large) integer is taken by the " +
				"mantissa/exponent split of that very integer, that the simple path is taken iff nothing is required, and that Entropy() is pure " +
				"(same value on every call). Lemma (inclusion-exclusion): for finite sets R and Q_1..Q_k, the number of length-L strings over R " +
				"that contain a character of every Q_i is the sum over all sub-families S of (-1)^|S| * |R minus the union of S|^L; this " +
				"holds whatever the overlaps between the Q_i or with the rest of R, is 0 exactly when no string qualifies, and is never negative. " +
				"Schema S-IE: an exact big-integer accumulator, one full iteration of the power set of the required family, per sub-family S the " +
				"term |R - union(S)|^Length added iff |S| is even and subtracted iff odd, R = union of the allowed and all required sets. The " +
				"schema S-PART (|R|^L minus the counts of all proper sub-families, the pinned tree's recursion) is exact only for pairwise " +
				"disjoint required sets and is therefore reported unless the builder makes them disjoint.",
			Rules: []string{
				"R7.1 counting schema: the count function is an instance of S-IE (table above); S-PART is reported: it yields wrong counts (negative -> NaN) for overlapping required sets, which the builder does not exclude",
				"R7.2 wiring: the count is taken over allowed = {the builder's allowed set}, required = {the set of every element of the builder's required sets}, length = Length, all read from the copy the builder just prepared",
				"R7.3 log2 of a big integer: result = float32(math.Log2(mantissa) + float64(exponent)) with (mantissa, exponent) = MantExp of big.Float.SetInt(count)",
				"R7.4 simple path iff nothing required (= C06 R6.4)",
				"R7.5 same value on every call: Entropy() writes no shared memory (EFF)",
				"R7.6 helpers: union-of-members helper is NewSet() united with every member set; toBigInt is big.NewInt(int64(i))",
				"R7.7 the sets counted over are the recipe's: the builder derives allowed/required/excluded from the public fields as C03 R3.x requires (borrowed)",
			},
			Trusted: append([]string{"math/big (Exp, Add, Sub, SetInt, MantExp) and math.Log2 are exact / correctly rounded as documented",
				"golang-set: PowerSet enumerates every sub-family once; Union/Difference/Cardinality are correct; Iter yields every element once",
				"the paper lemma (inclusion-exclusion)"}, commonTrusted...),
			NotDecided: []string{"the float32/float64 rounding of the final value (\"to float32 precision\")", "numeric agreement for any particular recipe (not evaluated)"},
		},
		Run: func(p *core.Program, r *core.Report) {
			runC07(p, r)
			// "the strings that satisfy the recipe": the sets the count ranges over are the recipe's own
			// Allow/Require/Exclude semantics only if the builder derives them as C03 says (= C03 R3.x re-run;
			// not part of runC07 so that C06/C13, which re-run runC07, do not inherit it)
			r.Borrow("R7.7", func() {
				checkAlphabetBuilder(p, r)
				// the count is over set members: they are the characters only if every member is one character
				checkAlphabetProvenance(p, r, "R2.1")
			})
			// … and a class flag stands for its documented characters (= C16 R16.1 class-table rules)
			borrowSelected(p, r, runC16, "R7.7", func(o core.Obligation) bool { return o.Rule == "R16.1" && strings.HasPrefix(o.Construct, "class ") || o.Rule == "R16.6" && mentionsVar(o.Construct, classTableName(p)) })
		},
	})
}

func runC07(p *core.Program, r *core.Report) {
	ent := p.Method("CharRecipe", "Entropy")
	if ent == nil {
		r.Unrecognised("R7.1", "CharRecipe.Entropy", "method", "", "not found")
		return
	}
	// R7.4
	checkCharEntropy7(p, r)
	// the counting path: the non-simple call in Entropy
	var logFn *ssa.Function
	for _, ret := range core.Returns(ent) {
		if c, ok := stripFloatConv(ret.Results[0]).(*ssa.Call); ok && !isEntropySimpleCall(p, c) {
			if f := core.StaticCallee(c); f != nil && p.InLib(f) {
				logFn = f
			}
		}
	}
	if logFn == nil {
		r.Unrecognised("R7.3", core.FuncName(ent), "counting path of Entropy()", p.Pos(ent.Pos()), "no call other than the simple term is returned")
		return
	}
	countCall := checkLog2Split(p, r, logFn)
	if countCall == nil {
		return
	}
	wire := core.StaticCallee(countCall)
	if wire == nil || !p.InLib(wire) {
		r.Unrecognised("R7.2", core.FuncName(logFn), "count function", p.InstrPos(countCall), "count is not produced by a library function")
		return
	}
	if core7, a, rq, l, ok := checkCountWiring(p, r, wire); ok {
		checkCountingSchemaOn(p, r, core7, a, rq, l)
	}

	// R7.5
	eff := core.GetEff(p)
	n := 0
	for _, ef := range eff.Writes(ent) {
		n++
		r.Fail("R7.5", core.FuncName(ent), ef.What+" -> "+ef.Root.String(), p.InstrPos(ef.Instr), "Entropy() modifies state that outlives the call: later calls may differ")
	}
	if n == 0 {
		r.Pass("R7.5", core.FuncName(ent), "Entropy() writes no shared memory (same value on every call)", p.Pos(ent.Pos()), "")
	}
}

func checkCharEntropy7(p *core.Program, r *core.Report) {
	// reuse C06's rule under this property's id by running it on a scratch report
	tmp := core.NewReport("C07", p)
	checkCharEntropy(p, tmp)
	for _, o := range tmp.Obs {
		r.Check(o.Status == core.Discharged, "R7.4", o.Func, o.Construct, o.Pos, o.Detail)
	}
}

// checkLog2Split: R7.3 on f; returns the call producing the big integer.
func checkLog2Split(p *core.Program, r *core.Report, f *ssa.Function) *ssa.Call {
	name := core.FuncName(f)
	rets := core.Returns(f)
	if len(rets) != 1 {
		r.Unrecognised("R7.3", name, "single return", p.Pos(f.Pos()), "")
		return nil
	}
	pos := p.InstrPos(rets[0])
	sum, ok := stripFloatConv(rets[0].Results[0]).(*ssa.BinOp)
	if !ok || sum.Op != token.ADD {
		r.Fail("R7.3", name, "result is log2(mantissa) + exponent", pos, core.Describe(rets[0].Results[0]))
		return nil
	}
	var lg *ssa.Call
	var expV ssa.Value
	for _, side := range []ssa.Value{sum.X, sum.Y} {
		if c, ok := stripFloatConv(side).(*ssa.Call); ok && core.CallName(c) == "math.Log2" {
			lg = c
		} else {
			expV = side
		}
	}
	if lg == nil || expV == nil {
		r.Fail("R7.3", name, "result is log2(mantissa) + exponent", pos, "no math.Log2 term")
		return nil
	}
	// exponent = float64(MantExp(F, M))
	cv, ok := stripFloatConv(expV).(*ssa.Convert)
	var me *ssa.Call
	if ok {
		me, _ = cv.X.(*ssa.Call)
	}
	if me == nil || core.CallName(me) != "(*math/big.Float).MantExp" {
		r.Fail("R7.3", name, "exponent comes from big.Float.MantExp", pos, core.Describe(expV))
		return nil
	}
	F, M := me.Call.Args[0], me.Call.Args[1]
	// mantissa = extract #0 of M.Float64()
	okM := false
	if ex, ok := lg.Call.Args[0].(*ssa.Extract); ok && ex.Index == 0 {
		if fc, ok := ex.Tuple.(*ssa.Call); ok && core.CallName(fc) == "(*math/big.Float).Float64" && fc.Call.Args[0] == M && core.InstrDominates(me, fc) {
			okM = true
		}
	}
	r.Check(okM, "R7.3", name, "the mantissa passed to Log2 is the one MantExp produced (read after the call)", pos, "")
	// F = SetInt(_, count)
	si, ok := F.(*ssa.Call)
	if !ok || core.CallName(si) != "(*math/big.Float).SetInt" {
		r.Fail("R7.3", name, "the big float is SetInt(count)", pos, core.Describe(F))
		return nil
	}
	cnt, ok := si.Call.Args[1].(*ssa.Call)
	if !ok {
		r.Fail("R7.3", name, "count is the result of the counting function", pos, core.Describe(si.Call.Args[1]))
		return nil
	}
	r.Pass("R7.3", name, "log2(count) = log2(mantissa) + exponent of big.Float.SetInt(count)", pos, "no float64 overflow for counts beyond 2^1024")
	return cnt
}

// checkCountWiring: R7.2 on the recipe-level count function; returns the function
// holding the counting schema and the values that play allowed/required/length
// in it: the parameters of count(allowed, required, length) when the recipe-level
// function calls one, or — when the counting is written (or expanded) in the
// recipe-level function itself — the two families united for the universe and
// the exponent.
func checkCountWiring(p *core.Program, r *core.Report, f *ssa.Function) (*ssa.Function, ssa.Value, ssa.Value, ssa.Value, bool) {
	name := core.FuncName(f)
	rets := core.Returns(f)
	if len(rets) != 1 {
		r.Unrecognised("R7.2", name, "single return", p.Pos(f.Pos()), "")
		return nil, nil, nil, nil, false
	}
	var allowed, required, length ssa.Value
	var callee *ssa.Function
	var at ssa.Instruction = rets[0]
	c, ok := rets[0].Results[0].(*ssa.Call)
	if ok && len(c.Call.Args) == 3 && core.StaticCallee(c) != nil {
		allowed, required, length = c.Call.Args[0], c.Call.Args[1], c.Call.Args[2]
		callee = core.StaticCallee(c)
		at = c
	} else if a, rq, l, found := discoverCountOperands(p, f); found {
		allowed, required, length = a, rq, l
	} else {
		r.Unrecognised("R7.2", name, "calls count(allowed, required, length)", p.InstrPos(rets[0]), core.Describe(rets[0].Results[0]))
		return nil, nil, nil, nil, false
	}
	pos := p.InstrPos(at)
	isRecv := func(root ssa.Value) bool { return isRecipeReceiver(p, root, 0) }
	recvOK := func(v ssa.Value, path string) bool {
		ref, ok := core.LoadPath(v)
		if !ok {
			return false
		}
		return isRecv(ref.Root) && ref.Path == path
	}
	// allowed: NewSet() with exactly one Add of the recipe's set-typed field
	addsOf := func(set ssa.Value) []ssa.Value {
		var out []ssa.Value
		for _, ref := range core.Referrers(set) {
			if cc, ok := ref.(*ssa.Call); ok && cc.Common().IsInvoke() && cc.Common().Value == set && cc.Common().Method.Name() == "Add" {
				out = append(out, core.StripType(cc.Common().Args[0]))
			}
		}
		return out
	}
	isNewSet := func(v ssa.Value) bool {
		cc, ok := v.(*ssa.Call)
		return ok && core.CallName(cc) == "github.com/deckarep/golang-set.NewSet"
	}
	aAdds := addsOf(allowed)
	okA := isNewSet(allowed) && len(aAdds) == 1
	if okA {
		ref, okP := core.LoadPath(aAdds[0])
		okA = okP && strings.Count(ref.Path, ".") == 1 && isSetTyped(aAdds[0])
		if !isRecv(ref.Root) {
			okA = false
		}
	}
	r.Check(okA, "R7.2", name, "allowed family is exactly {the recipe's allowed set}", pos, "")
	// required: NewSet() with one Add per element of the required-sets slice (full range sweep), adding the element's set
	rAdds := addsOf(required)
	okR := isNewSet(required) && len(rAdds) == 1
	if okR {
		okR = false
		var addCall *ssa.Call
		for _, ref := range core.Referrers(required) {
			if cc, ok := ref.(*ssa.Call); ok && cc.Common().IsInvoke() && cc.Common().Method.Name() == "Add" {
				addCall = cc
			}
		}
		if l := core.InnermostLoop(core.Loops(f), addCall.Block()); l != nil {
			ri, ok := core.AsRange(l)
			if !ok {
				// counted spelling: for i := 0; i < len(S); i++
				if cnt, isC := core.AsCounted(l); isC && cnt.Step == 1 && cnt.Op == token.LSS {
					if z, isZ := core.ConstInt(cnt.Init); isZ && z == 0 {
						if x, isLen := core.LenOf(cnt.Bound); isLen {
							ri, ok = &core.RangeInfo{Loop: l, Kind: "slice", X: x, Index: cnt.Phi}, true
						}
					}
				}
			}
			if ok && ri.Kind == "slice" && recvOK(ri.X, "."+requiredSetsField(p)) {
				// the added set is the set field of the element at the range index (possibly through a local copy)
				root, path, okP := valueAccessPath(rAdds[0])
				if okP && len(path) == 1 {
					if al, isAl := root.(*ssa.Alloc); isAl {
						for _, rr := range core.Referrers(al) {
							if st, ok := rr.(*ssa.Store); ok && st.Addr == al {
								if ld, ok := st.Val.(*ssa.UnOp); ok {
									if ia, ok := ld.X.(*ssa.IndexAddr); ok && sameSliceLoad(ia.X, ri.X) && ia.Index == ri.Index {
										okR = true
									}
								}
							}
						}
					}
				}
				if ld, ok := rAdds[0].(*ssa.UnOp); ok {
					if fa, ok := ld.X.(*ssa.FieldAddr); ok {
						if ia, ok := fa.X.(*ssa.IndexAddr); ok && sameSliceLoad(ia.X, ri.X) && ia.Index == ri.Index {
							okR = true
						}
					}
				}
				uncond := true
				for _, la := range l.Latch {
					if !addCall.Block().Dominates(la) {
						uncond = false
					}
				}
				okR = okR && uncond
			}
		}
	}
	r.Check(okR, "R7.2", name, "required family is exactly {the set of every element of the recipe's required sets} (full sweep)", pos, "")
	r.Check(recvOK(length, ".Length"), "R7.2", name, "length is the recipe's Length", pos, core.Describe(length))
	if callee != nil {
		if callee.Blocks == nil || len(callee.Params) != 3 {
			r.Unrecognised("R7.1", core.FuncName(callee), "count(allowed, required, length)", p.Pos(callee.Pos()), "unexpected signature")
			return nil, nil, nil, nil, false
		}
		return callee, callee.Params[0], callee.Params[1], callee.Params[2], true
	}
	return f, allowed, required, length, true
}

// discoverCountOperands: in a function that does the counting itself, the two
// families are the operands of the Union whose members are united for the
// universe (the required one is the receiver of PowerSet), and the length is
// the exponent of the exact power.
func discoverCountOperands(p *core.Program, f *ssa.Function) (allowed, required, length ssa.Value, ok bool) {
	var a, b ssa.Value
	for _, c := range core.Calls(f) {
		cv, isC := c.(*ssa.Call)
		if !isC {
			continue
		}
		if cv.Common().IsInvoke() && cv.Common().Method.Name() == "PowerSet" {
			required = cv.Common().Value
		}
		if len(cv.Call.Args) == 1 && !cv.Common().IsInvoke() {
			if u, isU := cv.Call.Args[0].(*ssa.Call); isU && u.Common().IsInvoke() && u.Common().Method.Name() == "Union" {
				a, b = u.Common().Value, u.Common().Args[0]
			}
		}
		if core.CallName(c) == "(*math/big.Int).Exp" && len(cv.Call.Args) == 4 {
			if tb, isTB := cv.Call.Args[2].(*ssa.Call); isTB && len(tb.Call.Args) == 1 {
				length = core.Strip(tb.Call.Args[0])
				if in, isIn := tb.Call.Args[0].(*ssa.Convert); isIn {
					length = in.X
				}
			}
		}
	}
	if a == nil || required == nil || length == nil {
		return nil, nil, nil, false
	}
	switch required {
	case a:
		allowed = b
	case b:
		allowed = a
	default:
		return nil, nil, nil, false
	}
	return allowed, required, length, true
}

// sameSliceLoad: the same SSA value, or two loads of the same field path of the same (unmodified) receiver copy.
func sameSliceLoad(a, b ssa.Value) bool {
	if a == b {
		return true
	}
	ra, pa, ok1 := valueAccessPath(a)
	rb, pb, ok2 := valueAccessPath(b)
	return ok1 && ok2 && ra == rb && strings.Join(pa, ".") == strings.Join(pb, ".") && stableRoot(ra)
}

// checkCountingSchema: R7.1 / R7.6 on count(allowed, required, length).
func checkCountingSchemaOn(p *core.Program, r *core.Report, f *ssa.Function, allowed, required, length ssa.Value) {
	name := core.FuncName(f)
	pos := p.Pos(f.Pos())
	// S-PART: the function (or a closure of it) calls itself
	recursive := false
	var visit func(g *ssa.Function)
	visit = func(g *ssa.Function) {
		for _, c := range core.Calls(g) {
			if core.StaticCallee(c) == f {
				recursive = true
			}
		}
		for _, a := range g.AnonFuncs {
			visit(a)
		}
	}
	visit(f)
	if recursive {
		r.Fail("R7.1", name, "counting recursion over proper sub-families (schema S-PART) needs pairwise-disjoint required sets", pos,
			"the count is |R|^L minus the counts of all proper sub-families of the required sets; that equals the number of satisfying strings only when the required sets are pairwise disjoint, "+
				"which the alphabet builder does not establish (it only removes required characters from the allowed set). For overlapping sets the result is wrong and can be negative: "+
				"Allow: Letters, Require: Digits, RequireSets: {\"357\"} gives NaN; RequireSets {\"ab\",\"bc\"}, Length 2 gives 0 bits instead of log2(7)")
		return
	}
	rets := core.Returns(f)
	if len(rets) != 1 {
		r.Unrecognised("R7.1", name, "single return of the accumulator", pos, "")
		return
	}
	acc, ok := rets[0].Results[0].(*ssa.Alloc)
	if !ok || !acc.Heap || !strings.HasSuffix(acc.Type().String(), "math/big.Int") {
		r.Unrecognised("R7.1", name, "result is a fresh exact integer accumulator (&big.Int{})", p.InstrPos(rets[0]), "returned value "+core.Describe(rets[0].Results[0])+" matches no counting schema")
		return
	}
	// R = U(allowed.Union(required))
	var R ssa.Value
	var unionHelper *ssa.Function
	for _, c := range core.Calls(f) {
		cv, ok := c.(*ssa.Call)
		if !ok || len(cv.Call.Args) != 1 {
			continue
		}
		if u, ok := cv.Call.Args[0].(*ssa.Call); ok && u.Common().IsInvoke() && u.Common().Method.Name() == "Union" {
			a, b := u.Common().Value, u.Common().Args[0]
			if (a == allowed && b == required) || (a == required && b == allowed) {
				R = cv
				unionHelper = core.StaticCallee(cv)
			}
		}
	}
	if R == nil || unionHelper == nil {
		r.Fail("R7.1", name, "R = union of every member of allowed ∪ required", pos, "not found")
		return
	}
	okU, whyU := isUnionOfMembers(unionHelper)
	r.Check(okU, "R7.6", core.FuncName(unionHelper), "union-of-members helper: NewSet() united with every member that is a set", p.Pos(unionHelper.Pos()), whyU)
	// loop: range over required.PowerSet().Iter()
	var loop *core.Loop
	var ri *core.RangeInfo
	for _, l := range core.Loops(f) {
		x, ok := core.AsRange(l)
		if !ok || x.Kind != "chan" {
			continue
		}
		it, ok := x.X.(*ssa.Call)
		if !ok || !it.Common().IsInvoke() || it.Common().Method.Name() != "Iter" {
			continue
		}
		ps, ok := it.Common().Value.(*ssa.Call)
		if ok && ps.Common().IsInvoke() && ps.Common().Method.Name() == "PowerSet" && ps.Common().Value == required {
			loop, ri = l, x
		}
	}
	if loop == nil {
		r.Fail("R7.1", name, "one full iteration over the power set of the required family", pos, "no `for S := range required.PowerSet().Iter()` loop")
		return
	}
	_ = ri
	// the sub-family value: comma-ok type assertion of the received element
	var S ssa.Value
	for b := range loop.Blocks {
		for _, in := range b.Instrs {
			if ex, ok := in.(*ssa.Extract); ok && ex.Index == 0 {
				if ta, ok := ex.Tuple.(*ssa.TypeAssert); ok && ta.CommaOk && isSetTyped(ex) {
					S = ex
				}
			}
			if ta, ok := in.(*ssa.TypeAssert); ok && !ta.CommaOk && isSetTyped(ta) {
				S = ta
			}
		}
	}
	if S == nil {
		r.Fail("R7.1", name, "each power-set element is taken as a sub-family (set of sets)", pos, "")
		return
	}
	// updates of the accumulator in the loop
	type upd struct {
		call *ssa.Call
		op   string
	}
	var upds []upd
	seenCall := map[*ssa.Call]bool{}
	for _, ref := range core.Referrers(acc) {
		c, ok := ref.(*ssa.Call)
		if !ok || seenCall[c] {
			continue
		}
		seenCall[c] = true
		switch core.CallName(c) {
		case "(*math/big.Int).Add":
			upds = append(upds, upd{c, "add"})
		case "(*math/big.Int).Sub":
			upds = append(upds, upd{c, "sub"})
		default:
			r.Fail("R7.1", name, "accumulator is only updated by exact Add/Sub", p.InstrPos(c), core.CallName(c))
		}
	}
	if len(upds) != 2 {
		r.Fail("R7.1", name, "exactly one Add and one Sub of the term per sub-family", pos, fmt.Sprintf("%d accumulator updates", len(upds)))
		return
	}
	var term ssa.Value
	for _, u := range upds {
		c := u.call
		upos := p.InstrPos(c)
		okForm := len(c.Call.Args) == 3 && c.Call.Args[0] == ssa.Value(acc) && c.Call.Args[1] == ssa.Value(acc) && loop.Blocks[c.Block()]
		r.Check(okForm, "R7.1", name, "update is acc = acc "+map[string]string{"add": "+", "sub": "-"}[u.op]+" term, inside the loop", upos, c.String())
		if !okForm {
			return
		}
		if term != nil && term != c.Call.Args[2] {
			r.Fail("R7.1", name, "Add and Sub use the same term", upos, "")
			return
		}
		term = c.Call.Args[2]
		// sign: guarded by |S| % 2 == 1 (sub) / its negation (add), and nothing else inside the loop except the assertion's ok
		par, okPar := -1, false
		ng := 0
		for _, g := range core.Guards(c.Block()) {
			if !loop.Blocks[g.If.Block()] || g.If.Block() == loop.Header {
				continue
			}
			// the comma-ok of the type assertion
			if ex, ok := g.Cond.(*ssa.Extract); ok && ex.Index == 1 {
				if _, isTA := ex.Tuple.(*ssa.TypeAssert); isTA && g.Pos {
					continue
				}
			}
			ng++
			rel, ok := core.AsRel(g)
			if !ok {
				continue
			}
			rem, ok := rel.X.(*ssa.BinOp)
			if !ok || rem.Op != token.REM {
				continue
			}
			if k, isC := core.ConstInt(rem.Y); !isC || k != 2 {
				continue
			}
			card, ok := rem.X.(*ssa.Call)
			if !ok || !card.Common().IsInvoke() || card.Common().Method.Name() != "Cardinality" || card.Common().Value != S {
				continue
			}
			k, isC := core.ConstInt(rel.Y)
			if !isC {
				continue
			}
			switch {
			case rel.Op == token.EQL && k == 1, rel.Op == token.NEQ && k == 0:
				par, okPar = 1, true
			case rel.Op == token.EQL && k == 0, rel.Op == token.NEQ && k == 1:
				par, okPar = 0, true
			}
		}
		want := map[string]int{"add": 0, "sub": 1}[u.op]
		r.Check(okPar && par == want && ng == 1, "R7.1", name, "term is "+map[string]string{"add": "added iff |S| is even", "sub": "subtracted iff |S| is odd"}[u.op], upos,
			fmt.Sprintf("parity guard recognised=%v parity=%d extra guards=%d", okPar, par, ng-1))
	}
	// term = new(big.Int).Exp(_, toBigInt(card(R.Difference(U(S)))), toBigInt(length), nil)
	var exp *ssa.Call
	for _, ref := range core.Referrers(term) {
		if c, ok := ref.(*ssa.Call); ok && core.CallName(c) == "(*math/big.Int).Exp" && c.Call.Args[0] == term {
			exp = c
		}
	}
	if e2, ok := term.(*ssa.Call); ok && core.CallName(e2) == "(*math/big.Int).Exp" {
		exp = e2
	}
	if exp == nil {
		r.Fail("R7.1", name, "term is an exact power |R - union(S)|^Length", pos, "no big.Int.Exp producing the term")
		return
	}
	epos := p.InstrPos(exp)
	r.Check(core.IsNilConst(exp.Call.Args[3]), "R7.1", name, "the power is not reduced modulo anything", epos, "")
	base, ok1 := bigOfInt(p, r, exp.Call.Args[1])
	ex, ok2 := bigOfInt(p, r, exp.Call.Args[2])
	r.Check(ok2 && ex == length, "R7.1", name, "exponent is the length parameter", epos, "")
	okBase := false
	if ok1 {
		if card, ok := base.(*ssa.Call); ok && card.Common().IsInvoke() && card.Common().Method.Name() == "Cardinality" {
			if df, ok := card.Common().Value.(*ssa.Call); ok && df.Common().IsInvoke() && df.Common().Method.Name() == "Difference" && df.Common().Value == R {
				if us, ok := df.Common().Args[0].(*ssa.Call); ok && core.StaticCallee(us) == unionHelper && us.Call.Args[0] == S {
					okBase = true
				}
			}
		}
	}
	r.Check(okBase, "R7.1", name, "base is |R - union of the sub-family's sets|", epos, core.Describe(exp.Call.Args[1]))
	// each term computed per iteration (in the loop), every iteration reaches exactly one update
	r.Check(loop.Blocks[exp.Block()], "R7.1", name, "the term is computed afresh for every sub-family", epos, "")
	r.Pass("R7.1", name, "count function is an instance of schema S-IE (inclusion-exclusion over the power set of the required family)", pos, "exact for overlapping required sets by the lemma")
}

// bigOfInt: v = toBigInt(x) with toBigInt(i) = big.NewInt(int64(i)); returns x.
func bigOfInt(p *core.Program, r *core.Report, v ssa.Value) (ssa.Value, bool) {
	c, ok := v.(*ssa.Call)
	if !ok || len(c.Call.Args) != 1 {
		return nil, false
	}
	if core.CallName(c) == "math/big.NewInt" {
		if cv, ok := c.Call.Args[0].(*ssa.Convert); ok {
			return cv.X, true
		}
		return c.Call.Args[0], true
	}
	f := core.StaticCallee(c)
	if f == nil || !p.InLib(f) || f.Blocks == nil || len(f.Params) != 1 {
		return nil, false
	}
	rets := core.Returns(f)
	if len(rets) != 1 {
		return nil, false
	}
	nc, ok := rets[0].Results[0].(*ssa.Call)
	if !ok || core.CallName(nc) != "math/big.NewInt" {
		return nil, false
	}
	cv, ok := nc.Call.Args[0].(*ssa.Convert)
	if !ok || cv.X != ssa.Value(f.Params[0]) {
		return nil, false
	}
	if b, ok := cv.Type().Underlying().(*types.Basic); !ok || b.Kind() != types.Int64 {
		return nil, false
	}
	return c.Call.Args[0], true
}

// isUnionOfMembers: f(elements) = NewSet() ∪ every member of elements that is a Set.
func isUnionOfMembers(f *ssa.Function) (bool, string) {
	if f.Blocks == nil || len(f.Params) != 1 {
		return false, "no body"
	}
	rets := core.Returns(f)
	if len(rets) != 1 {
		return false, "several returns"
	}
	phi, ok := rets[0].Results[0].(*ssa.Phi)
	if !ok {
		return false, "result is not an accumulator"
	}
	var loop *core.Loop
	for _, l := range core.Loops(f) {
		if l.Header == phi.Block() {
			loop = l
		}
	}
	if loop == nil {
		return false, "accumulator not loop-carried"
	}
	ri, ok := core.AsRange(loop)
	if !ok || ri.Kind != "chan" {
		return false, "not a range over the members' iterator"
	}
	it, ok := ri.X.(*ssa.Call)
	if !ok || !it.Common().IsInvoke() || it.Common().Method.Name() != "Iter" || it.Common().Value != ssa.Value(f.Params[0]) {
		return false, "iterated channel is not elements.Iter()"
	}
	for i, e := range phi.Edges {
		if !loop.Blocks[phi.Block().Preds[i]] {
			c, ok := e.(*ssa.Call)
			if !ok || core.CallName(c) != "github.com/deckarep/golang-set.NewSet" {
				return false, "accumulator does not start as an empty set"
			}
			continue
		}
		if e == ssa.Value(phi) {
			continue
		}
		u, ok := e.(*ssa.Call)
		if !ok || !u.Common().IsInvoke() || u.Common().Method.Name() != "Union" || u.Common().Value != ssa.Value(phi) {
			return false, "update is not acc.Union(member)"
		}
		// member = type-asserted received element
		m := u.Common().Args[0]
		if ex, ok := m.(*ssa.Extract); ok {
			m = ex.Tuple
		}
		ta, ok := m.(*ssa.TypeAssert)
		if !ok {
			return false, "united value is not the iterated member"
		}
		if ex, ok := ta.X.(*ssa.Extract); !ok || ex.Index != 0 {
			return false, "united value is not the received element"
		}
	}
	return true, ""
}

// isRecipeReceiver: root is the function's own copy of its value receiver, or its pointer receiver
// when every in-module caller passes the address of *its* receiver copy or its own such pointer
// receiver (an unexported method switched from value to pointer receiver still reads the copy the
// exported entry point made).
func isRecipeReceiver(p *core.Program, root ssa.Value, depth int) bool {
	switch x := root.(type) {
	case *ssa.Alloc:
		return paramCopiedInto(x) == 0
	case *ssa.Parameter:
		if depth > 4 || paramIndex(x) != 0 {
			return false
		}
		if _, isPtr := x.Type().Underlying().(*types.Pointer); !isPtr {
			return false
		}
		callers := p.Callers(x.Parent())
		if len(callers) == 0 {
			return false
		}
		for _, c := range callers {
			if !p.InLib(c.Parent()) {
				return false
			}
			args := c.Common().Args
			if len(args) == 0 || !isRecipeReceiver(p, core.StripType(args[0]), depth+1) {
				return false
			}
		}
		return true
	}
	return false
}
