package rules

import (
	"fmt"
	"go/token"
	"go/types"

	"golang.org/x/tools/go/ssa"

	"spgverif/internal/core"
)

func init() {
	register(&Property{
		Meta: core.PropertyMeta{
			ID: "C01",
			Explanation: "Decides that the bounded-draw routine is an instance of a rejection-sampling schema whose exact uniformity " +
				"(for every n in [1,2^32) and all 2^32 raw words) and >1/2 acceptance are proven once on paper (lemma below), that the raw " +
				"word is exactly 4 fully-read CSPRNG bytes combined bijectively, and that no module function consumes a raw word other than " +
				"through such a schema instance. Lemma: S-pow2 (n=2^k, raw&(n-1)) gives each residue 2^(32-k) preimages, never rejects. " +
				"S-hi (T=M-M%n or (M/n)*n with M=2^32-1, accept v<T, return v%n): T=n*floor(M/n), so [0,T) holds each residue exactly floor(M/n) " +
				"times; redraws are fresh independent words; for n not a power of two T>2^31 so more than half of the words are accepted. " +
				"S-lo (t=(-n)%n, accept v>=t) accepts 2^32-(2^32 mod n) values, a multiple of n. S-one: n==1 returns 0. " +
				"S-lemire (p=uint64(v)*uint64(n), accept low32(p) >= t=(-n)%n, return high32(p)): for each r the words with high32(p)=r are those with v*n in [r*2^32,(r+1)*2^32); their low halves are the multiples-of-n offsets in that window, of which exactly floor(2^32/n) are >= t (Lemire 2019, lemma 4.1); the shortcut low>=n is sound because t<n; acceptance is (2^32-t)/2^32 > 1/2.",
			Rules: []string{
				"R1.1 raw-word well-formedness: result = bijective combination (binary.{Big,Little}Endian.Uint32 or shift/or tree using each byte once) of a 4-byte buffer allocated in the function, filled by crypto/rand.Read / io.ReadFull(rand.Reader) on the full buffer, used only on the err==nil edge, returned without further arithmetic, type uint32",
				"R1.2 who-may-consume: every module function that calls or references a raw-word function must itself be a schema instance (R1.3); only raw-word functions reference crypto/rand",
				"R1.3 schema instance: every return of a bounded-draw function is guarded by n>=1 and matches one of S-pow2, S-hi, S-lo, S-lemire, S-one exactly (strict comparison, mask n-1, threshold from the table, every reaching definition of the tested word a fresh raw call)",
				"R1.4 floors: >=1 raw-word function, >=1 bounded-draw function, >=4 live draw sites",
			},
			Trusted:    append([]string{"crypto/rand.Read fills the whole buffer iff err==nil; encoding/binary Uint32 is a bijection of 4 bytes", "the paper lemma (schema => exactly uniform, acceptance > 1/2)"}, commonTrusted...),
			NotDecided: []string{"behaviour of compiled code and of crypto/rand itself", "the bound passed by each caller (C02/C04)"},
		},
		Run: runC01,
	})
}

func runC01(p *core.Program, r *core.Report) {
	roles := GetRoles(p)
	live := liveFuncs(p)
	nLive := 0
	for _, s := range roles.ChoiceSites {
		if live[s.Parent()] {
			nLive++
		}
	}
	for f := range roles.PickHelpers {
		r.Note("uniform-pick helper %s (bound = len of the indexed parameter, by construction)", core.FuncName(f))
	}
	r.Floor("R1.4", "raw-word functions", len(roles.RawWord), 1)
	r.Floor("R1.4", "bounded-draw functions", len(roles.BoundedDraw), 1)
	r.Floor("R1.4", "live choice sites (draws and uniform picks)", nLive, 4)
	r.Count("draw sites (all)", len(roles.DrawSites))
	for _, s := range roles.DrawSites {
		r.Note("draw site %s in %s (live=%v)", p.InstrPos(s), core.FuncName(s.Parent()), live[s.Parent()])
	}

	checkDrawRoutines(p, r, "R1.1", "R1.2", "R1.3")
}

// checkDrawRoutines applies the raw-word and schema rules to every function in
// those roles, reporting under the given rule ids. Properties whose argument
// rests on "every bounded draw is exactly uniform" (C02, C04, C06) re-run it
// under their own rule id so that a biased draw routine introduced anywhere is
// reported by them too, not only by C01.
func checkDrawRoutines(p *core.Program, r *core.Report, r11, r12, r13 string) {
	roles := GetRoles(p)
	for _, fn := range roles.RawWord {
		checkRawWord(p, r, fn, r11)
	}
	for _, fn := range roles.BoundedDraw {
		checkSchema(p, r, roles, fn, r12, r13)
	}
}

// checkRawWord verifies R1.1 on a raw-word function. rule is the rule id to
// report under (C09 reuses parts of it).
func checkRawWord(p *core.Program, r *core.Report, fn *ssa.Function, rule string) {
	name := core.FuncName(fn)
	pos := p.Pos(fn.Pos())
	sig := fn.Signature
	if sig.Results().Len() != 1 || !isUint32(sig.Results().At(0).Type()) || sig.Params().Len() != 0 {
		r.Unrecognised(rule, name, "signature", pos, "raw-word function must be func() uint32, is "+sig.String())
		return
	}
	// the unique read call
	var reads []*ssa.Call
	var buf ssa.Value
	for _, c := range core.Calls(fn) {
		cc, ok := c.(*ssa.Call)
		if !ok {
			continue
		}
		switch core.CallName(cc) {
		case "crypto/rand.Read":
			reads = append(reads, cc)
			buf = cc.Call.Args[0]
		case "io.ReadFull":
			if isRandReader(cc.Call.Args[0]) {
				reads = append(reads, cc)
				buf = cc.Call.Args[1]
			}
		}
	}
	if len(reads) != 1 {
		r.Unrecognised(rule, name, "read call", pos, fmt.Sprintf("expected exactly one crypto/rand.Read or io.ReadFull(rand.Reader,·), found %d", len(reads)))
		return
	}
	read := reads[0]
	arr, n, ok := fullBuffer(buf)
	r.Check(ok && n == 4, rule, name, "buffer is a full 4-byte local array", p.InstrPos(read),
		fmt.Sprintf("read buffer %s: full-slice-of-local=%v length=%d (need 4)", core.Describe(buf), ok, n))
	if !ok {
		return
	}
	// err result must be extracted and tested
	var errV ssa.Value
	for _, ref := range core.Referrers(read) {
		if ex, ok := ref.(*ssa.Extract); ok && ex.Index == 1 {
			errV = ex
		}
	}
	r.Check(errV != nil, rule, name, "error result of the read is inspected", p.InstrPos(read), "the error result of the CSPRNG read must not be discarded")
	// returns
	for _, ret := range core.Returns(fn) {
		v := ret.Results[0]
		okShape, why := bijectionOf4(v, arr)
		r.Check(okShape, rule, name, "returned word is a bijection of the 4 buffer bytes", p.InstrPos(ret), why)
		if errV != nil {
			r.Check(guardedErrNil(ret.Block(), errV), rule, name, "return dominated by err==nil edge", p.InstrPos(ret),
				"the raw word may only be formed on the edge where the read reported no error")
		}
	}
	// every word read is handed out: the read is not repeated, and whether the word is returned does
	// not depend on the word (a "health test" that discards some values makes the others likelier)
	if l := core.InnermostLoop(core.Loops(fn), read.Block()); l != nil {
		r.Fail(rule, name, "the CSPRNG read is executed once per call", p.InstrPos(read), "the read sits in a loop: a word can be read and thrown away")
	} else {
		r.Pass(rule, name, "the CSPRNG read is executed once per call", p.InstrPos(read), "")
	}
	derived := map[ssa.Value]bool{}
	var work []ssa.Value
	add := func(v ssa.Value) {
		if v != nil && !derived[v] {
			derived[v] = true
			work = append(work, v)
		}
	}
	for _, ref := range core.Referrers(arr) {
		switch x := ref.(type) {
		case *ssa.IndexAddr:
			add(x)
		case *ssa.Slice:
			if ssa.Value(x) != buf {
				add(x)
			}
		}
	}
	if sl, ok := buf.(*ssa.Slice); ok {
		for _, ref := range core.Referrers(sl) {
			if c, ok := ref.(*ssa.Call); ok && c != read && !core.IsBuiltin(c, "len") && !core.IsBuiltin(c, "cap") {
				add(c)
			}
		}
	}
	if mk, ok := arr.(*ssa.MakeSlice); ok {
		for _, ref := range core.Referrers(mk) {
			if c, ok := ref.(*ssa.Call); ok && c != read && !core.IsBuiltin(c, "len") && !core.IsBuiltin(c, "cap") {
				add(c)
			}
		}
	}
	for len(work) > 0 {
		v := work[len(work)-1]
		work = work[:len(work)-1]
		for _, ref := range core.Referrers(v) {
			if rv, ok := ref.(ssa.Value); ok {
				if c, isCall := rv.(*ssa.Call); isCall && c == read {
					continue
				}
				add(rv)
			}
		}
	}
	for _, ret := range core.Returns(fn) {
		bad := ""
		for _, g := range core.Guards(ret.Block()) {
			if derived[g.Cond] {
				bad = core.Describe(g.Cond)
			}
		}
		r.Check(bad == "", rule, name, "whether the word is returned does not depend on the word", p.InstrPos(ret), "return is conditional on "+bad)
	}
	// no other store into the buffer
	stores := 0
	for _, ref := range core.Referrers(arr) {
		switch x := ref.(type) {
		case *ssa.IndexAddr:
			for _, rr := range core.Referrers(x) {
				if st, ok := rr.(*ssa.Store); ok && st.Addr == x {
					stores++
					r.Fail(rule, name, "store into the random buffer", p.InstrPos(st), "buffer bytes are overwritten outside the CSPRNG read")
				}
			}
		case *ssa.Store:
			if x.Addr == arr {
				stores++
				r.Fail(rule, name, "store into the random buffer", p.InstrPos(x), "buffer overwritten outside the CSPRNG read")
			}
		}
	}
	if stores == 0 {
		r.Pass(rule, name, "no store into the random buffer besides the read", pos, "")
	}
}

func isRandReader(v ssa.Value) bool {
	v = core.StripType(v)
	if u, ok := v.(*ssa.UnOp); ok && u.Op == token.MUL {
		if g, ok := u.X.(*ssa.Global); ok && g.Pkg != nil && g.Pkg.Pkg.Path() == "crypto/rand" && g.Name() == "Reader" {
			return true
		}
	}
	return false
}

// fullBuffer recognises `slice alloc[:]`/`[:N]` of a local [N]byte array or
// make([]byte, N) (which go/ssa lowers to new [N]byte + slice when N is
// constant) and returns the array pointer and N.
func fullBuffer(v ssa.Value) (ssa.Value, int64, bool) {
	switch x := v.(type) {
	case *ssa.Slice:
		al, ok := x.X.(*ssa.Alloc)
		if !ok {
			return nil, 0, false
		}
		at, ok := al.Type().Underlying().(*types.Pointer).Elem().Underlying().(*types.Array)
		if !ok {
			return nil, 0, false
		}
		if b, ok := at.Elem().Underlying().(*types.Basic); !ok || b.Kind() != types.Uint8 {
			return nil, 0, false
		}
		if x.Low != nil {
			if c, ok := core.ConstInt(x.Low); !ok || c != 0 {
				return nil, 0, false
			}
		}
		n := at.Len()
		if x.High != nil {
			c, ok := core.ConstInt(x.High)
			if !ok {
				return nil, 0, false
			}
			// a shorter slice means the read fills fewer bytes
			return al, min64(c, n), c <= n
		}
		return al, n, true
	case *ssa.MakeSlice:
		if c, ok := core.ConstInt(x.Len); ok {
			return x, c, true
		}
	}
	return nil, 0, false
}

func min64(a, b int64) int64 {
	if a < b {
		return a
	}
	return b
}

// bijectionOf4 checks that v is binary.{Big,Little}Endian.Uint32(S) with S a
// full slice of arr, or an OR/ADD tree of uint32(S[i])<<k terms using each of
// the 4 bytes exactly once with distinct shifts {0,8,16,24}.
func bijectionOf4(v ssa.Value, arr ssa.Value) (bool, string) {
	if c, ok := v.(*ssa.Call); ok {
		switch core.CallName(c) {
		case "(encoding/binary.bigEndian).Uint32", "(encoding/binary.littleEndian).Uint32":
			arg := c.Call.Args[len(c.Call.Args)-1]
			a, n, ok := fullBuffer(arg)
			if ok && a == arr && n == 4 {
				return true, "binary.ByteOrder.Uint32 of the full buffer"
			}
			return false, "Uint32 is applied to something other than the full 4-byte buffer: " + core.Describe(arg)
		}
		return false, "returned value is the result of " + core.CallName(c) + ", not a byte-order decode of the buffer"
	}
	used := map[int64]int64{} // byte index -> shift
	var walk func(v ssa.Value) bool
	walk = func(v ssa.Value) bool {
		switch x := v.(type) {
		case *ssa.BinOp:
			switch x.Op {
			case token.OR, token.ADD:
				return walk(x.X) && walk(x.Y)
			case token.SHL:
				k, ok := core.ConstInt(x.Y)
				if !ok {
					return false
				}
				idx, ok := byteOf(x.X, arr)
				if !ok {
					return false
				}
				if _, dup := used[idx]; dup {
					return false
				}
				used[idx] = k
				return true
			}
			return false
		default:
			idx, ok := byteOf(v, arr)
			if !ok {
				return false
			}
			if _, dup := used[idx]; dup {
				return false
			}
			used[idx] = 0
			return true
		}
	}
	if !walk(v) {
		return false, "returned value is not a shift/or combination of the buffer bytes: " + core.Describe(v)
	}
	shifts := map[int64]bool{}
	for _, k := range used {
		shifts[k] = true
	}
	if len(used) == 4 && len(shifts) == 4 && shifts[0] && shifts[8] && shifts[16] && shifts[24] {
		return true, "shift/or tree using each byte once"
	}
	return false, fmt.Sprintf("shift/or tree uses %d distinct bytes with %d distinct shifts (need 4 and {0,8,16,24})", len(used), len(shifts))
}

// byteOf recognises uint32(arr[i]) (through a slice of arr or directly).
func byteOf(v ssa.Value, arr ssa.Value) (int64, bool) {
	cv, ok := v.(*ssa.Convert)
	if !ok || !isUint32(cv.Type()) {
		return 0, false
	}
	ld, ok := cv.X.(*ssa.UnOp)
	if !ok || ld.Op != token.MUL {
		return 0, false
	}
	ia, ok := ld.X.(*ssa.IndexAddr)
	if !ok {
		return 0, false
	}
	base := ia.X
	if a, _, ok := fullBuffer(base); ok {
		base = a
	}
	if base != arr {
		return 0, false
	}
	return core.ConstInt(ia.Index)
}

// guardedErrNil reports whether block b is dominated by the edge err == nil.
func guardedErrNil(b *ssa.BasicBlock, errV ssa.Value) bool {
	for _, g := range core.Guards(b) {
		rel, ok := core.AsRel(g)
		if !ok {
			continue
		}
		if rel.Op == token.EQL && ((rel.X == errV && core.IsNilConst(rel.Y)) || (rel.Y == errV && core.IsNilConst(rel.X))) {
			return true
		}
	}
	return false
}

const maxU32 = uint64(1<<32 - 1)

// checkSchema verifies R1.2/R1.3 on a function that consumes raw words.
func checkSchema(p *core.Program, r *core.Report, roles *Roles, fn *ssa.Function, r12, r13 string) {
	name := core.FuncName(fn)
	pos := p.Pos(fn.Pos())
	sig := fn.Signature
	if sig.Params().Len() != 1 || !isUint32(sig.Params().At(0).Type()) || sig.Results().Len() != 1 || !isUint32(sig.Results().At(0).Type()) || fn.Parent() != nil {
		where := pos
		if cs := roles.RawCalls[fn]; len(cs) > 0 {
			where = p.InstrPos(cs[0])
		}
		r.Fail(r12, name, "raw word consumed outside a rejection-sampling schema", where,
			"this function uses the raw 32-bit word directly; every bounded choice must go through a func(n uint32) uint32 schema instance (signature here: "+sig.String()+")")
		return
	}
	n := fn.Params[0]
	isRawCall := func(v ssa.Value) (*ssa.Call, bool) {
		c, ok := v.(*ssa.Call)
		if !ok {
			return nil, false
		}
		f := core.StaticCallee(c)
		if f == nil {
			return nil, false
		}
		for _, rw := range roles.RawWord {
			if rw == f {
				return c, true
			}
		}
		return nil, false
	}
	loops := core.Loops(fn)
	// a rejected word is redrawn: every loop of the routine draws a fresh word each time
	// round (a retry loop without a draw spins for ever once a word is rejected, so
	// selection no longer terminates with probability one)
	for _, l := range loops {
		drawn := false
		for _, c := range roles.RawCalls[fn] {
			if l.Blocks[c.Block()] {
				uncond := true
				for _, la := range l.Latch {
					if !c.Block().Dominates(la) {
						uncond = false
					}
				}
				if uncond {
					drawn = true
				}
			}
		}
		r.Check(drawn, r13, name, "the retry loop draws a fresh raw word on every iteration", p.InstrPos(l.Header.Instrs[0]), "no raw-word call that runs on every trip round the loop")
	}
	rets := core.Returns(fn)
	if len(rets) == 0 {
		r.Unrecognised(r13, name, "no return", pos, "bounded-draw function never returns")
	}
	for _, ret := range rets {
		rpos := p.InstrPos(ret)
		v := ret.Results[0]
		guards := core.Guards(ret.Block())
		// (a) n >= 1
		r.Check(hasGuardNPositive(guards, n), r13, name, "return guarded by n>=1", rpos, "every return must lie beyond the n<1 rejection (panic) edge")
		// (b) table
		entry, why := matchSchema(v, n, guards, ret.Block(), isRawCall, loops)
		if entry == "" {
			r.Fail(r13, name, "return value matches no schema table entry", rpos, why)
		} else {
			r.Pass(r13, name, "return value is schema "+entry, rpos, why)
		}
	}
	// R1.2: the raw calls in this function are only used by the schema (each raw
	// call result flows only to phi / compare / and / rem).
	for _, c := range roles.RawCalls[fn] {
		ok := true
		bad := ""
		// what a value derived from the raw word is: the word itself, the word
		// widened to 64 bits, the 64-bit product with n, its low or its high half
		const (
			stRaw = iota
			stWide
			stProd
			stLow
			stHigh
		)
		type key struct {
			v  ssa.Value
			st int
		}
		seen := map[key]bool{}
		var visit func(v ssa.Value, st int)
		visit = func(v ssa.Value, st int) {
			if seen[key{v, st}] {
				return
			}
			seen[key{v, st}] = true
			for _, ref := range core.Referrers(v) {
				switch x := ref.(type) {
				case *ssa.Phi:
					visit(x, st)
				case *ssa.DebugRef:
				case *ssa.BinOp:
					cmp := x.Op == token.LSS || x.Op == token.LEQ || x.Op == token.GTR || x.Op == token.GEQ
					switch {
					case st == stRaw && (cmp || x.Op == token.AND || x.Op == token.REM):
					case st == stLow && cmp:
					case st == stWide && x.Op == token.MUL:
						visit(x, stProd)
					case st == stProd && x.Op == token.SHR && x.X == v && isConstU(x.Y, 32):
						visit(x, stHigh)
					default:
						ok, bad = false, x.String()
					}
				case *ssa.Convert:
					switch {
					case st == stRaw && isUint64(x.Type()):
						visit(x, stWide)
					case st == stProd && isUint32(x.Type()):
						visit(x, stLow)
					case st == stHigh && isUint32(x.Type()):
						visit(x, stHigh)
					default:
						ok, bad = false, x.String()
					}
				case *ssa.Return:
					if st != stHigh {
						ok, bad = false, x.String()
					}
				default:
					ok, bad = false, ref.String()
				}
			}
		}
		visit(c, stRaw)
		r.Check(ok, r12, name, "raw word used only by the schema (phi/compare/mask/remainder, or the 64-bit product with n and its halves)", p.InstrPos(c), "other use: "+bad)
	}
}

func hasGuardNPositive(guards []core.Guard, n ssa.Value) bool {
	for _, g := range guards {
		rel, ok := core.AsRel(g)
		if !ok {
			continue
		}
		if rel.Y == n {
			rel = rel.Flip()
		}
		if rel.X != n {
			continue
		}
		c, ok := core.ConstUint(rel.Y)
		if !ok {
			continue
		}
		switch {
		case rel.Op == token.GEQ && c == 1, rel.Op == token.GTR && c == 0, rel.Op == token.NEQ && c == 0:
			return true
		case rel.Op == token.EQL && c >= 1:
			return true
		}
	}
	return false
}

// isNMinus1 recognises n-1.
func isNMinus1(v ssa.Value, n ssa.Value) bool {
	b, ok := v.(*ssa.BinOp)
	if !ok {
		return false
	}
	if b.Op == token.SUB && b.X == n {
		c, ok := core.ConstUint(b.Y)
		return ok && c == 1
	}
	return false
}

// isPow2Test recognises n & (n-1) == 0 as a relation.
func isPow2Test(rel core.Rel, n ssa.Value) bool {
	if rel.Op != token.EQL {
		return false
	}
	x, y := rel.X, rel.Y
	if c, ok := core.ConstUint(x); ok && c == 0 {
		x, y = y, x
	}
	if c, ok := core.ConstUint(y); !ok || c != 0 {
		return false
	}
	b, ok := x.(*ssa.BinOp)
	if !ok || b.Op != token.AND {
		return false
	}
	return (b.X == n && isNMinus1(b.Y, n)) || (b.Y == n && isNMinus1(b.X, n))
}

// isHiThreshold recognises M - M%n and (M/n)*n with M = 2^32-1 (uint32).
func isHiThreshold(v ssa.Value, n ssa.Value) bool {
	v = stripSameWidth(v)
	b, ok := v.(*ssa.BinOp)
	if !ok {
		return false
	}
	isM := func(x ssa.Value) bool {
		c, ok := core.ConstUint(x)
		return ok && c == maxU32 && isUint32(x.Type())
	}
	switch b.Op {
	case token.SUB:
		if !isM(b.X) {
			return false
		}
		m, ok := stripSameWidth(b.Y).(*ssa.BinOp)
		return ok && m.Op == token.REM && isM(m.X) && m.Y == n
	case token.MUL:
		q, other := b.X, b.Y
		if other != n {
			q, other = b.Y, b.X
		}
		if other != n {
			return false
		}
		d, ok := stripSameWidth(q).(*ssa.BinOp)
		return ok && d.Op == token.QUO && isM(d.X) && d.Y == n
	}
	return false
}

// isLoThreshold recognises (-n) % n (uint32 negation).
func isLoThreshold(v ssa.Value, n ssa.Value) bool {
	b, ok := stripSameWidth(v).(*ssa.BinOp)
	if !ok || b.Op != token.REM || b.Y != n {
		return false
	}
	switch x := b.X.(type) {
	case *ssa.UnOp:
		return x.Op == token.SUB && x.X == n
	case *ssa.BinOp:
		if x.Op == token.SUB && x.Y == n {
			c, ok := core.ConstUint(x.X)
			return ok && c == 0
		}
	}
	return false
}

// stripSameWidth removes uint32->uint32 conversions.
func stripSameWidth(v ssa.Value) ssa.Value {
	for {
		switch x := v.(type) {
		case *ssa.Convert:
			if isUint32(x.Type()) && isUint32(x.X.Type()) {
				v = x.X
				continue
			}
		case *ssa.ChangeType:
			if isUint32(x.Type()) && isUint32(x.X.Type()) {
				v = x.X
				continue
			}
		}
		return v
	}
}

// freshRawWord reports whether every reaching definition of w is a fresh raw
// call (directly or through phis), with loop-carried definitions made inside
// the loop that carries them.
func freshRawWord(w ssa.Value, isRawCall func(ssa.Value) (*ssa.Call, bool), loops []*core.Loop) (bool, string) {
	seen := map[ssa.Value]bool{}
	var visit func(v ssa.Value) (bool, string)
	visit = func(v ssa.Value) (bool, string) {
		if seen[v] {
			return true, ""
		}
		seen[v] = true
		if _, ok := isRawCall(v); ok {
			return true, ""
		}
		phi, ok := v.(*ssa.Phi)
		if !ok {
			return false, "reaching definition " + core.Describe(v) + " is not a fresh raw-word call"
		}
		for i, e := range phi.Edges {
			if ok, why := visit(e); !ok {
				return false, why
			}
			pred := phi.Block().Preds[i]
			// back edge: the definition must be re-executed inside the loop
			for _, l := range loops {
				if l.Header == phi.Block() && l.Blocks[pred] {
					if c, ok := isRawCall(e); ok && !l.Blocks[c.Block()] {
						return false, "the word carried around the retry loop is not redrawn inside it (" + core.Describe(e) + ")"
					}
				}
			}
		}
		return true, ""
	}
	return visit(w)
}

func matchSchema(v ssa.Value, n ssa.Value, guards []core.Guard, retBlock *ssa.BasicBlock, isRawCall func(ssa.Value) (*ssa.Call, bool), loops []*core.Loop) (string, string) {
	// S-one
	if c, ok := core.ConstUint(v); ok && c == 0 {
		for _, g := range guards {
			if rel, ok := core.AsRel(g); ok && rel.Op == token.EQL {
				if (rel.X == n && isConstU(rel.Y, 1)) || (rel.Y == n && isConstU(rel.X, 1)) {
					return "S-one", "returns 0 under n==1"
				}
			}
		}
		return "", "constant 0 returned without an n==1 guard"
	}
	if prod, isHigh := highHalf(v); isHigh {
		return matchLemire(prod, n, guards, retBlock, isRawCall, loops)
	}
	b, ok := stripSameWidth(v).(*ssa.BinOp)
	if !ok {
		return "", "returned value " + core.Describe(v) + " is neither raw&(n-1) nor v%n nor the high half of v*n"
	}
	switch b.Op {
	case token.AND:
		raw, mask := b.X, b.Y
		if _, ok := isRawCall(raw); !ok {
			raw, mask = b.Y, b.X
		}
		if _, ok := isRawCall(raw); !ok {
			return "", "mask applied to a value that is not a fresh raw word"
		}
		if !isNMinus1(mask, n) {
			return "", "mask is " + core.Describe(mask) + ", must be n-1"
		}
		for _, g := range guards {
			if rel, ok := core.AsRel(g); ok && isPow2Test(rel, n) {
				return "S-pow2", "raw&(n-1) under n&(n-1)==0"
			}
		}
		return "", "mask path is not guarded by the power-of-two test n&(n-1)==0"
	case token.REM:
		if b.Y != n {
			return "", "remainder is taken modulo " + core.Describe(b.Y) + ", must be n"
		}
		w := b.X
		if ok, why := freshRawWord(w, isRawCall, loops); !ok {
			return "", why
		}
		for _, g := range guards {
			rel, ok := core.AsRel(g)
			if !ok {
				continue
			}
			if rel.Y == w {
				rel = rel.Flip()
			}
			if rel.X != w {
				continue
			}
			if rel.Op == token.LSS && isHiThreshold(rel.Y, n) {
				return "S-hi", "v%n under v < M-M%n (or (M/n)*n), every reaching v a fresh raw word"
			}
			if rel.Op == token.GEQ && isLoThreshold(rel.Y, n) {
				return "S-lo", "v%n under v >= (-n)%n, every reaching v a fresh raw word"
			}
			return "", fmt.Sprintf("acceptance test on the word is `v %s %s`, which is not in the schema table (need v < M-M%%n, v < (M/n)*n or v >= (-n)%%n)", rel.Op, core.Describe(rel.Y))
		}
		return "", "v%n is returned without an acceptance test on v dominating the return (modulo bias)"
	}
	return "", "returned value " + core.Describe(v) + " matches no table entry"
}

// highHalf recognises uint32(prod >> 32) with prod a 64-bit value.
func highHalf(v ssa.Value) (ssa.Value, bool) {
	cv, ok := v.(*ssa.Convert)
	if !ok || !isUint32(cv.Type()) {
		return nil, false
	}
	sh, ok := cv.X.(*ssa.BinOp)
	if !ok || sh.Op != token.SHR || !isConstU(sh.Y, 32) || !isUint64(sh.X.Type()) {
		return nil, false
	}
	return sh.X, true
}

// matchLemire: S-lemire. The value returned is the high half of prod = uint64(v)*uint64(n),
// v a fresh raw word on every reaching definition, and on every path to the
// return the low half of that same product is known to be >= (-n)%n (= 2^32 mod n),
// either directly or through the shortcut low >= n (2^32 mod n < n).
func matchLemire(prod ssa.Value, n ssa.Value, guards []core.Guard, retBlock *ssa.BasicBlock, isRawCall func(ssa.Value) (*ssa.Call, bool), loops []*core.Loop) (string, string) {
	var isLowOf func(low, pr ssa.Value, d int) bool
	isLowOf = func(low, pr ssa.Value, d int) bool {
		if d > 4 {
			return false
		}
		if cv, ok := low.(*ssa.Convert); ok && isUint32(cv.Type()) && cv.X == pr {
			return true
		}
		lp, ok1 := low.(*ssa.Phi)
		pp, ok2 := pr.(*ssa.Phi)
		if !ok1 || !ok2 || lp.Block() != pp.Block() || len(lp.Edges) != len(pp.Edges) {
			return false
		}
		for i := range lp.Edges {
			if lp.Edges[i] == ssa.Value(lp) && pp.Edges[i] == ssa.Value(pp) {
				continue
			}
			if !isLowOf(lp.Edges[i], pp.Edges[i], d+1) {
				return false
			}
		}
		return true
	}
	// every reaching definition of the product is uint64(fresh raw word) * uint64(n),
	// recomputed inside the loop that carries it
	var fresh func(pr ssa.Value, seen map[ssa.Value]bool) (bool, string)
	fresh = func(pr ssa.Value, seen map[ssa.Value]bool) (bool, string) {
		if seen[pr] {
			return true, ""
		}
		seen[pr] = true
		switch x := pr.(type) {
		case *ssa.BinOp:
			if x.Op != token.MUL {
				return false, "product is " + core.Describe(x)
			}
			a, b := x.X, x.Y
			wide := func(v ssa.Value) (ssa.Value, bool) {
				cv, ok := v.(*ssa.Convert)
				if !ok || !isUint64(cv.Type()) || !isUint32(cv.X.Type()) {
					return nil, false
				}
				return cv.X, true
			}
			wa, okA := wide(a)
			wb, okB := wide(b)
			if !okA || !okB {
				return false, "product operands are not both uint64(uint32 value): " + core.Describe(x)
			}
			if wa == n {
				wa, wb = wb, wa
			}
			if wb != n {
				return false, "product is not taken with n"
			}
			return freshRawWord(wa, isRawCall, loops)
		case *ssa.Phi:
			for i, e := range x.Edges {
				if ok, why := fresh(e, seen); !ok {
					return false, why
				}
				pred := x.Block().Preds[i]
				for _, l := range loops {
					if l.Header == x.Block() && l.Blocks[pred] {
						if in, ok := e.(ssa.Instruction); ok && !l.Blocks[in.Block()] {
							return false, "the product carried around the retry loop is not recomputed inside it"
						}
					}
				}
			}
			return true, ""
		}
		return false, "reaching definition of the product " + core.Describe(pr) + " is not uint64(raw)*uint64(n)"
	}
	if ok, why := fresh(prod, map[ssa.Value]bool{}); !ok {
		return "", why
	}
	accepted := func(pr ssa.Value, gs []core.Guard) (bool, string) {
		why := "no acceptance test on the low half of the product"
		for _, g := range gs {
			rel, ok := core.AsRel(g)
			if !ok {
				continue
			}
			if isLowOf(rel.Y, pr, 0) {
				rel = rel.Flip()
			}
			if !isLowOf(rel.X, pr, 0) {
				continue
			}
			if rel.Op == token.GEQ && (isLoThreshold(rel.Y, n) || rel.Y == n) {
				return true, ""
			}
			why = fmt.Sprintf("acceptance test on the low half is `low %s %s`, need low >= (-n)%%n (or the shortcut low >= n)", rel.Op, core.Describe(rel.Y))
		}
		return false, why
	}
	if ok, _ := accepted(prod, guards); ok {
		return "S-lemire", "high half of uint64(v)*uint64(n) under low half >= (-n)%n, every reaching v a fresh raw word"
	}
	phi, isPhi := prod.(*ssa.Phi)
	if !isPhi || phi.Block() != retBlock {
		_, why := accepted(prod, guards)
		return "", why
	}
	for i, e := range phi.Edges {
		pred := phi.Block().Preds[i]
		gs := append([]core.Guard{}, core.Guards(pred)...)
		for si, sb := range pred.Succs {
			if sb == phi.Block() && len(pred.Succs) == 2 {
				if g, ok := core.EdgeCond(pred, si); ok {
					gs = append(gs, g)
				}
			}
		}
		if ok, why := accepted(e, gs); !ok {
			return "", fmt.Sprintf("on the path through block %d: %s", pred.Index, why)
		}
	}
	return "S-lemire", "high half of uint64(v)*uint64(n); on every path the low half is >= (-n)%n (directly or via low >= n), every reaching v a fresh raw word"
}

func isConstU(v ssa.Value, c uint64) bool {
	x, ok := core.ConstUint(v)
	return ok && x == c
}
