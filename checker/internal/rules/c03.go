package rules

import (
	"fmt"
	"go/constant"
	"go/token"
	"sort"
	"strings"

	"golang.org/x/tools/go/ssa"

	"spgverif/internal/core"
)

func init() {
	register(&Property{
		Meta: core.PropertyMeta{
			ID: "C03",
			Explanation: "Decides the structural conditions under which every returned character password satisfies its recipe. Exclusion " +
				"dominance: a forward 'clean' dataflow in the alphabet builder over set-typed SSA values and two memory cells (the recipe's " +
				"allowed set; the set inside each element of the required-sets slice): X.Difference(E) is clean where E is the set built from " +
				"ExcludeChars plus every class added under Exclude&flag; Clean.Difference(_), Clean∪Clean, Clean∩_ stay clean; a full sweep that " +
				"unconditionally stores a clean set into every element makes the element cell clean. At exit the returned alphabet, the allowed " +
				"set and the required-sets cell must be clean — these are what generation, the filter and Alphabet() read. The flag table is " +
				"exhaustive and feeds all three roles (allow/require/exclude) under the right flag; custom strings seed their role; the result " +
				"has Length single-character atom tokens (shape rules shared with C02); only filtered candidates are returned; Alphabet() is " +
				"the sorted join of the same builder's output.",
			Rules: []string{
				"R3.1 exclusion dominance: E is built from the excluded accumulator; the returned alphabet set, every store to the allowed set and the required-sets element cell at exit are Clean (disjoint from E by construction)",
				"R3.2 flag table exhaustive and used for all three roles: every exported single-bit CTFlag constant is a key of the ranged class table; the class string joins the allowed accumulator iff Allow&f, the excluded accumulator iff Exclude&f, and a new required set iff Require&f",
				"R3.3 custom inputs reach their role: AllowChars seeds the allowed accumulator, ExcludeChars the excluded one, every non-empty RequireSets[i] (full sweep) becomes a required set",
				"R3.4 shape of the result: Length<1 is refused before anything else; Length positions, one AtomType token each (R2.3); only candidates accepted by the all-of filter are returned (R2.4/R2.5)",
				"R3.5 Alphabet() = strings.Join(sorted(builder()), \"\") on the same builder Generate indexes; nothing appended or removed",
			},
			Trusted:    append([]string{"golang-set algebra (Difference/Union/Intersect) is correct set algebra and returns new sets", "sort.Strings, strings.Join"}, commonTrusted...),
			NotDecided: []string{"the filter's string semantics beyond R2.5", "invalid UTF-8 in custom strings"},
		},
		Run: runC03,
	})
}

func runC03(p *core.Program, r *core.Report) {
	m := checkAlphabetBuilder(p, r)
	if m == nil {
		return
	}
	// exclusion is set algebra over the members of the character sets: it removes exactly the excluded
	// characters only if every member is one character and the alphabet is the split of the joined set
	// (= C02 R2.1 re-run: the set helpers)
	r.Borrow("R3.1", func() { checkAlphabetProvenance(p, r, "R2.1") })

	// R3.4 shape (shared with C02)
	if g, why := resolveCharGen(p); g == nil {
		r.Unrecognised("R3.4", "(spg.CharRecipe).Generate", "generation shape", "", why)
	} else {
		gname := core.FuncName(g.fn)
		// Length<1 refused first
		first := g.fn.Blocks[0]
		okLen := false
		if iff, ok := first.Instrs[len(first.Instrs)-1].(*ssa.If); ok {
			if rel, ok := core.AsRel(core.Guard{Cond: iff.Cond, Pos: true, If: iff}); ok && recipeField(rel.X, "Length") {
				if k, isC := core.ConstInt(rel.Y); isC && ((rel.Op == token.LSS && k == 1) || (rel.Op == token.LEQ && k == 0)) {
					okLen = failsClosed(first.Succs[0], map[*ssa.BasicBlock]bool{})
				}
			}
		}
		r.Check(okLen, "R3.4", gname, "Length < 1 is refused with an error before anything else", p.Pos(g.fn.Pos()), "")
		checkDrawShape(p, r, g, "R3.4", "R3.4")
		checkWholeCandidateRejection(p, r, g, "R3.4")
		checkFilterAllOf(p, r, g, "R3.4")
		// Generate indexes the same builder
		r.Check(g.builder != nil && core.StaticCallee(g.builder) == m.fn, "R3.5", gname, "Generate draws from the builder's output", p.InstrPos(g.draw), "")
	}

	// R3.5 Alphabet()
	checkAlphabetMethod(p, r, m)
}

// checkAlphabetBuilder applies R3.1-R3.3 to the alphabet builder: the alphabet is
// (allowed ∪ required) with every excluded character removed, and the stored
// allowed/required sets are clean. Also run by C02 (as R2.1), whose "strings over
// the recipe's alphabet … and no other string" is about this alphabet.
func checkAlphabetBuilder(p *core.Program, r *core.Report) *builderModel {
	m, why := resolveBuilder(p)
	if m == nil {
		r.Unrecognised("R3.1", "-", "alphabet builder", "", why)
		return nil
	}
	name := core.FuncName(m.fn)
	pos := p.Pos(m.fn.Pos())
	r.Note("alphabet builder is %s; class table ranged at %s", name, p.InstrPos(m.classRI.Next))

	// R3.2 / R3.3 accumulators
	m.checkAccumulator(p, r, "R3.2", m.allowAcc, "AllowChars", "Allow")
	m.checkAccumulator(p, r, "R3.2", m.exclAcc, "ExcludeChars", "Exclude")
	r.Check(m.allowAcc != nil, "R3.3", name, "AllowChars seeds the allowed accumulator", pos, "")
	r.Check(m.exclAcc != nil, "R3.3", name, "ExcludeChars seeds the excluded accumulator", pos, "")
	checkRequiredAppends(p, r, m)
	checkFlagTableExhaustive(p, r, m)

	// R3.1
	if m.E == nil {
		r.Fail("R3.1", name, "excluded set E is built from the excluded accumulator", pos, "no set is constructed from the string that accumulates ExcludeChars and the excluded classes")
		return m
	}
	m.computeClean(p)
	// allowed set built from the allowed accumulator
	okAllowedSrc := false
	for _, c := range core.Calls(m.fn) {
		if cv, ok := c.(*ssa.Call); ok && core.StaticCallee(cv) == m.setOf && m.allowAcc != nil && cv.Call.Args[0] == ssa.Value(m.allowAcc) {
			okAllowedSrc = true
		}
	}
	r.Check(okAllowedSrc, "R3.1", name, "allowed set is built from the allowed accumulator", pos, "")
	// returned alphabet
	for _, ret := range core.Returns(m.fn) {
		sp, ok := core.StripType(ret.Results[0]).(*ssa.Call)
		var setV ssa.Value
		if ok && len(sp.Call.Args) > 0 {
			if cc, ok := sp.Call.Args[0].(*ssa.Call); ok && len(cc.Call.Args) == 1 && isSetTyped(cc.Call.Args[0]) {
				setV = cc.Call.Args[0]
			}
		}
		if setV == nil {
			r.Fail("R3.1", name, "returned alphabet derives from a set", p.InstrPos(ret), core.Describe(ret.Results[0]))
			continue
		}
		r.Check(m.cleanV(setV), "R3.1", name, "returned alphabet is disjoint from the excluded set by construction", p.InstrPos(ret),
			"the alphabet set "+core.Describe(setV)+" is not provably `…Difference(E)`-derived: an excluded character (from a class flag or a custom string) can appear in a password")
		// alphabet = allowed ∪ union(required): it must contain the required characters, otherwise requirements can never be met — shape check
		if uc, ok := setV.(*ssa.Call); ok && uc.Common().IsInvoke() && uc.Common().Method.Name() == "Union" {
			r.Pass("R3.1", name, "alphabet is allowed ∪ required", p.InstrPos(ret), "")
		}
	}
	// stores to the allowed set
	nSt := 0
	for _, ref := range core.Referrers(m.recv) {
		fa, ok := ref.(*ssa.FieldAddr)
		if !ok || !isSetTypedAddr(fa) {
			continue
		}
		for _, rr := range core.Referrers(fa) {
			if st, ok := rr.(*ssa.Store); ok && st.Addr == fa {
				nSt++
				r.Check(m.cleanV(st.Val), "R3.1", name, "value stored into ."+core.FieldName(fa)+" is disjoint from the excluded set", p.InstrPos(st), core.Describe(st.Val))
			}
		}
	}
	r.Floor("R3.1", "stores to the recipe's allowed set", nSt, 1)
	// required sets cell clean at exit
	var sweepOK *cleanSweep
	for _, sw := range m.sweeps {
		// no store to the swept field reachable after the sweep
		late := false
		reach := reachableFromBlock(sw.loop.Header)
		for _, ref := range core.Referrers(m.recv) {
			fa, ok := ref.(*ssa.FieldAddr)
			if !ok || core.FieldName(fa) != sw.field {
				continue
			}
			for _, rr := range core.Referrers(fa) {
				if st, ok := rr.(*ssa.Store); ok && st.Addr == fa && reach[st.Block()] {
					late = true
				}
			}
		}
		if !late {
			sweepOK = sw
		}
	}
	if sweepOK != nil {
		r.Pass("R3.1", name, "every required set has the excluded characters removed (full sweep storing a clean set into each element)", p.InstrPos(sweepOK.store), "field "+sweepOK.field+"[*]."+sweepOK.sub)
	} else {
		r.Fail("R3.1", name, "every required set has the excluded characters removed", pos,
			"no full sweep over the required sets unconditionally stores `set.Difference(E)` back into each element (a subtraction applied to a copy, or skipped, lets a required-but-excluded character count as satisfying — or be demanded by — the recipe)")
	}

	return m
}

func isSetTypedAddr(fa *ssa.FieldAddr) bool {
	st := fa.X.Type().Underlying()
	_ = st
	return strings.Contains(fa.Type().String(), "golang-set.Set")
}

// checkRequiredAppends: required sets come from (a) a full sweep over
// RequireSets (non-empty elements) and (b) the class table under Require&f.
func checkRequiredAppends(p *core.Program, r *core.Report, m *builderModel) {
	name := core.FuncName(m.fn)
	sawCustom, sawClass := false, false
	// the values that end up in recv.requiredSets: stored values and everything they are accumulated from
	inChain := map[ssa.Value]bool{}
	var walk func(v ssa.Value, d int)
	walk = func(v ssa.Value, d int) {
		v = core.StripType(v)
		if d > 12 || inChain[v] {
			return
		}
		inChain[v] = true
		switch x := v.(type) {
		case *ssa.Phi:
			for _, e := range x.Edges {
				walk(e, d+1)
			}
		case *ssa.Call:
			if core.IsBuiltin(x, "append") {
				walk(x.Call.Args[0], d+1)
			}
		}
	}
	for _, ref := range core.Referrers(m.recv) {
		if fa, ok := ref.(*ssa.FieldAddr); ok && core.FieldName(fa) == requiredSetsField(p) {
			for _, rr := range core.Referrers(fa) {
				if st, ok := rr.(*ssa.Store); ok && st.Addr == ssa.Value(fa) {
					walk(st.Val, 0)
				}
			}
		}
	}
	for _, c := range core.Calls(m.fn) {
		cv, ok := c.(*ssa.Call)
		if !ok || !core.IsBuiltin(cv, "append") {
			continue
		}
		// append(acc, lit{*newReqSet(x, name)}) where acc is the required-sets field or a local accumulator stored into it
		if !recvFieldLoad(cv.Call.Args[0], m.recv, requiredSetsField(p)) && !inChain[ssa.Value(cv)] {
			continue
		}
		var src ssa.Value
		if sl, ok := cv.Call.Args[1].(*ssa.Slice); ok {
			if al, ok := sl.X.(*ssa.Alloc); ok {
				for _, ref := range core.Referrers(al) {
					if ia, ok := ref.(*ssa.IndexAddr); ok {
						for _, rr := range core.Referrers(ia) {
							if st, ok := rr.(*ssa.Store); ok && st.Addr == ia {
								if ld, ok := st.Val.(*ssa.UnOp); ok {
									if nc, ok := ld.X.(*ssa.Call); ok && len(nc.Call.Args) >= 1 {
										src = nc.Call.Args[0]
									}
								}
							}
						}
					}
				}
			}
		}
		pos := p.InstrPos(cv)
		// result stored back (directly, or as part of the accumulator chain that is)
		stored := inChain[ssa.Value(cv)]
		for _, ref := range core.Referrers(cv) {
			if st, ok := ref.(*ssa.Store); ok {
				if fa, ok := st.Addr.(*ssa.FieldAddr); ok && fa.X == ssa.Value(m.recv) && core.FieldName(fa) == requiredSetsField(p) {
					stored = true
				}
			}
		}
		if !stored {
			r.Fail("R3.2", name, "appended required set is kept", pos, "append result is not stored back into the required sets")
			continue
		}
		switch {
		case src == m.classVal:
			sawClass = true
			r.Check(m.flagGuard(cv.Block(), "Require"), "R3.2", name, "a class becomes a required set iff Require&flag != 0", pos, "")
		default:
			// element of a range over recv.RequireSets
			l := core.InnermostLoop(m.loops, cv.Block())
			okSweep := false
			if l != nil {
				if ri, ok := core.AsRange(l); ok && ri.Kind == "slice" && recvFieldLoad(ri.X, m.recv, "RequireSets") {
					if ld, ok := src.(*ssa.UnOp); ok {
						if ia, ok := ld.X.(*ssa.IndexAddr); ok && ia.X == ri.X && ia.Index == ri.Index {
							okSweep = true
							// guards inside the loop: only len(elem) > 0
							for _, g := range core.Guards(cv.Block()) {
								if !l.Blocks[g.If.Block()] || g.If.Block() == l.Header {
									continue
								}
								rel, ok := core.AsRel(g)
								x, isLen := core.LenOf(rel.X)
								k, isC := core.ConstInt(rel.Y)
								if !ok || !isLen || x != src || !isC || !((rel.Op == token.GTR && k == 0) || (rel.Op == token.NEQ && k == 0) || (rel.Op == token.GEQ && k == 1)) {
									okSweep = false
								}
							}
						}
					}
				}
			}
			sawCustom = sawCustom || okSweep
			r.Check(okSweep, "R3.3", name, "every non-empty RequireSets[i] becomes a required set (full sweep)", pos, "source "+core.Describe(src))
		}
	}
	r.Check(sawClass, "R3.2", name, "required classes are expanded through the class table", p.Pos(m.fn.Pos()), "")
	r.Check(sawCustom, "R3.3", name, "custom RequireSets reach the required sets", p.Pos(m.fn.Pos()), "")
}

// checkFlagTableExhaustive: every exported single-bit CTFlag constant is a key of the ranged class table.
func checkFlagTableExhaustive(p *core.Program, r *core.Report, m *builderModel) {
	inits := core.GlobalInits(p.Lib)
	var tbl *core.InitVal
	if ld, ok := m.classRI.X.(*ssa.UnOp); ok {
		if g, ok := ld.X.(*ssa.Global); ok {
			tbl = inits[g.Name()]
		}
	}
	if tbl == nil || tbl.Map == nil {
		r.Unrecognised("R3.2", "init", "class table literal", "", "the ranged table is not a map literal")
		return
	}
	keys := map[uint64]bool{}
	for _, e := range tbl.Map {
		if k, ok := core.ConstUint(e.Key); ok {
			keys[k] = true
		}
	}
	flags := core.ConstsOfType(p.LibPkg.Types, "CTFlag")
	var names []string
	for n := range flags {
		names = append(names, n)
	}
	sort.Strings(names)
	nBits := 0
	for _, n := range names {
		v, ok := constant.Uint64Val(flags[n])
		if !ok || v == 0 || v&(v-1) != 0 {
			continue
		}
		nBits++
		r.Check(keys[v], "R3.2", "init", "class table has an entry for flag "+n, p.Pos(tbl.Store.Pos()), fmt.Sprintf("bit %d missing: the flag would be silently ignored in Allow/Require/Exclude", v))
	}
	r.Floor("R3.2", "single-bit class flags", nBits, 5)
}

// checkAlphabetMethod: R3.5.
func checkAlphabetMethod(p *core.Program, r *core.Report, m *builderModel) {
	fn := p.Method("CharRecipe", "Alphabet")
	if fn == nil {
		r.Unrecognised("R3.5", "CharRecipe.Alphabet", "method", "", "not found")
		return
	}
	name := core.FuncName(fn)
	for _, ret := range core.Returns(fn) {
		pos := p.InstrPos(ret)
		jc, ok := ret.Results[0].(*ssa.Call)
		if !ok || core.CallName(jc) != "strings.Join" {
			r.Fail("R3.5", name, "Alphabet() returns strings.Join(list, \"\")", pos, core.Describe(ret.Results[0]))
			continue
		}
		sep, _ := core.ConstString(jc.Call.Args[1])
		list := core.StripType(jc.Call.Args[0])
		bc, ok := list.(*ssa.Call)
		okB := ok && core.StaticCallee(bc) == m.fn && sep == ""
		r.Check(okB, "R3.5", name, "the joined list is the alphabet builder's output, joined without separator", pos, core.Describe(list))
		// sort.Strings on the same list before the join
		sorted := false
		for _, c := range core.Calls(fn) {
			if core.CallName(c) == "sort.Strings" && core.StripType(c.Common().Args[0]) == list && core.InstrDominates(c, jc) {
				sorted = true
			}
		}
		r.Check(sorted, "R3.5", name, "the list is sorted before it is joined", pos, "")
		// builder called on a local copy of the receiver
		if ok && len(bc.Call.Args) == 1 {
			al, isAl := bc.Call.Args[0].(*ssa.Alloc)
			r.Check(isAl && paramCopiedInto(al) == 0, "R3.5", name, "the builder runs on this call's copy of the recipe", pos, "")
		}
	}
}
