package rules

import (
	"fmt"
	"go/types"
	"sort"
	"strings"

	"golang.org/x/tools/go/ssa"

	"spgverif/internal/core"
)

func init() {
	register(&Property{
		Meta: core.PropertyMeta{
			ID: "C14",
			Explanation: "Effect/ownership analysis over the SSA form and the VTA call graph: every write (store, map update, delete, copy, append " +
				"into a non-fresh base, in-place mutators of golang-set, math/big and sort) in every function reachable from the public API is " +
				"mapped to the owner of the written memory. A data race needs two unsynchronised accesses to shared memory, at least one a write; " +
				"the check shows that no API entry point can write memory owned by its receiver, its arguments, a package-level variable or a " +
				"variable captured by a (shareable) closure, so concurrent calls on shared recipes, lists and separator functions only read shared " +
				"memory. This covers all interleavings at once.",
			Rules: []string{
				"R14.1 no shared-root write: the transitive effect summary of every API entry point (exported functions and methods of package spg, every separator closure created in the module) contains no write rooted at a parameter/receiver, a global, a captured variable or an unknown owner",
				"R14.2 builder discipline: every unexported function with a write effect on a pointer parameter is only called with the address of a local copy (follows from R14.1: otherwise the effect would surface in an entry point's summary) — call sites listed",
				"R14.3 definite freshness: element stores through computed fields are only accepted when a store of a fresh value to that field dominates the access (part of the root analysis)",
				"R14.4 in-place mutators (set.Add/Remove/Clear/Pop, big.Int arithmetic, sort.*, delete, copy, append) only on fresh or local objects",
				"R14.5 globals are init-only: no store to any package-level variable of package spg outside the package initialiser; preset/table globals never the target of a mutator",
				"R14.6 no goroutines/channel sends in package spg itself",
				"R14.7 every call whose effects are not modelled (unknown external callee receiving references, unresolved dynamic call) reachable from the API is reported",
			},
			Trusted: append([]string{"golang-set v1.7.1: NewSet is the RWMutex-protected variant; algebra methods return new sets and only read their operands",
				"standard-library functions listed as read-only in the checker (strings, fmt, math, log, ...) do not modify their arguments"}, commonTrusted...),
			NotDecided: []string{"races inside the standard library or golang-set", "a caller that mutates a recipe or MaxTrials/MaxFailRate while sharing it (outside the property)",
				"validity and entropy of each concurrent result (follows from C03/C05/C06 once calls are independent)"},
		},
		Run:            runC14,
		Fixture:        "c14",
		FixtureExpects: []string{"R14.1", "R14.5", "R14.6"},
	})
}

// apiEntryPoints returns the public API of package spg plus separator closures.
func apiEntryPoints(p *core.Program) []*ssa.Function {
	var out []*ssa.Function
	seen := map[*ssa.Function]bool{}
	for _, fn := range p.LibFuncs() {
		if fn.Synthetic != "" {
			continue
		}
		if fn.Parent() != nil {
			// closures with the SFFunction signature
			if fn.Signature.Params().Len() == 0 && fn.Signature.Results().Len() == 2 {
				out = append(out, fn)
				seen[fn] = true
			}
			continue
		}
		o := fn.Object()
		if o == nil || !o.Exported() {
			continue
		}
		if sig, ok := o.Type().(*types.Signature); ok && sig.Recv() != nil {
			n := core.NamedOf(sig.Recv().Type())
			if i := strings.LastIndex(n, "."); i >= 0 && !isExportedName(n[i+1:]) {
				continue
			}
		}
		if !seen[fn] {
			out = append(out, fn)
			seen[fn] = true
		}
	}
	return out
}

func runC14(p *core.Program, r *core.Report) {
	checkNoSharedWrites(p, r, "R14", apiEntryPoints(p), 20)

	// R14.5 globals init-only (library)
	eff := core.GetEff(p)
	n := 0
	for _, fn := range p.LibFuncs() {
		for _, ef := range eff.Direct[fn] {
			if ef.Root.Kind == core.RGlobal {
				n++
				r.Fail("R14.5", core.FuncName(fn), ef.What+" "+ef.Root.String(), p.InstrPos(ef.Instr), "package-level state is modified after initialisation; concurrent calls race on it")
			}
		}
	}
	nGlobals := 0
	for _, m := range p.Lib.Members {
		if _, ok := m.(*ssa.Global); ok {
			nGlobals++
		}
	}
	r.Count("package-level variables", nGlobals)
	if n == 0 {
		r.Pass("R14.5", "-", "no write to a package-level variable outside init", "", fmt.Sprintf("%d globals, %d library functions inspected", nGlobals, len(p.LibFuncs())))
	}
	// R14.6
	nGo := 0
	for _, fn := range p.LibFuncs() {
		core.Instrs(fn, func(in ssa.Instruction) {
			switch in.(type) {
			case *ssa.Go:
				nGo++
				r.Fail("R14.6", core.FuncName(fn), "go statement", p.InstrPos(in), "the library starts a goroutine; its accesses are outside the ownership argument")
			case *ssa.Send:
				nGo++
				r.Fail("R14.6", core.FuncName(fn), "channel send", p.InstrPos(in), "")
			}
		})
	}
	if nGo == 0 {
		r.Pass("R14.6", "-", "no go statement or channel send in package spg", "", "")
	}
}

// checkNoSharedWrites applies R<x>.1/.2/.4/.7 to the given entry points.
func checkNoSharedWrites(p *core.Program, r *core.Report, prefix string, entries []*ssa.Function, floor int) {
	eff := core.GetEff(p)
	r.Floor(prefix+".1", "API entry points", len(entries), floor)
	reach := p.ReachableFrom(entries...)
	nWrites, nLocal := 0, 0
	for fn := range reach {
		if p.InModule(fn) {
			for _, ef := range eff.Direct[fn] {
				nWrites++
				if !ef.Root.Shared() {
					nLocal++
				}
			}
		}
	}
	r.Count("writes inventoried in reachable module functions", nWrites)
	r.Count("of which to local/fresh memory", nLocal)
	for _, e := range entries {
		name := core.FuncName(e)
		sum := eff.Writes(e)
		bad := 0
		for _, ef := range sum {
			rule := prefix + ".1"
			why := ""
			switch ef.Root.Kind {
			case core.RParam:
				why = "writes memory owned by the caller (receiver/argument " + ef.Root.String() + "): concurrent or later calls observe it"
			case core.RGlobal:
				why = "writes package-level variable " + ef.Root.Name
			case core.RFreeVar:
				why = "writes variable " + ef.Root.Name + " captured by a closure that can be shared"
			case core.RUnknown:
				why = "writes memory whose owner cannot be determined: " + ef.Root.String()
			}
			if strings.Contains(ef.What, "mutator") || strings.HasPrefix(ef.What, "append") || strings.HasPrefix(ef.What, "delete") || strings.HasPrefix(ef.What, "copy") {
				rule = prefix + ".4"
			}
			bad++
			via := ""
			if ef.Via != "" {
				via = " via " + ef.Via
			}
			r.Fail(rule, name, ef.What+" -> "+ef.Root.String()+via, p.InstrPos(ef.Instr), why)
		}
		if bad == 0 {
			nd := 0
			for fn := range p.ReachableFrom(e) {
				nd += len(eff.Direct[fn])
			}
			r.Pass(prefix+".1", name, "no write to receiver/argument/global/captured memory", p.Pos(e.Pos()),
				fmt.Sprintf("%d write(s) in its call tree, all to local or fresh memory", nd))
		}
	}
	// R.2 inventory of functions with parameter effects and their call sites
	var builders []*ssa.Function
	for fn := range reach {
		if !p.InModule(fn) {
			continue
		}
		for _, ef := range eff.Writes(fn) {
			if ef.Root.Kind == core.RParam {
				builders = append(builders, fn)
				break
			}
		}
	}
	sort.Slice(builders, func(i, j int) bool { return builders[i].String() < builders[j].String() })
	for _, b := range builders {
		isEntry := false
		for _, e := range entries {
			if e == b {
				isEntry = true
			}
		}
		if isEntry {
			continue // already reported under .1
		}
		for _, site := range p.Callers(b) {
			if !p.InModule(site.Parent()) || !reach[site.Parent()] {
				continue
			}
			args := site.Common().Args
			ok := true
			detail := ""
			for _, ef := range eff.Writes(b) {
				if ef.Root.Kind != core.RParam || ef.Root.Idx >= len(args) {
					continue
				}
				for _, root := range eff.MemRoots(args[ef.Root.Idx]) {
					if root.Kind != core.RLocal && root.Kind != core.RFresh && !(root.Kind == core.RParam && !root.Shared()) {
						// allowed when the caller is itself a non-entry helper; entry-level exposure is caught by .1
						detail = "argument rooted at " + root.String()
						isE := false
						for _, e := range entries {
							if e == site.Parent() {
								isE = true
							}
						}
						if isE {
							ok = false
						}
					}
				}
			}
			r.Check(ok, prefix+".2", core.FuncName(site.Parent()), "call of writer "+core.FuncName(b)+" passes only local/fresh memory", p.InstrPos(site), detail)
		}
	}
	// R.7 unmodelled calls
	nUnk := 0
	for fn := range reach {
		if !p.InModule(fn) {
			continue
		}
		for _, u := range eff.Unknown[fn] {
			nUnk++
			r.Unrecognised(prefix+".7", core.FuncName(fn), "call with unmodelled effects", "", u)
		}
	}
	if nUnk == 0 {
		r.Pass(prefix+".7", "-", "every call reachable from the API has modelled effects", "", fmt.Sprintf("%d reachable functions", len(reach)))
	}
}
