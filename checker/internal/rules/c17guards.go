package rules

import (
	"go/constant"
	"fmt"
	"go/token"

	"golang.org/x/tools/go/ssa"

	"spgverif/internal/core"
)

// liveGuards is core.Guards with blocks that end the process (os.Exit,
// log.Fatal…) not counted as predecessors: go/ssa gives `if c { usage(); os.Exit(2) }`
// a fall-through edge, which would otherwise hide the guard !c from what follows.
func liveGuards(b *ssa.BasicBlock) []core.Guard {
	livePreds := func(x *ssa.BasicBlock) (n int, only *ssa.BasicBlock) {
		for _, p := range x.Preds {
			if !blockExits(p) {
				n++
				only = p
			}
		}
		return
	}
	var out []core.Guard
	for d := b.Idom(); d != nil; d = d.Idom() {
		if len(d.Instrs) == 0 || blockExits(d) {
			continue
		}
		iff, ok := d.Instrs[len(d.Instrs)-1].(*ssa.If)
		if !ok {
			continue
		}
		t, f := d.Succs[0], d.Succs[1]
		if t == f {
			continue
		}
		nt, pt := livePreds(t)
		nf, pf := livePreds(f)
		td := nt == 1 && pt == d && (t == b || t.Dominates(b) || liveDominates(t, b))
		fd := nf == 1 && pf == d && (f == b || f.Dominates(b) || liveDominates(f, b))
		if td && !fd {
			out = append(out, core.Guard{Cond: iff.Cond, Pos: true, If: iff})
		} else if fd && !td {
			out = append(out, core.Guard{Cond: iff.Cond, Pos: false, If: iff})
		}
	}
	// plus what a tested merge implies (an error handed up by an expanded helper; see core.Guards)
	return core.ThreadGuards(out)
}

// liveDominates: every path from the entry to b that runs through no process-ending block passes through a
// (after `if err != nil { usage(); os.Exit(2) }` written inside an expanded helper the exit block still has
// an edge to the code that follows, which plain dominance counts).
func liveDominates(a, b *ssa.BasicBlock) bool {
	fn := b.Parent()
	if len(fn.Blocks) == 0 || a == fn.Blocks[0] {
		return a == fn.Blocks[0]
	}
	seen := map[*ssa.BasicBlock]bool{}
	stack := []*ssa.BasicBlock{fn.Blocks[0]}
	for len(stack) > 0 {
		x := stack[len(stack)-1]
		stack = stack[:len(stack)-1]
		if seen[x] || x == a {
			continue
		}
		seen[x] = true
		if x == b {
			return false
		}
		if blockExits(x) {
			continue
		}
		stack = append(stack, x.Succs...)
	}
	return true
}

// checkCLIGuards: the conditions under which the CLI does what it does (R17.4/R17.3):
// the structural rules of checkMainCFG say that certain blocks exist and are
// ordered; these say that they are entered under the right tests.
func checkCLIGuards(p *core.Program, r *core.Report, d *ssa.Function, retStatus bool, inits map[string]*core.InitVal) {
	name := core.FuncName(d)
	isArgs := func(v ssa.Value) bool {
		v = core.StripType(v)
		if ld, ok := v.(*ssa.UnOp); ok && ld.Op == token.MUL {
			if g, ok := ld.X.(*ssa.Global); ok && g.Pkg != nil && g.Pkg.Pkg.Path() == "os" && g.Name() == "Args" {
				return true
			}
		}
		if retStatus {
			if pa, ok := v.(*ssa.Parameter); ok && pa.Type().String() == "[]string" {
				return true
			}
		}
		return false
	}
	hasArgsParam := false
	for _, pa := range d.Params {
		if pa.Type().String() == "[]string" {
			hasArgsParam = true
		}
	}
	if retStatus && hasArgsParam {
		okArg := false
		if mainFn := p.CmdFunc("main"); mainFn != nil {
			for _, c := range core.Calls(mainFn) {
				if core.StaticCallee(c) == d {
					for _, a := range c.Common().Args {
						if ld, ok := a.(*ssa.UnOp); ok {
							if g, ok := ld.X.(*ssa.Global); ok && g.Name() == "Args" {
								okArg = true
							}
						}
					}
				}
			}
		}
		r.Check(okArg, "R17.4", name, "the run function is given os.Args", p.Pos(d.Pos()), "")
	}
	argElem := func(v ssa.Value, idx int64) bool {
		ld, ok := v.(*ssa.UnOp)
		if !ok || ld.Op != token.MUL {
			return false
		}
		ia, ok := ld.X.(*ssa.IndexAddr)
		if !ok || !isArgs(ia.X) {
			return false
		}
		k, isC := core.ConstInt(ia.Index)
		return isC && k == idx
	}
	setNameOf := func(v ssa.Value) string {
		if ld, ok := v.(*ssa.UnOp); ok && ld.Op == token.MUL {
			if g, ok := ld.X.(*ssa.Global); ok {
				if iv := inits[g.Name()]; iv != nil && iv.Call != nil && core.CallName(iv.Call) == "flag.NewFlagSet" {
					s, _ := core.ConstString(iv.Call.Call.Args[0])
					return s
				}
			}
		}
		return ""
	}
	entropyFlag := func(v ssa.Value) string {
		// *(*flagVar) or *flagVar (Var form) of a flag called "entropy": returns the global's name
		ld, ok := v.(*ssa.UnOp)
		if !ok || ld.Op != token.MUL {
			return ""
		}
		if g, ok := ld.X.(*ssa.Global); ok && cli.flagDirect[g.Name()] && cli.flagOf[g.Name()] == "entropy" {
			return g.Name()
		}
		if ld2, ok := ld.X.(*ssa.UnOp); ok && ld2.Op == token.MUL {
			if g, ok := ld2.X.(*ssa.Global); ok && !cli.flagDirect[g.Name()] && cli.flagOf[g.Name()] == "entropy" {
				return g.Name()
			}
		}
		return ""
	}
	nEntropyFlags := 0
	for _, n := range cli.flagOf {
		if n == "entropy" {
			nEntropyFlags++
		}
	}
	want := map[*ssa.Function]string{cli.charGen: "characters", cli.wlGen: "words"}
	nCtor, nGen := 0, 0
	for _, b := range d.Blocks {
		for _, in := range b.Instrs {
			c, ok := in.(ssa.CallInstruction)
			if !ok {
				continue
			}
			pos := p.InstrPos(c)
			// ---- constructor calls: subcommand word, flags parsed from the rest of the command line
			if f := core.StaticCallee(c); f != nil && want[f] != "" {
				nCtor++
				word := want[f]
				gs := liveGuards(b)
				okWord, okCount, okParsed := false, false, false
				var parse *ssa.Call
				for _, g := range gs {
					rel, isRel := core.AsRel(g)
					if !isRel {
						continue
					}
					if s, isS := core.ConstString(rel.Y); isS && rel.Op == token.EQL && argElem(rel.X, 1) && s == word {
						okWord = true
					}
					if x, isLen := core.LenOf(rel.X); isLen && isArgs(x) {
						if k, isC := core.ConstInt(rel.Y); isC && (rel.Op == token.NEQ && k == 1 || rel.Op == token.GEQ && k == 2 || rel.Op == token.GTR && k == 1) {
							okCount = true
						}
					}
					if pc, isCall := rel.X.(*ssa.Call); isCall && core.CallName(pc) == "(*flag.FlagSet).Parse" && rel.Op == token.EQL && core.IsNilConst(rel.Y) {
						parse = pc
					}
				}
				r.Check(okWord, "R17.4", name, "the "+word+" recipe is built iff the first argument is \""+word+"\"", pos, "the constructor call is not guarded by os.Args[1] == \""+word+"\"")
				r.Check(okCount, "R17.4", name, "a subcommand is looked at only when there is one (len(os.Args) > 1)", pos, "")
				if parse != nil {
					sl, isSl := parse.Call.Args[1].(*ssa.Slice)
					okRest := isSl && isArgs(sl.X) && sl.High == nil && sl.Max == nil
					if okRest {
						k, isC := core.ConstInt(sl.Low)
						okRest = isC && k == 2
					}
					okParsed = okRest && setNameOf(parse.Call.Args[0]) == word
				}
				r.Check(okParsed, "R17.4", name, "the "+word+" flags are parsed from os.Args[2:] by the "+word+" flag set, and the recipe is built only if that succeeded", pos,
					fmt.Sprintf("parse call found=%v", parse != nil))
			}
			// ---- Entropy()/Generate(): chosen by the --entropy flags
			if c.Common().IsInvoke() && (c.Common().Method.Name() == "Generate" || c.Common().Method.Name() == "Entropy") && b.Parent() == d {
				nGen++
				if c.Common().Method.Name() == "Generate" {
					seen := map[string]bool{}
					for _, g := range liveGuards(b) {
						if n := entropyFlag(g.Cond); n != "" && !g.Pos {
							seen[n] = true
						}
					}
					r.Check(len(seen) == nEntropyFlags && nEntropyFlags > 0, "R17.4", name, "a password is generated iff no --entropy flag is set", pos,
						fmt.Sprintf("Generate() is guarded by the negation of %d of %d entropy flags", len(seen), nEntropyFlags))
				} else {
					okAll := len(b.Preds) > 0
					for i, pb := range b.Preds {
						_ = i
						iff, isIf := pb.Instrs[len(pb.Instrs)-1].(*ssa.If)
						if !isIf || pb.Succs[0] != b {
							okAll = false
							continue
						}
						if entropyFlag(iff.Cond) != "" {
							continue
						}
						// the disjunction of the flags evaluated into a bool first (`want := *a || *b; if want {`):
						// a merge whose every edge is `true` coming from the true edge of a flag test, or a flag's value
						okPhi := false
						if phi, isPhi := iff.Cond.(*ssa.Phi); isPhi {
							okPhi = true
							nFlags := map[string]bool{}
							for j, e := range phi.Edges {
								pp := phi.Block().Preds[j]
								if n := entropyFlag(e); n != "" {
									nFlags[n] = true
									continue
								}
								cst, isC := e.(*ssa.Const)
								pif, isIf2 := pp.Instrs[len(pp.Instrs)-1].(*ssa.If)
								if isC && cst.Value != nil && cst.Value.Kind() == constant.Bool && constant.BoolVal(cst.Value) && isIf2 && pp.Succs[0] == phi.Block() {
									if n := entropyFlag(pif.Cond); n != "" {
										nFlags[n] = true
										continue
									}
								}
								okPhi = false
							}
							if len(nFlags) != nEntropyFlags {
								okPhi = false
							}
						}
						if !okPhi {
							okAll = false
						}
					}
					r.Check(okAll, "R17.4", name, "the entropy is printed iff an --entropy flag is set", pos, "the Entropy() branch is not entered exactly from the true edges of the --entropy flag tests")
				}
			}
		}
	}
	r.Floor("R17.4", "recipe constructor calls in the driver", nCtor, 2)
	_ = nGen
}

// checkCLIHelperGuards: conditions inside the CLI's helpers (R17.3).
func checkCLIHelperGuards(p *core.Program, r *core.Report) {
	// parseCharacterClasses(value, defaults)
	if pcc := cli.classFlags; pcc != nil && len(pcc.Params) == 2 {
		name := core.FuncName(pcc)
		value := ssa.Value(pcc.Params[0])
		for _, c := range core.Calls(pcc) {
			cv, ok := c.(*ssa.Call)
			if !ok {
				continue
			}
			switch core.CallName(cv) {
			case "strings.Split":
				okG := false
				for _, g := range liveGuards(cv.Block()) {
					if v, nonEmpty, ok := core.EmptinessTest(g); ok && v == value && nonEmpty {
						okG = true
					}
				}
				r.Check(okG, "R17.3", name, "the flag value is split into class words iff it is not empty (else the defaults)", p.InstrPos(cv), "")
				// what is split is the flag value with every space removed, at the commas
				okStrip, what := false, core.Describe(cv.Call.Args[0])
				if rc, isCall := cv.Call.Args[0].(*ssa.Call); isCall && len(rc.Call.Args) >= 3 && rc.Call.Args[0] == value {
					a, _ := core.ConstString(rc.Call.Args[1])
					b, isB := core.ConstString(rc.Call.Args[2])
					switch core.CallName(rc) {
					case "strings.Replace":
						k, isC := core.ConstInt(rc.Call.Args[3])
						okStrip = isC && k < 0 && a == " " && isB && b == ""
					case "strings.ReplaceAll":
						okStrip = a == " " && isB && b == ""
					}
				}
				sep, _ := core.ConstString(cv.Call.Args[1])
				r.Check(okStrip && sep == ",", "R17.3", name, "the class list is the flag value without its spaces, split at the commas", p.InstrPos(cv),
					"split of "+what+" at "+fmt.Sprintf("%q", sep)+": a list written `a, b` as in the usage text would lose a class")
			case "strings.Replace":
				k, isC := core.ConstInt(cv.Call.Args[3])
				a, _ := core.ConstString(cv.Call.Args[1])
				b, _ := core.ConstString(cv.Call.Args[2])
				r.Check(isC && k < 0 && a == " " && b == "", "R17.3", name, "all spaces are removed from the class list", p.InstrPos(cv), fmt.Sprintf("Replace(%q, %q, %d)", a, b, k))
			}
		}
		// every class word is looked at: the accumulating loop ranges over the whole list
		for _, l := range core.Loops(pcc) {
			ri, ok := core.AsRange(l)
			if !ok || ri.Kind != "slice" {
				continue
			}
			_, isSlice := core.StripType(ri.X).(*ssa.Slice)
			r.Check(!isSlice, "R17.3", name, "the class words are all looked at (the loop ranges over the whole list)", p.InstrPos(l.Header.Instrs[0]), core.Describe(ri.X))
		}
		// acc | table[word] only for known words
		core.Instrs(pcc, func(in ssa.Instruction) {
			bo, ok := in.(*ssa.BinOp)
			if !ok || bo.Op != token.OR {
				return
			}
			for _, side := range []ssa.Value{bo.X, bo.Y} {
				ex, ok := side.(*ssa.Extract)
				if !ok || ex.Index != 0 {
					continue
				}
				if _, isLk := ex.Tuple.(*ssa.Lookup); !isLk {
					if cc, isCall := ex.Tuple.(*ssa.Call); !isCall || lookupTable2(core.StaticCallee(cc)) == nil {
						continue
					}
				}
				okG := false
				for _, g := range liveGuards(bo.Block()) {
					if e1, ok := g.Cond.(*ssa.Extract); ok && e1.Tuple == ex.Tuple && e1.Index == 1 && g.Pos {
						okG = true
					}
				}
				r.Check(okG, "R17.3", name, "a class word contributes its flag iff the table has it", p.InstrPos(bo), "")
			}
		})
	}
	// wlGenerator: --file iff non-empty
	if wl := cli.wlGen; wl != nil {
		name := core.FuncName(wl)
		fileFlag := func(v ssa.Value) bool {
			if a := actualArg(p, v); a != nil {
				v = a // the builder is given the flag's value by its one caller
			}
			ld, ok := v.(*ssa.UnOp)
			if !ok || ld.Op != token.MUL {
				return false
			}
			if g, ok := ld.X.(*ssa.Global); ok {
				return cli.flagDirect[g.Name()] && cli.flagOf[g.Name()] == "file"
			}
			if ld2, ok := ld.X.(*ssa.UnOp); ok {
				if g, ok := ld2.X.(*ssa.Global); ok {
					return !cli.flagDirect[g.Name()] && cli.flagOf[g.Name()] == "file"
				}
			}
			return false
		}
		for _, c := range core.Calls(wl) {
			f := core.StaticCallee(c)
			if f == nil || (f != cli.fileList && f != cli.builtinList) {
				continue
			}
			wantOp := token.NEQ
			what := "the --file list is loaded iff --file is not empty"
			if f == cli.builtinList {
				wantOp, what = token.EQL, "the built-in list is used iff --file is empty"
			}
			okG := false
			for _, g := range liveGuards(c.Block()) {
				if v, nonEmpty, ok := core.EmptinessTest(g); ok && fileFlag(v) && nonEmpty == (wantOp == token.NEQ) {
					okG = true
				}
			}
			r.Check(okG, "R17.3", name, what, p.InstrPos(c), "")
		}
	}
	// list sources: errors end the run with status 1, success returns the list
	for _, src := range []*ssa.Function{cli.fileList, cli.builtinList} {
		if src == nil {
			continue
		}
		name := core.FuncName(src)
		for _, c := range core.Calls(src) {
			cv, ok := c.(*ssa.Call)
			if !ok {
				continue
			}
			cn := core.CallName(cv)
			if core.StaticCallee(cv) != p.Func("NewWordList") && cn != "io/ioutil.ReadFile" && cn != "os.ReadFile" {
				continue
			}
			var errV ssa.Value
			for _, ref := range core.Referrers(cv) {
				if ex, ok := ref.(*ssa.Extract); ok && ex.Index == 1 {
					errV = ex
				}
			}
			if errV == nil {
				r.Fail("R17.4", name, "the error of "+cn+" is inspected", p.InstrPos(cv), "error result discarded")
				continue
			}
			okRet, nRet := true, 0
			for _, ret := range core.Returns(src) {
				if blockExits(ret.Block()) {
					continue
				}
				nRet++
				g1 := false
				for _, g := range liveGuards(ret.Block()) {
					if rel, ok := core.AsRel(g); ok && rel.X == errV && rel.Op == token.EQL && core.IsNilConst(rel.Y) {
						g1 = true
					}
				}
				if !g1 {
					okRet = false
				}
			}
			r.Check(okRet && nRet > 0, "R17.4", name, "the list is returned only when "+cn+" reported no error", p.InstrPos(cv), "")
			okExit := false
			for _, b := range src.Blocks {
				if k, ends := exitStatus(b, false); ends && blockExits(b) && k == 1 {
					for _, g := range liveGuards(b) {
						if rel, ok := core.AsRel(g); ok && rel.X == errV && rel.Op == token.NEQ && core.IsNilConst(rel.Y) {
							okExit = true
						}
					}
				}
			}
			r.Check(okExit, "R17.4", name, "an error of "+cn+" ends the run with status 1", p.InstrPos(cv), "")
		}
	}
}
