package rules

import (
	"fmt"
	"go/constant"
	"go/token"
	"go/types"
	"regexp"
	"sort"
	"strings"

	"golang.org/x/tools/go/ssa"

	"spgverif/internal/core"
)

// cli is the role-resolved model of the CLI for the program being checked.
var cli *cliModel

func init() {
	register(&Property{
		Meta: core.PropertyMeta{
			ID: "C17",
			Explanation: "Partial: decides the CLI's structural clauses without running it. Tables: the flag-word maps (classes, separators, " +
				"capitalisation) are extracted from the package initialiser and compared with the library constants and the usage text; flag " +
				"defaults and defaultCharRecipe likewise. Wiring: charGenerator/wlGenerator store the parsed flag values into the documented " +
				"recipe fields of the recipe they return and main calls Generate/Entropy on exactly that recipe. Exit statuses and stdout are " +
				"decided on main's CFG with os.Exit/log.Fatal as terminators: no live path reaches generation without a matched subcommand, the " +
				"other paths exit with the usage status, the generation-error edge ends in log.Fatal before any stdout write, and every live path " +
				"from entry to normal return executes exactly one stdout-writing call whose text is one line; no function reachable from main " +
				"other than main/printUsage writes to stdout except under an unhonourable-recipe guard.",
			Rules: []string{
				"R17.1 word tables: ccMap = {uppercase,lowercase,digits,symbols,ambiguous} -> the library flags; capitalizeMap maps each word to the CapScheme constant of that string and covers all five; separatorMap: five constant separators via a closure returning (char, 0), digit -> SFDigits1, none -> SFNone; usage text lists exactly the key sets",
				"R17.2 defaults: flags (length=defaultCharRecipe.length=20, size 4, list words, separator hyphen, capitalize none, entropy false); defaultCharRecipe allow = the four classes, exclude = ambiguous, require empty; parseWordList maps words/syllables to the shipped lists, default case exits with the usage status",
				"R17.3 wiring: charGenerator returns NewCharRecipe(*flagLength) with Allow/Require/Exclude = parseCharacterClasses(*flagAllow|Require|Exclude, default allow|require|exclude); wlGenerator returns NewWLRecipe(*flagSize, list) with SeparatorFunc/Capitalize from the flags; parseCharacterClasses ORs ccMap entries of the split value (or defaults when empty); main calls Generate/Entropy on the recipe built for the matched subcommand",
				"R17.4 exit statuses: constants 0/1/2; flag sets are ExitOnError; every live path that does not pass a generator constructor ends in os.Exit(2); generation error -> log.Fatal* (status 1) before any stdout write; success path returns normally",
				"R17.6 every package-level variable of cmd/opgen (word tables, default record, preset map, flag variables, exit codes) keeps its initialiser's value: no store, map/slice update or address escape anywhere in the module outside the package initialiser",
				"R17.5 stdout discipline: exactly one stdout-writing call on every live path from main's entry to its return (Println, or Printf with a constant format containing exactly one trailing newline); no other function reachable from main writes to stdout unless dominated by an unhonourable-recipe guard (size-valued parameter < 1)",
			},
			Trusted:    append([]string{"package flag: ExitOnError exits with status 2 on an unknown flag", "log.Fatal* writes to stderr and exits with status 1"}, commonTrusted...),
			NotDecided: []string{"that the printed password is one the recipe could have generated (C03/C05 for the wired recipe)", "behaviour for unknown separator/class words (outside the statement)", "the binary is not executed"},
		},
		Run: runC17,
	})
}

var cliInits map[string]*core.InitVal

// cliModel resolves the CLI's unexported names by role.
type cliModel struct {
	ccMap, sepMap, capMap, defaults string            // global names
	flagOf                          map[string]string // global var -> "set/flagname"
	flagDirect                      map[string]bool   // the global holds the value itself (XxxVar form), not a pointer to it
	charGen, wlGen, classFlags      *ssa.Function
	sepFor, capFor, ccFor           *ssa.Function
	builtinList, fileList, usage    *ssa.Function
}

func resolveCLI(p *core.Program, inits map[string]*core.InitVal) *cliModel {
	m := &cliModel{flagOf: map[string]string{}, flagDirect: map[string]bool{}}
	for name, mem := range p.Cmd.Members {
		g, ok := mem.(*ssa.Global)
		if !ok {
			continue
		}
		t := g.Type().(*types.Pointer).Elem()
		switch tt := t.Underlying().(type) {
		case *types.Map:
			switch core.NamedOf(tt.Elem()) {
			case core.ModulePath + ".CTFlag":
				m.ccMap = name
			case core.ModulePath + ".SFFunction":
				m.sepMap = name
			case core.ModulePath + ".CapScheme":
				m.capMap = name
			}
		case *types.Struct:
			if n, ok := t.(*types.Named); ok && n.Obj().Pkg() == p.CmdPkg.Types {
				hasInt, hasSl := false, false
				for i := 0; i < tt.NumFields(); i++ {
					switch tt.Field(i).Type().Underlying().(type) {
					case *types.Basic:
						hasInt = true
					case *types.Slice:
						hasSl = true
					}
				}
				if hasInt && hasSl {
					m.defaults = name
				}
			}
		}
		if iv := inits[name]; iv != nil && iv.Call != nil {
			switch core.CallName(iv.Call) {
			case "(*flag.FlagSet).Int", "(*flag.FlagSet).String", "(*flag.FlagSet).Bool":
				n, _ := core.ConstString(iv.Call.Call.Args[1])
				m.flagOf[name] = n
			}
		}
	}
	for _, initFn := range cmdInitFuncs(p) {
		for _, c := range core.Calls(initFn) {
			switch core.CallName(c) {
			case "(*flag.FlagSet).IntVar", "(*flag.FlagSet).StringVar", "(*flag.FlagSet).BoolVar":
				if g, ok := c.Common().Args[1].(*ssa.Global); ok && g.Pkg == p.Cmd {
					n, _ := core.ConstString(c.Common().Args[2])
					m.flagOf[g.Name()] = n
					m.flagDirect[g.Name()] = true
				}
			}
		}
	}
	for _, fn := range p.ModuleFuncs() {
		if fn.Pkg != p.Cmd || fn.Parent() != nil || fn.Synthetic != "" {
			continue
		}
		sig := fn.Signature
		// the recipe builders: by result type; they may read the flags themselves or be given their values
		if sig.Results().Len() == 1 {
			switch core.NamedOf(sig.Results().At(0).Type()) {
			case core.ModulePath + ".CharRecipe":
				m.charGen = fn
			case core.ModulePath + ".WLRecipe":
				m.wlGen = fn
			}
		}
	}
	storedCallee := func(fn *ssa.Function, field string) *ssa.Function {
		var out *ssa.Function
		if fn == nil {
			return nil
		}
		core.Instrs(fn, func(in ssa.Instruction) {
			if st, ok := in.(*ssa.Store); ok {
				if fa, ok := st.Addr.(*ssa.FieldAddr); ok && core.FieldName(fa) == field {
					if c, ok := st.Val.(*ssa.Call); ok {
						out = core.StaticCallee(c)
					}
				}
			}
		})
		return out
	}
	m.classFlags = storedCallee(m.charGen, "Allow")
	m.sepFor = storedCallee(m.wlGen, "SeparatorFunc")
	m.capFor = storedCallee(m.wlGen, "Capitalize")
	// word-list sources: functions returning *spg.WordList
	for _, fn := range p.ModuleFuncs() {
		if fn.Pkg != p.Cmd || fn.Parent() != nil || fn.Signature.Results().Len() != 1 || core.NamedOf(fn.Signature.Results().At(0).Type()) != core.ModulePath+".WordList" {
			continue
		}
		// a source takes the flag's value (a file path or a list name); a function without such a parameter only chooses between the sources
		if fn.Signature.Params().Len() != 1 || !isStringT(fn.Signature.Params().At(0).Type()) {
			continue
		}
		readsFile := false
		for _, c := range core.Calls(fn) {
			if n := core.CallName(c); n == "io/ioutil.ReadFile" || n == "os.ReadFile" {
				readsFile = true
			}
		}
		if readsFile {
			m.fileList = fn
		} else {
			m.builtinList = fn
		}
	}
	// usage printer: niladic function called in main in a block that exits
	if mainFn, retStatus := cliDriver(p); mainFn != nil {
		for _, b := range mainFn.Blocks {
			if k, ends := exitStatus(b, retStatus); !blockExits(b) && !(retStatus && ends && k == 2) {
				continue
			}
			for _, in := range b.Instrs {
				if c, ok := in.(*ssa.Call); ok {
					if f := core.StaticCallee(c); f != nil && f.Pkg == p.Cmd && f.Signature.Params().Len() == 0 && f.Signature.Results().Len() == 0 {
						m.usage = f
						// `exitWithUsage()`: the printer is the niladic function it calls before exiting
						if _, never := helperExit(f, 0); never {
							for _, c2 := range core.Calls(f) {
								if g := core.StaticCallee(c2); g != nil && g.Pkg == p.Cmd && g.Signature.Params().Len() == 0 && g.Signature.Results().Len() == 0 {
									m.usage = g
								}
							}
						}
					}
				}
			}
		}
	}
	return m
}

func runC17(p *core.Program, r *core.Report) {
	if p.Cmd == nil {
		r.Unrecognised("R17.1", "-", "package cmd/opgen", "", "not loaded")
		return
	}
	inits := core.GlobalInits(p.Cmd)
	// the tables, defaults and flag variables are read from their initialisers: nothing in the
	// module may change them afterwards (R17.6; the flag package writes through the pointers the
	// flag variables hold, never to the variables)
	checkPackageVarsFrozen(p, r, "R17.6", p.Cmd, "CLI", 10)
	// … and the library values the tables point at (digit -> SFDigits1, none -> SFNone, the class
	// flags, the shipped lists) are the documented ones only while nobody reassigns them (= C16 R16.6)
	r.Borrow("R17.6", func() { checkDocumentedGlobalsFrozen(p, r, "R16.6") })
	cli = resolveCLI(p, inits)
	cliInits = inits
	initFn := core.PackageInit(p.Cmd)
	_ = initFn

	// ---------- R17.1 tables
	wantCC := map[string]string{"uppercase": "Uppers", "lowercase": "Lowers", "digits": "Digits", "symbols": "Symbols", "ambiguous": "Ambiguous"}
	mapKeys := map[string][]string{}
	var ccTable *table
	if iv := inits[cli.ccMap]; iv != nil && iv.Map != nil {
		ccTable = &table{iv.Map, iv.Store.Pos()}
	} else if pcc := cli.classFlags; pcc != nil {
		// the class table written as a switch: the two-result lookup function parseCharacterClasses calls
		for _, c := range core.Calls(pcc) {
			if t := lookupTable2(core.StaticCallee(c)); t != nil {
				ccTable = t
			}
		}
	}
	if iv := ccTable; iv == nil {
		r.Unrecognised("R17.1", "init", "ccMap", "", "neither a map literal nor a switch on the class word found")
	} else {
		got := map[string]uint64{}
		for _, e := range iv.Map {
			k, _ := core.ConstString(e.Key)
			v, _ := core.ConstUint(e.Value)
			got[k] = v
			mapKeys["cc"] = append(mapKeys["cc"], k)
		}
		for w, cn := range wantCC {
			fv, _ := constU(p, cn)
			v, ok := got[w]
			r.Check(ok && v == fv, "R17.1", "init", "ccMap[\""+w+"\"] == spg."+cn, p.Pos(iv.Pos), fmt.Sprintf("got %d want %d", v, fv))
		}
		r.Check(len(got) == len(wantCC), "R17.1", "init", "ccMap has exactly the five documented words", p.Pos(iv.Pos), fmt.Sprint(len(got)))
	}
	if iv := lookupTable(p, inits, cli.capFor, cli.capMap); iv == nil {
		r.Unrecognised("R17.1", "init", "capitalizeMap", "", "neither a map literal nor a switch on the flag value found")
	} else {
		caps := core.ConstsOfType(p.LibPkg.Types, "CapScheme")
		valSet := map[string]bool{}
		for _, v := range caps {
			valSet[constant.StringVal(v)] = true
		}
		seen := map[string]bool{}
		for _, e := range iv.Map {
			k, _ := core.ConstString(e.Key)
			v, _ := core.ConstString(e.Value)
			mapKeys["cap"] = append(mapKeys["cap"], k)
			seen[v] = true
			r.Check(k == v && valSet[v], "R17.1", "init", "capitalizeMap[\""+k+"\"] is the CapScheme constant of the same word", p.Pos(e.Pos), "maps to "+v)
		}
		r.Check(len(seen) == len(valSet), "R17.1", "init", "capitalizeMap covers all CapScheme constants", p.Pos(iv.Pos), fmt.Sprintf("%d of %d", len(seen), len(valSet)))
	}
	wantSep := map[string]string{"hyphen": "-", "space": " ", "comma": ",", "period": ".", "underscore": "_"}
	if iv := lookupTable(p, inits, cli.sepFor, cli.sepMap); iv == nil {
		r.Unrecognised("R17.1", "init", "separatorMap", "", "neither a map literal nor a switch on the flag value found")
	} else {
		n := 0
		for _, e := range iv.Map {
			k, _ := core.ConstString(e.Key)
			mapKeys["sep"] = append(mapKeys["sep"], k)
			n++
			pos := p.Pos(e.Pos)
			if ch, isConst := wantSep[k]; isConst {
				c, ok := e.Value.(*ssa.Call)
				okv := false
				why := "not a call of the constant-separator factory"
				if ok && len(c.Call.Args) == 1 {
					s, _ := core.ConstString(c.Call.Args[0])
					f := core.StaticCallee(c)
					okF, whyF := constSeparatorFactory(f)
					okv = s == ch && okF
					why = fmt.Sprintf("argument %q (want %q); factory: %s", s, ch, whyF)
				}
				r.Check(okv, "R17.1", "init", "separatorMap[\""+k+"\"] yields \""+ch+"\" with entropy 0", pos, why)
				continue
			}
			wantG := map[string]string{"digit": "SFDigits1", "none": "SFNone"}[k]
			okv := false
			if ld, ok := e.Value.(*ssa.UnOp); ok && ld.Op == token.MUL {
				if g, ok := ld.X.(*ssa.Global); ok && g.Pkg == p.Lib && g.Name() == wantG {
					okv = true
				}
			}
			r.Check(okv && wantG != "", "R17.1", "init", "separatorMap[\""+k+"\"] is spg."+wantG, pos, core.Describe(e.Value))
		}
		r.Check(n == 7, "R17.1", "init", "separatorMap has exactly the seven documented words", p.Pos(iv.Pos), fmt.Sprint(n))
	}
	checkUsageText(p, r, mapKeys)

	// ---------- R17.3 wiring (first: it also tells which defaults field plays which role)
	checkWiring(p, r)

	// ---------- R17.2 defaults
	checkFlagDefaults(p, r, inits)

	// ---------- R17.4 / R17.5
	checkMainCFG(p, r)
	if d, retStatus := cliDriver(p); d != nil && cli.charGen != nil && cli.wlGen != nil {
		checkCLIGuards(p, r, d, retStatus, inits)
		checkCLIHelperGuards(p, r)
		// "a refused recipe exits with status 1": the glue turns a Generate() *error* into status 1; a panic in
		// the library would end the process with status 2 instead. So the generators refuse by returning an
		// error, never by panicking (= C13 R13.1/R13.2/R13.4 for the two Generate methods)
		borrowSelected(p, r, runC13, "R17.4", func(o core.Obligation) bool {
			return o.Rule == "R13.1" || o.Rule == "R13.2" || o.Rule == "R13.4"
		})
	}
}

// constSeparatorFactory: f(value) returns a closure returning (value, 0).
func constSeparatorFactory(f *ssa.Function) (bool, string) {
	if f == nil || len(f.Params) != 1 {
		return false, "no static factory"
	}
	rets := core.Returns(f)
	if len(rets) != 1 {
		return false, "factory has several returns"
	}
	mc, ok := core.StripType(rets[0].Results[0]).(*ssa.MakeClosure)
	if !ok || len(mc.Bindings) != 1 {
		return false, "factory does not return a closure over its argument"
	}
	byRef := false
	if mc.Bindings[0] != ssa.Value(f.Params[0]) {
		// captured by reference: a cell holding the argument, written once
		al, isAl := mc.Bindings[0].(*ssa.Alloc)
		if !isAl {
			return false, "factory does not return a closure over its argument"
		}
		n := 0
		for _, ref := range core.Referrers(al) {
			if st, isSt := ref.(*ssa.Store); isSt {
				n++
				if st.Val != ssa.Value(f.Params[0]) {
					return false, "captured cell holds something other than the argument"
				}
			}
		}
		if n != 1 {
			return false, "captured cell written more than once"
		}
		byRef = true
	}
	clo := mc.Fn.(*ssa.Function)
	for _, ret := range core.Returns(clo) {
		if len(ret.Results) != 2 || !isZeroConst(ret.Results[1]) {
			return false, "closure does not return (value, 0)"
		}
		v := ret.Results[0]
		if byRef {
			ld, isLd := v.(*ssa.UnOp)
			if !isLd || ld.Op != token.MUL || ld.X != ssa.Value(clo.FreeVars[0]) {
				return false, "closure does not return the captured value"
			}
		} else if v != ssa.Value(clo.FreeVars[0]) {
			return false, "closure does not return the captured value"
		}
	}
	for _, in := range clo.Blocks[0].Instrs {
		if st, isSt := in.(*ssa.Store); isSt {
			return false, "closure writes memory: " + st.String()
		}
	}
	if len(core.Calls(clo)) != 0 {
		return false, "closure calls something"
	}
	return true, "closure returns (value, 0)"
}

func checkUsageText(p *core.Program, r *core.Report, mapKeys map[string][]string) {
	pu := cli.usage
	if pu == nil {
		r.Unrecognised("R17.1", "printUsage", "usage text", "", "function not found")
		return
	}
	text := ""
	core.Instrs(pu, func(in ssa.Instruction) {
		for _, op := range in.Operands(nil) {
			if s, ok := core.ConstString(*op); ok && len(s) > len(text) {
				text = s
			}
		}
	})
	lists := map[string]*regexp.Regexp{
		"cc":  regexp.MustCompile(`<characterclasses>:\s*(.*)`),
		"sep": regexp.MustCompile(`<separatorclass>:\s*(.*)`),
		"cap": regexp.MustCompile(`capitalization <scheme>:\s*(.*)`),
	}
	for k, re := range lists {
		m := re.FindStringSubmatch(text)
		if m == nil {
			r.Unrecognised("R17.1", "printUsage", "usage lists the "+k+" words", p.Pos(pu.Pos()), "line not found in the usage text")
			continue
		}
		var words []string
		for _, w := range strings.Split(m[1], ",") {
			if w = strings.TrimSpace(w); w != "" {
				words = append(words, w)
			}
		}
		sort.Strings(words)
		have := append([]string{}, mapKeys[k]...)
		sort.Strings(have)
		r.Check(strings.Join(words, ",") == strings.Join(have, ","), "R17.1", "printUsage", "usage text lists exactly the "+k+" table's words", p.Pos(pu.Pos()),
			fmt.Sprintf("usage %v vs table %v", words, have))
	}
}

type flagDef struct {
	set, name string
	def       ssa.Value
	pos       string
}

func checkFlagDefaults(p *core.Program, r *core.Report, inits map[string]*core.InitVal) {
	defs := map[string]flagDef{}
	setName := func(v ssa.Value) string {
		if c, ok := v.(*ssa.Call); ok && core.CallName(c) == "flag.NewFlagSet" {
			// the flag set is still a local of the init code that creates it
			s, _ := core.ConstString(c.Call.Args[0])
			return s
		}
		if ld, ok := v.(*ssa.UnOp); ok && ld.Op == token.MUL {
			if g, ok := ld.X.(*ssa.Global); ok {
				if iv := inits[g.Name()]; iv != nil && iv.Call != nil && core.CallName(iv.Call) == "flag.NewFlagSet" {
					s, _ := core.ConstString(iv.Call.Call.Args[0])
					return s
				}
			}
		}
		return "?"
	}
	scan := func(in ssa.Instruction) {
		c, ok := in.(*ssa.Call)
		if !ok {
			return
		}
		switch core.CallName(c) {
		case "(*flag.FlagSet).Int", "(*flag.FlagSet).String", "(*flag.FlagSet).Bool":
			n, _ := core.ConstString(c.Call.Args[1])
			s := setName(c.Call.Args[0])
			defs[s+"/"+n] = flagDef{s, n, c.Call.Args[2], p.InstrPos(c)}
		case "(*flag.FlagSet).IntVar", "(*flag.FlagSet).StringVar", "(*flag.FlagSet).BoolVar":
			n, _ := core.ConstString(c.Call.Args[2])
			s := setName(c.Call.Args[0])
			defs[s+"/"+n] = flagDef{s, n, c.Call.Args[3], p.InstrPos(c)}
		case "flag.NewFlagSet":
			k, isC := core.ConstInt(c.Call.Args[1])
			r.Trivial(isC && k == 1, "R17.4", "init", "flag set is ExitOnError (unknown flag exits with status 2)", p.InstrPos(c), fmt.Sprint(k))
		}
	}
	for _, f := range cmdInitFuncs(p) {
		core.Instrs(f, scan)
	}
	// defaultCharRecipe
	dcr := inits[cli.defaults]
	var dLen int64 = -1
	if dcr == nil || dcr.Struct == nil {
		r.Unrecognised("R17.2", "init", "defaultCharRecipe", "", "struct literal not found")
	} else {
		pos := p.Pos(dcr.Store.Pos())
		lenField := ""
		for f, v := range dcr.Struct {
			if v == nil {
				continue
			}
			if k, isC := core.ConstInt(v); isC {
				dLen, lenField = k, f
			}
		}
		_ = lenField
		r.Trivial(dLen == 20, "R17.2", "init", "defaultCharRecipe.length == 20", pos, fmt.Sprint(dLen))
		chk := func(role string, want []string) {
			field := strings.TrimPrefix(defaultRole[role], ".")
			if field == "" {
				field = role
			}
			var got []string
			if v := dcr.Struct[field]; v != nil {
				if sl, ok := v.(*ssa.Slice); ok {
					if al, ok := sl.X.(*ssa.Alloc); ok {
						got, _ = core.StringArrayLiteral(al)
					}
				}
			}
			sort.Strings(got)
			w := append([]string{}, want...)
			sort.Strings(w)
			r.Check(strings.Join(got, ",") == strings.Join(w, ","), "R17.2", "init", "default "+role+" classes == "+fmt.Sprint(want), pos, fmt.Sprintf("field %s = %v", field, got))
		}
		chk("allow", []string{"uppercase", "lowercase", "digits", "symbols"})
		chk("exclude", []string{"ambiguous"})
		chk("require", nil)
	}
	want := map[string]interface{}{
		"characters/allow": "", "characters/require": "", "characters/exclude": "", "characters/entropy": false,
		"words/size": int64(4), "words/list": "words", "words/file": "", "words/separator": "hyphen", "words/capitalize": "none", "words/entropy": false,
	}
	for k, w := range want {
		d, ok := defs[k]
		if !ok {
			r.Fail("R17.2", "init", "flag --"+k+" is defined", "", "flag not found")
			continue
		}
		okv := false
		// a default read from a field of a package-level struct initialised with constants (a "defaults" record),
		// after that record was initialised: the constant it holds
		if ld, isLd := d.def.(*ssa.UnOp); isLd && ld.Op == token.MUL {
			if fa, isFA := ld.X.(*ssa.FieldAddr); isFA {
				if g, isG := fa.X.(*ssa.Global); isG && g.Pkg == p.Cmd {
					if iv := inits[g.Name()]; iv != nil && iv.Struct != nil && iv.NStores <= 1 {
						if cv, isC := iv.Struct[core.FieldName(fa)].(*ssa.Const); isC && iv.Store != nil && core.InstrDominates(iv.Store, ld) {
							onlyInit := true
							for _, ref := range core.Referrers(g) {
								if fa2, ok := ref.(*ssa.FieldAddr); ok && core.FieldName(fa2) == core.FieldName(fa) {
									for _, rr := range core.Referrers(fa2) {
										if st, isSt := rr.(*ssa.Store); isSt && !core.InstrDominates(st, ld) {
											onlyInit = false
										}
									}
								}
							}
							if onlyInit {
								d.def = cv
							}
						}
					}
				}
			}
		}
		switch wv := w.(type) {
		case string:
			s, isS := core.ConstString(d.def)
			okv = isS && s == wv
		case int64:
			i, isI := core.ConstInt(d.def)
			okv = isI && i == wv
		case bool:
			c, isC := d.def.(*ssa.Const)
			okv = isC && c.Value != nil && c.Value.Kind() == constant.Bool && constant.BoolVal(c.Value) == wv
		}
		r.Trivial(okv, "R17.2", "init", fmt.Sprintf("default of --%s is %v", k, w), d.pos, core.Describe(d.def))
	}
	if d, ok := defs["characters/length"]; !ok {
		r.Fail("R17.2", "init", "flag --characters/length is defined", "", "")
	} else {
		// default is defaultCharRecipe.length, loaded after the global was initialised
		okv := false
		if c, isC := core.ConstInt(d.def); isC && c == 20 {
			okv = true
		}
		if ld, ok := d.def.(*ssa.UnOp); ok && ld.Op == token.MUL {
			if fa, ok := ld.X.(*ssa.FieldAddr); ok {
				lf := core.FieldName(fa)
				if g, ok := fa.X.(*ssa.Global); ok && g.Name() == cli.defaults && dcr != nil && dLen == 20 && dcr.Struct[lf] != nil {
					if k, isC := core.ConstInt(dcr.Struct[lf]); !isC || k != 20 {
						lf = ""
					}
					// the store of the length must precede the read
					okv = true
					for _, ref := range core.Referrers(g) {
						if fa2, isFA := ref.(*ssa.FieldAddr); isFA && core.FieldName(fa2) == lf {
							for _, rr := range core.Referrers(fa2) {
								if st, isSt := rr.(*ssa.Store); isSt && !core.InstrDominates(st, ld) {
									okv = false
								}
							}
						}
						if st, isSt := ref.(*ssa.Store); isSt && st.Addr == ssa.Value(g) && !core.InstrDominates(st, ld) {
							okv = false
						}
					}
				}
			}
		}
		r.Check(okv, "R17.2", "init", "default of --length is defaultCharRecipe.length (20), read after it is initialised", d.pos, core.Describe(d.def))
	}
	// parseWordList
	pw := cli.builtinList
	if pw == nil {
		r.Unrecognised("R17.2", "parseWordList", "function", "", "not found")
		return
	}
	wantList := map[string]string{"words": "AgileWords", "syllables": "AgileSyllables"}
	found := map[string]bool{}
	core.Instrs(pw, func(in ssa.Instruction) {
		ld, ok := in.(*ssa.UnOp)
		if !ok || ld.Op != token.MUL {
			return
		}
		g, ok := ld.X.(*ssa.Global)
		if !ok || g.Pkg != p.Lib {
			return
		}
		for _, gd := range core.Guards(ld.Block()) {
			if rel, ok := core.AsRel(gd); ok && rel.Op == token.EQL && rel.X == ssa.Value(pw.Params[0]) {
				if s, isS := core.ConstString(rel.Y); isS {
					okv := wantList[s] == g.Name()
					found[s] = true
					r.Check(okv, "R17.2", "parseWordList", "list word \""+s+"\" selects spg."+wantList[s], p.InstrPos(ld), "selects "+g.Name())
				}
			}
		}
	})
	var tblOK ssa.Value
	core.Instrs(pw, func(in ssa.Instruction) {
		ex, ok := in.(*ssa.Extract)
		if !ok || ex.Index != 0 {
			return
		}
		if lk, tbl, isTbl := builtinListLookup(p, ex, pw.Params[0]); isTbl {
			for w, gname := range tbl {
				found[w] = true
				r.Check(wantList[w] == gname, "R17.2", "parseWordList", "list word \""+w+"\" selects spg."+wantList[w], p.InstrPos(lk), "selects "+gname)
			}
			for _, ref := range core.Referrers(lk) {
				if e1, isEx := ref.(*ssa.Extract); isEx && e1.Index == 1 {
					tblOK = e1
				}
			}
		}
	})
	r.Check(found["words"] && found["syllables"], "R17.2", "parseWordList", "both shipped lists are selectable", p.Pos(pw.Pos()), fmt.Sprint(found))
	// default case exits with usage
	okExit := false
	for _, c := range core.Calls(pw) {
		isExit2 := false
		if core.CallName(c) == "os.Exit" {
			if k, isC := core.ConstInt(c.Common().Args[0]); isC && k == 2 {
				isExit2 = true
			}
		} else if f := core.StaticCallee(c); f != nil && f.Blocks != nil && f.Pkg == p.Cmd {
			if k, never := helperExit(f, 0); never && k == 2 {
				isExit2 = true
			}
		}
		if isExit2 {
			{
				neither := 0
				for _, gd := range core.Guards(c.Block()) {
					if rel, ok := core.AsRel(gd); ok && rel.Op == token.NEQ && rel.X == ssa.Value(pw.Params[0]) {
						neither++
					}
				}
				if neither >= 2 {
					okExit = true
				}
				for _, gd := range core.Guards(c.Block()) {
					if tblOK != nil && gd.Cond == tblOK && !gd.Pos {
						okExit = true // the table has no such word
					}
				}
			}
		}
	}
	r.Check(okExit, "R17.4", "parseWordList", "unknown list word exits with the usage status (2)", p.Pos(pw.Pos()), "")
}

// defaultRole: which field of the defaults struct serves as default for allow/require/exclude.
var defaultRole = map[string]string{}

func checkWiring(p *core.Program, r *core.Report) {
	defaultRole = map[string]string{}
	cgF, wlF, pcc := cli.charGen, cli.wlGen, cli.classFlags
	if cgF == nil || wlF == nil || pcc == nil {
		r.Unrecognised("R17.3", "-", "charGenerator/wlGenerator/parseCharacterClasses", "", "not all found")
		return
	}
	var flagLoad func(v ssa.Value, flagVar string) bool
	flagLoad = func(v ssa.Value, flagVar string) bool {
		// a parameter of the builder: what its only caller passes
		if a := actualArg(p, v); a != nil {
			return flagLoad(a, flagVar)
		}
		// *(*flagVar)
		ld, ok := v.(*ssa.UnOp)
		if !ok || ld.Op != token.MUL {
			return false
		}
		if g, isG := ld.X.(*ssa.Global); isG {
			return cli.flagDirect[g.Name()] && cli.flagOf[g.Name()] == flagVar
		}
		ld2, ok := ld.X.(*ssa.UnOp)
		if !ok || ld2.Op != token.MUL {
			return false
		}
		g, ok := ld2.X.(*ssa.Global)
		return ok && !cli.flagDirect[g.Name()] && cli.flagOf[g.Name()] == flagVar
	}
	defaultField := func(v ssa.Value, field string) bool {
		ref, ok := core.LoadPath(v)
		if !ok {
			return false
		}
		g, ok := ref.Root.(*ssa.Global)
		if !ok {
			// the defaults handed in as a by-value parameter (receiver) whose only caller passes the defaults variable
			if al, isAl := ref.Root.(*ssa.Alloc); isAl {
				if i := paramCopiedInto(al); i >= 0 && i < len(al.Parent().Params) {
					if a := actualArg(p, al.Parent().Params[i]); a != nil {
						if ld, isLd := a.(*ssa.UnOp); isLd && ld.Op == token.MUL {
							g, ok = ld.X.(*ssa.Global)
						}
					}
				}
			}
		}
		if !ok || g.Name() != cli.defaults {
			return false
		}
		if cur, seen := defaultRole[field]; seen {
			return cur == ref.Path
		}
		defaultRole[field] = ref.Path // the field passed as the default for this role
		return true
	}
	// charGenerator
	{
		name := core.FuncName(cgF)
		rets := core.Returns(cgF)
		var recipe *ssa.Call
		if len(rets) == 1 {
			if c, ok := rets[0].Results[0].(*ssa.Call); ok && core.StaticCallee(c) == p.Func("NewCharRecipe") {
				recipe = c
			}
		}
		if recipe == nil {
			r.Unrecognised("R17.3", name, "returns spg.NewCharRecipe(...)", p.Pos(cgF.Pos()), "")
		} else {
			r.Check(flagLoad(recipe.Call.Args[0], "length"), "R17.3", name, "recipe length is *flagLength", p.InstrPos(recipe), core.Describe(recipe.Call.Args[0]))
			stores := map[string]ssa.Value{}
			for _, ref := range core.Referrers(recipe) {
				if fa, ok := ref.(*ssa.FieldAddr); ok {
					for _, rr := range core.Referrers(fa) {
						if st, ok := rr.(*ssa.Store); ok && st.Addr == fa {
							stores[core.FieldName(fa)] = st.Val
						}
					}
				}
			}
			for field, fl := range map[string][2]string{"Allow": {"allow", "allow"}, "Require": {"require", "require"}, "Exclude": {"exclude", "exclude"}} {
				v := stores[field]
				c, ok := v.(*ssa.Call)
				okv := ok && core.StaticCallee(c) == pcc && len(c.Call.Args) == 2 && flagLoad(c.Call.Args[0], fl[0]) && defaultField(c.Call.Args[1], fl[1])
				r.Check(okv, "R17.3", name, "recipe."+field+" = classFlags(*--"+fl[0]+", default "+fl[1]+")", p.Pos(cgF.Pos()), core.Describe(v))
			}
			for f := range stores {
				if f != "Allow" && f != "Require" && f != "Exclude" {
					r.Fail("R17.3", name, "unexpected store to recipe."+f, p.Pos(cgF.Pos()), "")
				}
			}
		}
	}
	// wlGenerator
	{
		name := core.FuncName(wlF)
		rets := core.Returns(wlF)
		var recipe *ssa.Call
		if len(rets) == 1 {
			if c, ok := rets[0].Results[0].(*ssa.Call); ok && core.StaticCallee(c) == p.Func("NewWLRecipe") {
				recipe = c
			}
		}
		if recipe == nil {
			r.Unrecognised("R17.3", name, "returns spg.NewWLRecipe(...)", p.Pos(wlF.Pos()), "")
		} else {
			r.Check(flagLoad(recipe.Call.Args[0], "size"), "R17.3", name, "recipe length is *flagSize", p.InstrPos(recipe), core.Describe(recipe.Call.Args[0]))
			// list: phi(loadWordListFile(*flagWordListFile), parseWordList(*flagWordList))
			okList := false
			if phi, ok := recipe.Call.Args[1].(*ssa.Phi); ok && len(phi.Edges) == 2 {
				seen := map[string]bool{}
				for _, e := range phi.Edges {
					if c, ok := e.(*ssa.Call); ok && len(c.Call.Args) == 1 {
						switch core.StaticCallee(c) {
						case cli.fileList:
							seen["file"] = flagLoad(c.Call.Args[0], "file")
						case cli.builtinList:
							seen["list"] = flagLoad(c.Call.Args[0], "list")
						}
					}
				}
				okList = seen["file"] && seen["list"]
			}
			r.Check(okList, "R17.3", name, "word list comes from --file or --list", p.InstrPos(recipe), core.Describe(recipe.Call.Args[1]))
			stores := map[string]ssa.Value{}
			for _, ref := range core.Referrers(recipe) {
				if fa, ok := ref.(*ssa.FieldAddr); ok {
					for _, rr := range core.Referrers(fa) {
						if st, ok := rr.(*ssa.Store); ok && st.Addr == fa {
							stores[core.FieldName(fa)] = st.Val
						}
					}
				}
			}
			for field, fl := range map[string][2]string{"SeparatorFunc": {"separator", cli.sepMap}, "Capitalize": {"capitalize", cli.capMap}} {
				v := stores[field]
				c, ok := v.(*ssa.Call)
				okv := ok && core.StaticCallee(c) != nil && len(c.Call.Args) == 1 && flagLoad(c.Call.Args[0], fl[0])
				if okv {
					okv = lookupTable(p, nil, core.StaticCallee(c), fl[1]) != nil
				}
				r.Check(okv, "R17.3", name, "recipe."+field+" = table lookup of *--"+fl[0], p.Pos(wlF.Pos()), core.Describe(v))
			}
			for f := range stores {
				if f != "SeparatorFunc" && f != "Capitalize" {
					r.Fail("R17.3", name, "unexpected store to recipe."+f, p.Pos(wlF.Pos()), "")
				}
			}
		}
	}
	// word-list sources hand their words to the library unchanged
	for _, src := range []*ssa.Function{cli.fileList, cli.builtinList} {
		if src == nil {
			r.Unrecognised("R17.3", "-", "word-list source functions", "", "file/builtin list constructors not both found")
			continue
		}
		name := core.FuncName(src)
		n := 0
		for _, c := range core.Calls(src) {
			cv, ok := c.(*ssa.Call)
			if !ok || core.StaticCallee(cv) != p.Func("NewWordList") {
				continue
			}
			n++
			// through a merge left by an expanded helper: the value on the edge the tests before the call select
			arg := core.SelectedEdge(cv.Call.Args[0], liveGuards(cv.Block()))
			okArg, why := false, core.Describe(arg)
			if src == cli.fileList {
				// strings.Fields(string(data)) with data the bytes of the file named by the parameter
				if fc, ok := arg.(*ssa.Call); ok && core.CallName(fc) == "strings.Fields" {
					if cvt, ok := fc.Call.Args[0].(*ssa.Convert); ok {
						if ex, ok := cvt.X.(*ssa.Extract); ok && ex.Index == 0 {
							if rc, ok := ex.Tuple.(*ssa.Call); ok && (core.CallName(rc) == "io/ioutil.ReadFile" || core.CallName(rc) == "os.ReadFile") && rc.Call.Args[0] == ssa.Value(src.Params[0]) {
								okArg = true
							}
						}
					}
				}
				why = "the words given to the library must be exactly strings.Fields of the file's contents (any pre-filtering changes list and entropy): " + why
			} else {
				// phi of loads of the shipped lists
				var check func(v ssa.Value, d int) bool
				check = func(v ssa.Value, d int) bool {
					if d > 3 {
						return false
					}
					switch x := v.(type) {
					case *ssa.Phi:
						for _, e := range x.Edges {
							if core.IsNilConst(e) {
								continue // the default (exit) edge
							}
							if !check(e, d+1) {
								return false
							}
						}
						return true
					case *ssa.UnOp:
						g, ok := x.X.(*ssa.Global)
						return ok && g.Pkg == p.Lib
					}
					return false
				}
				okArg = check(arg, 0)
				if _, _, isTbl := builtinListLookup(p, arg, src.Params[0]); isTbl {
					okArg = true
				}
			}
			r.Check(okArg, "R17.3", name, "the word list handed to spg.NewWordList is the unmodified source", p.InstrPos(cv), why)
			// the result is what is returned
			for _, ret := range core.Returns(src) {
				if blockExits(ret.Block()) {
					continue // unreachable `return` spelled out after log.Fatal/os.Exit
				}
				ex, ok := ret.Results[0].(*ssa.Extract)
				r.Check(ok && ex.Tuple == ssa.Value(cv) && ex.Index == 0, "R17.3", name, "the library's word list is returned as is", p.InstrPos(ret), core.Describe(ret.Results[0]))
			}
		}
		r.Check(n == 1, "R17.3", name, "exactly one call of spg.NewWordList", p.Pos(src.Pos()), fmt.Sprint(n))
	}

	// parseCharacterClasses: returns phi(0, acc | ccMap[c])
	{
		name := core.FuncName(pcc)
		ok := false
		why := ""
		rets := core.Returns(pcc)
		if len(rets) == 1 {
			if phi, isPhi := rets[0].Results[0].(*ssa.Phi); isPhi {
				okAcc := true
				// flatten merge phis: the accumulator's updates are the leaves
				var leaves []ssa.Value
				seenL := map[ssa.Value]bool{}
				var flat func(v ssa.Value, d int)
				flat = func(v ssa.Value, d int) {
					if d > 6 || seenL[v] {
						return
					}
					seenL[v] = true
					if inner, isP := v.(*ssa.Phi); isP {
						for _, e := range inner.Edges {
							flat(e, d+1)
						}
						return
					}
					leaves = append(leaves, v)
				}
				flat(phi, 0)
				isAccPhi := func(v ssa.Value) bool { _, isP := v.(*ssa.Phi); return isP && seenL[v] }
				for _, e := range leaves {
					if z, isC := core.ConstUint(e); isC && z == 0 {
						continue
					}
					bo, isB := e.(*ssa.BinOp)
					if !isB || bo.Op != token.OR || !isAccPhi(bo.X) {
						okAcc = false
						why = "accumulator edge " + core.Describe(e)
						continue
					}
					// bo.Y = extract #0 of lookup ccMap[c], comma-ok
					lv := bo.Y
					if ex, isEx := lv.(*ssa.Extract); isEx {
						lv = ex.Tuple
					}
					lk, isLk := lv.(*ssa.Lookup)
					if !isLk {
						// a lookup function word -> (flag, known) written as a switch
						if cc, isCall := lv.(*ssa.Call); isCall && len(cc.Call.Args) == 1 && lookupTable2(core.StaticCallee(cc)) != nil {
							cli.ccFor = core.StaticCallee(cc)
							continue
						}
						okAcc = false
						why = "ORed value is not a ccMap lookup"
						continue
					}
					if ld, isLd := lk.X.(*ssa.UnOp); !isLd || ld.Op != token.MUL {
						okAcc = false
					} else if g, isG := ld.X.(*ssa.Global); !isG || g.Name() != cli.ccMap {
						okAcc = false
						why = "lookup is not in ccMap"
					}
				}
				ok = okAcc
			}
		}
		// the classes: split of value with spaces removed, or the defaults when value == ""
		sawSplit, sawDefaults := false, false
		core.Instrs(pcc, func(in ssa.Instruction) {
			if c, isC := in.(*ssa.Call); isC && core.CallName(c) == "strings.Split" {
				if s, _ := core.ConstString(c.Call.Args[1]); s == "," {
					sawSplit = true
				}
			}
			if phi, isPhi := in.(*ssa.Phi); isPhi {
				for _, e := range phi.Edges {
					if e == ssa.Value(pcc.Params[1]) {
						sawDefaults = true
					}
				}
			}
		})
		r.Check(ok && sawSplit && sawDefaults, "R17.3", name, "ORs the ccMap flags of the comma-separated words, or of the defaults when the flag is empty", p.Pos(pcc.Pos()),
			fmt.Sprintf("accumulator ok=%v split=%v defaults=%v %s", ok, sawSplit, sawDefaults, why))
	}
}

// builtinListLookup: v is (the value half of) `M[param]` over a package-level map
// literal of the CLI all of whose values are shipped lists of the library;
// returns the lookup and word -> library global.
func builtinListLookup(p *core.Program, v ssa.Value, param ssa.Value) (*ssa.Lookup, map[string]string, bool) {
	if ex, ok := v.(*ssa.Extract); ok && ex.Index == 0 {
		v = ex.Tuple
	}
	lk, ok := v.(*ssa.Lookup)
	if !ok || lk.Index != param || cliInits == nil {
		return nil, nil, false
	}
	ld, ok := lk.X.(*ssa.UnOp)
	if !ok {
		return nil, nil, false
	}
	g, ok := ld.X.(*ssa.Global)
	if !ok || g.Pkg != p.Cmd {
		return nil, nil, false
	}
	iv := cliInits[g.Name()]
	if iv == nil || iv.Map == nil || iv.NStores != 1 {
		return nil, nil, false
	}
	out := map[string]string{}
	for _, e := range iv.Map {
		k, isS := core.ConstString(e.Key)
		l, isL := e.Value.(*ssa.UnOp)
		if !isS || !isL {
			return nil, nil, false
		}
		lg, isG := l.X.(*ssa.Global)
		if !isG || lg.Pkg != p.Lib {
			return nil, nil, false
		}
		out[k] = lg.Name()
	}
	return lk, out, len(out) > 0
}

// table is a word -> value table of the CLI, read either from a map literal
// (looked up by a one-parameter function) or from a switch on the parameter.
type table struct {
	Map []core.MapEntry
	Pos token.Pos
}

// lookupTable resolves the table behind lookup function f: `return M[value]`
// (plain or comma-ok with the zero value for unknown words) over a package-level
// map literal M, or a switch/if-chain on value == "word" returning one value per
// word and the zero value otherwise. With inits == nil only the shape is decided.
func lookupTable(p *core.Program, inits map[string]*core.InitVal, f *ssa.Function, global string) *table {
	if f == nil || len(f.Params) != 1 {
		if inits != nil && global != "" {
			if iv := inits[global]; iv != nil && iv.Map != nil {
				return &table{iv.Map, iv.Store.Pos()}
			}
		}
		return nil
	}
	param := ssa.Value(f.Params[0])
	rets := core.Returns(f)
	if len(rets) == 0 {
		return nil
	}
	// map form
	var g *ssa.Global
	mapForm := true
	for _, ret := range rets {
		if len(ret.Results) != 1 {
			return nil
		}
		v := ret.Results[0]
		if ex, ok := v.(*ssa.Extract); ok && ex.Index == 0 {
			v = ex.Tuple
		}
		lk, ok := v.(*ssa.Lookup)
		if !ok {
			if isZeroValueConst(ret.Results[0]) && len(rets) > 1 {
				continue // the comma-ok miss
			}
			mapForm = false
			break
		}
		ld, ok := lk.X.(*ssa.UnOp)
		if !ok || lk.Index != param {
			mapForm = false
			break
		}
		gg, ok := ld.X.(*ssa.Global)
		if !ok || g != nil && g != gg {
			mapForm = false
			break
		}
		g = gg
	}
	if mapForm && g != nil {
		if inits == nil {
			return &table{}
		}
		if iv := inits[g.Name()]; iv != nil && iv.Map != nil {
			return &table{iv.Map, iv.Store.Pos()}
		}
		return nil
	}
	// switch form
	t := &table{Pos: f.Pos()}
	seen := map[string]bool{}
	for _, ret := range rets {
		var key *ssa.Const
		nEq := 0
		for _, gd := range core.Guards(ret.Block()) {
			rel, ok := core.AsRel(gd)
			if !ok || rel.Op != token.EQL {
				continue
			}
			x, y := rel.X, rel.Y
			if y == param {
				x, y = y, x
			}
			if x != param {
				continue
			}
			c, isC := y.(*ssa.Const)
			if !isC {
				return nil
			}
			key = c
			nEq++
		}
		switch {
		case nEq == 0:
			if !isZeroValueConst(ret.Results[0]) {
				return nil // an unknown word must give the zero value
			}
		case nEq == 1:
			k, _ := core.ConstString(key)
			if seen[k] {
				return nil
			}
			seen[k] = true
			t.Map = append(t.Map, core.MapEntry{Key: key, Value: ret.Results[0], Pos: ret.Pos()})
		default:
			return nil
		}
	}
	if len(t.Map) == 0 {
		return nil
	}
	return t
}

// lookupTable2: f(word) (value, bool) written as a switch: (v_k, true) under word == "k",
// (zero, false) otherwise.
func lookupTable2(f *ssa.Function) *table {
	if f == nil || f.Blocks == nil || len(f.Params) != 1 || f.Signature.Results().Len() != 2 {
		return nil
	}
	if b, ok := f.Signature.Results().At(1).Type().Underlying().(*types.Basic); !ok || b.Kind() != types.Bool {
		return nil
	}
	param := ssa.Value(f.Params[0])
	t := &table{Pos: f.Pos()}
	seen := map[string]bool{}
	for _, ret := range core.Returns(f) {
		if len(ret.Results) != 2 {
			return nil
		}
		okC, isC := ret.Results[1].(*ssa.Const)
		if !isC || okC.Value == nil || okC.Value.Kind() != constant.Bool {
			return nil
		}
		known := constant.BoolVal(okC.Value)
		var key *ssa.Const
		nEq := 0
		for _, gd := range core.Guards(ret.Block()) {
			rel, ok := core.AsRel(gd)
			if !ok || rel.Op != token.EQL {
				continue
			}
			x, y := rel.X, rel.Y
			if y == param {
				x, y = y, x
			}
			if x != param {
				continue
			}
			c, isK := y.(*ssa.Const)
			if !isK {
				return nil
			}
			key = c
			nEq++
		}
		switch {
		case nEq == 0:
			if known || !isZeroValueConst(ret.Results[0]) {
				return nil
			}
		case nEq == 1 && known:
			k, _ := core.ConstString(key)
			if seen[k] {
				return nil
			}
			seen[k] = true
			t.Map = append(t.Map, core.MapEntry{Key: key, Value: ret.Results[0], Pos: ret.Pos()})
		default:
			return nil
		}
	}
	if len(t.Map) == 0 {
		return nil
	}
	return t
}

// isMapLookupOf: f(value) returns table[value].
func isMapLookupOf(f *ssa.Function, table string) bool {
	if f == nil || len(f.Params) != 1 {
		return false
	}
	for _, ret := range core.Returns(f) {
		lk, ok := ret.Results[0].(*ssa.Lookup)
		if !ok || lk.Index != ssa.Value(f.Params[0]) {
			return false
		}
		ld, ok := lk.X.(*ssa.UnOp)
		if !ok {
			return false
		}
		g, ok := ld.X.(*ssa.Global)
		if !ok || g.Name() != table {
			return false
		}
	}
	return true
}

func isNoReturnCall(c ssa.CallInstruction) bool {
	switch core.CallName(c) {
	case "os.Exit", "log.Fatal", "log.Fatalf", "log.Fatalln", "log.Panic", "log.Panicf", "log.Panicln":
		return true
	}
	if f := core.StaticCallee(c); f != nil && f.Blocks != nil && f.Pkg != nil && strings.HasPrefix(f.Pkg.Pkg.Path(), core.ModulePath) {
		_, never := helperExit(f, 0)
		return never
	}
	return false
}

// helperExit: a module function none of whose paths returns (every path ends in
// os.Exit/log.Fatal or another such helper), e.g. `func exitWithUsage() { printUsage(); os.Exit(2) }`;
// status is the exit status when it is the same constant on every path, else -1.
func helperExit(f *ssa.Function, depth int) (status int64, never bool) {
	if depth > 3 || f == nil || len(f.Blocks) == 0 {
		return -1, false
	}
	seen := map[*ssa.BasicBlock]bool{}
	status = -2
	never = true
	var walk func(b *ssa.BasicBlock)
	walk = func(b *ssa.BasicBlock) {
		if seen[b] || !never {
			return
		}
		seen[b] = true
		for _, in := range b.Instrs {
			switch x := in.(type) {
			case ssa.CallInstruction:
				k := int64(-3)
				switch n := core.CallName(x); {
				case n == "os.Exit":
					k = -1
					if c, isC := core.ConstInt(x.Common().Args[0]); isC {
						k = c
					}
				case strings.HasPrefix(n, "log.Fatal"):
					k = 1
				case strings.HasPrefix(n, "log.Panic"):
					k = 2
				default:
					if g := core.StaticCallee(x); g != nil && g != f && g.Blocks != nil && g.Pkg != nil && strings.HasPrefix(g.Pkg.Pkg.Path(), core.ModulePath) {
						if s2, nv := helperExit(g, depth+1); nv {
							k = s2
						}
					}
				}
				if k != -3 {
					if status == -2 {
						status = k
					} else if status != k {
						status = -1
					}
					return // nothing after it runs
				}
			case *ssa.Return:
				never = false
				return
			case *ssa.Panic:
				if status == -2 {
					status = 2
				} else if status != 2 {
					status = -1
				}
				return
			}
		}
		for _, sb := range b.Succs {
			walk(sb)
		}
	}
	walk(f.Blocks[0])
	if status == -2 {
		status = -1
	}
	return status, never
}

// stdoutCall classifies a call that writes to standard output directly.
func stdoutCall(c ssa.CallInstruction) bool {
	name := core.CallName(c)
	switch name {
	case "fmt.Print", "fmt.Printf", "fmt.Println":
		return true
	case "fmt.Fprint", "fmt.Fprintf", "fmt.Fprintln", "io.WriteString":
		return isOsFile(c.Common().Args[0], "Stdout")
	}
	if strings.HasPrefix(name, "(*os.File).Write") {
		return isOsFile(c.Common().Args[0], "Stdout")
	}
	return false
}

// oneLineWrite: the call writes exactly one line (text without a line break, then one "\n"), as far
// as its constant parts say: Println/Fprintln; Printf/Fprintf with a format that has its only "\n" at
// the end; WriteString/Write of such a Sprintf, of Sprintln, of a constant line, or of x + "\n".
func oneLineWrite(c ssa.CallInstruction) (bool, string) {
	oneNL := func(f string) bool { return strings.HasSuffix(f, "\n") && strings.Count(f, "\n") == 1 }
	args := c.Common().Args
	name := core.CallName(c)
	switch name {
	case "fmt.Println", "fmt.Fprintln":
		return true, ""
	case "fmt.Printf", "fmt.Fprintf":
		i := 0
		if name == "fmt.Fprintf" {
			i = 1
		}
		if f, ok := core.ConstString(args[i]); ok {
			return oneNL(f), fmt.Sprintf("format %q", f)
		}
		return false, "format is not a constant"
	}
	if name == "io.WriteString" || strings.HasPrefix(name, "(*os.File).Write") {
		var lineOf func(v ssa.Value, d int) (bool, string)
		lineOf = func(v ssa.Value, d int) (bool, string) {
			v = core.StripType(v)
			if cv, ok := v.(*ssa.Convert); ok && d < 3 { // []byte(s)
				return lineOf(cv.X, d+1)
			}
			if f, ok := core.ConstString(v); ok {
				return oneNL(f), fmt.Sprintf("constant %q", f)
			}
			switch x := v.(type) {
			case *ssa.Call:
				switch core.CallName(x) {
				case "fmt.Sprintln":
					return true, ""
				case "fmt.Sprintf":
					if f, ok := core.ConstString(x.Call.Args[0]); ok {
						return oneNL(f), fmt.Sprintf("format %q", f)
					}
				}
			case *ssa.BinOp:
				if x.Op == token.ADD {
					if f, ok := core.ConstString(x.Y); ok && f == "\n" {
						if g, isC := core.ConstString(x.X); !isC || !strings.Contains(g, "\n") {
							return true, ""
						}
					}
				}
			}
			return false, "written text is " + core.Describe(v)
		}
		return lineOf(args[len(args)-1], 0)
	}
	return false, "unrecognised stdout call " + name
}

// actualArg: v is a parameter of a cmd function with exactly one call site in the module: the argument passed there.
func actualArg(p *core.Program, v ssa.Value) ssa.Value {
	pa, ok := v.(*ssa.Parameter)
	if !ok {
		return nil
	}
	fn := pa.Parent()
	if fn == nil || fn.Pkg != p.Cmd {
		return nil
	}
	callers := p.Callers(fn)
	if len(callers) != 1 {
		return nil
	}
	idx := paramIndex(pa)
	args := callers[0].Common().Args
	if idx < 0 || idx >= len(args) {
		return nil
	}
	return args[idx]
}

func isOsFile(v ssa.Value, which string) bool {
	v = core.StripType(v)
	if ld, ok := v.(*ssa.UnOp); ok && ld.Op == token.MUL {
		if g, ok := ld.X.(*ssa.Global); ok && g.Pkg != nil && g.Pkg.Pkg.Path() == "os" && g.Name() == which {
			return true
		}
	}
	return false
}

func checkMainCFG(p *core.Program, r *core.Report) {
	mainFn, retStatus := cliDriver(p)
	if mainFn == nil {
		r.Unrecognised("R17.4", "main", "function", "", "not found")
		return
	}
	if retStatus {
		r.Note("main is os.Exit(%s(...)): control flow read from %s, `return k` = exit status k", mainFn.Name(), core.FuncName(mainFn))
	}
	name := core.FuncName(mainFn)
	// exit status constants
	for n, want := range map[string]int64{"ExitSuccess": 0, "ExitCatchall": 1, "ExitUsage": 2} {
		v, _, ok := core.ConstOf(p.CmdPkg.Types, n)
		got := int64(-1)
		if ok {
			got, _ = constant.Int64Val(v)
		}
		r.Trivial(ok && got == want, "R17.4", "-", fmt.Sprintf("%s == %d", n, want), "", fmt.Sprint(got))
	}
	// live CFG
	dead := map[*ssa.BasicBlock]bool{} // blocks after whose terminator call nothing executes
	for _, b := range mainFn.Blocks {
		for _, in := range b.Instrs {
			if c, ok := in.(ssa.CallInstruction); ok && isNoReturnCall(c) {
				dead[b] = true
			}
			if _, ok := in.(*ssa.Panic); ok {
				dead[b] = true
			}
		}
	}
	succs := func(b *ssa.BasicBlock) []*ssa.BasicBlock {
		if dead[b] {
			return nil
		}
		return b.Succs
	}
	// generator constructor blocks and generation blocks
	genCtor := map[*ssa.BasicBlock]bool{}
	var genBlocks []*ssa.BasicBlock
	stdoutIn := map[*ssa.BasicBlock][]ssa.CallInstruction{}
	for _, b := range mainFn.Blocks {
		for _, in := range b.Instrs {
			c, ok := in.(ssa.CallInstruction)
			if !ok {
				continue
			}
			if f := core.StaticCallee(c); f != nil && (f == cli.charGen || f == cli.wlGen) {
				genCtor[b] = true
			}
			if c.Common().IsInvoke() && (c.Common().Method.Name() == "Generate" || c.Common().Method.Name() == "Entropy") {
				genBlocks = append(genBlocks, b)
				// receiver must be the phi of the constructors' results
				okRecv := false
				if phi, ok := c.Common().Value.(*ssa.Phi); ok {
					okRecv = true
					for _, e := range phi.Edges {
						if core.IsNilConst(e) {
							continue // the unmatched-subcommand edge (dead: exits)
						}
						mi, ok := e.(*ssa.MakeInterface)
						if !ok {
							okRecv = false
							continue
						}
						cc, ok := mi.X.(*ssa.Call)
						if !ok || !(core.StaticCallee(cc) == cli.charGen || core.StaticCallee(cc) == cli.wlGen) {
							okRecv = false
						}
					}
				}
				r.Check(okRecv, "R17.3", name, c.Common().Method.Name()+"() is called on the recipe built for the matched subcommand", p.InstrPos(c), core.Describe(c.Common().Value))
			}
			if stdoutCall(c) {
				stdoutIn[b] = append(stdoutIn[b], c)
			}
		}
	}
	r.Floor("R17.4", "generation call sites in main", len(genBlocks), 2)
	// (c) no live path entry -> generation without a constructor
	reachNoCtor := map[*ssa.BasicBlock]bool{}
	var dfs func(b *ssa.BasicBlock)
	dfs = func(b *ssa.BasicBlock) {
		if reachNoCtor[b] || genCtor[b] {
			return
		}
		reachNoCtor[b] = true
		for _, s := range succs(b) {
			dfs(s)
		}
	}
	dfs(mainFn.Blocks[0])
	for _, g := range genBlocks {
		r.Check(!reachNoCtor[g], "R17.4", name, "generation is only reached through a matched subcommand", p.Pos(g.Instrs[0].Pos()),
			"a live path reaches Generate/Entropy without building a recipe (missing/unknown subcommand must exit with status 2)")
	}
	// the blocks reached without a constructor that terminate must exit with 2
	for b := range reachNoCtor {
		k, ends := exitStatus(b, retStatus)
		if !ends || !dead[b] && !retStatus {
			continue
		}
		r.Check(k == 2, "R17.4", name, "usage error exits with status 2", p.InstrPos(b.Instrs[len(b.Instrs)-1]), fmt.Sprintf("ends with status %d", k))
		// no stdout password: only printUsage may precede
		for _, c := range stdoutIn[b] {
			r.Fail("R17.4", name, "stdout write on a usage-error path", p.InstrPos(c), "")
		}
	}
	// (d) generation error edge
	for _, b := range mainFn.Blocks {
		for _, in := range b.Instrs {
			c, ok := in.(*ssa.Call)
			if !ok || !c.Common().IsInvoke() || c.Common().Method.Name() != "Generate" {
				continue
			}
			var errV ssa.Value
			for _, ref := range core.Referrers(c) {
				if ex, ok := ref.(*ssa.Extract); ok && ex.Index == 1 {
					errV = ex
				}
			}
			if errV == nil {
				r.Fail("R17.4", name, "Generate's error is inspected", p.InstrPos(c), "error result discarded: a refused recipe would print an empty line and exit 0")
				continue
			}
			found := false
			for _, ref := range core.Referrers(errV) {
				bo, ok := ref.(*ssa.BinOp)
				if !ok {
					continue
				}
				for _, rr := range core.Referrers(bo) {
					iff, ok := rr.(*ssa.If)
					if !ok {
						continue
					}
					found = true
					errB := iff.Block().Succs[0]
					okB := iff.Block().Succs[1]
					if bo.Op == token.EQL {
						errB, okB = okB, errB
					}
					fatal := false
					for _, in2 := range errB.Instrs {
						if c2, ok := in2.(ssa.CallInstruction); ok && strings.HasPrefix(core.CallName(c2), "log.Fatal") {
							fatal = true
						}
					}
					if k, ends := exitStatus(errB, retStatus); retStatus && ends && k == 1 {
						fatal = true // `return 1` from the run function handed to os.Exit
					}
					r.Check(fatal && len(stdoutIn[errB]) == 0, "R17.4", name, "a refused recipe ends in log.Fatal (status 1) with nothing on stdout", p.InstrPos(iff), "")
					// stdout writes of the password must be on the ok edge
					for wb, cs := range stdoutIn {
						for _, wc := range cs {
							usesPwd := false
							for _, a := range wc.Common().Args {
								if dependsOn(a, c, 0) {
									usesPwd = true
								}
							}
							if usesPwd {
								livePreds := 0
								for _, pb := range okB.Preds {
									if !blockExits(pb) {
										livePreds++
									}
								}
								r.Check(livePreds == 1 && (okB == wb || okB.Dominates(wb)), "R17.4", name, "password is printed only on the err == nil edge", p.InstrPos(wc), "")
							}
						}
					}
				}
			}
			r.Check(found, "R17.4", name, "Generate's error is tested", p.InstrPos(c), "")
		}
	}
	// (e) exactly one stdout write per live path to return (acyclic DP)
	type mm struct{ min, max int }
	memo := map[*ssa.BasicBlock]*mm{}
	onStack := map[*ssa.BasicBlock]bool{}
	cyclic := false
	var walk func(b *ssa.BasicBlock) *mm
	walk = func(b *ssa.BasicBlock) *mm {
		if m, ok := memo[b]; ok {
			return m
		}
		if onStack[b] {
			cyclic = true
			return &mm{0, 0}
		}
		onStack[b] = true
		defer func() { onStack[b] = false }()
		n := len(stdoutIn[b])
		if dead[b] {
			memo[b] = nil
			return nil // path does not reach a normal return
		}
		isRet := false
		for _, in := range b.Instrs {
			if _, ok := in.(*ssa.Return); ok {
				isRet = true
			}
		}
		if k, ends := exitStatus(b, retStatus); isRet && retStatus && ends && k != 0 {
			memo[b] = nil
			return nil // a failure status: not a successful run
		}
		if isRet {
			m := &mm{n, n}
			memo[b] = m
			return m
		}
		var res *mm
		for _, s := range b.Succs {
			sm := walk(s)
			if sm == nil {
				continue
			}
			if res == nil {
				res = &mm{sm.min, sm.max}
			} else {
				if sm.min < res.min {
					res.min = sm.min
				}
				if sm.max > res.max {
					res.max = sm.max
				}
			}
		}
		if res != nil {
			res.min += n
			res.max += n
		}
		memo[b] = res
		return res
	}
	m := walk(mainFn.Blocks[0])
	if cyclic {
		r.Unrecognised("R17.5", name, "main is loop-free", p.Pos(mainFn.Pos()), "path counting needs an acyclic main")
	} else if m == nil {
		r.Fail("R17.5", name, "some live path returns normally", p.Pos(mainFn.Pos()), "main never returns normally: the success exit status 0 is unreachable")
	} else {
		r.Check(m.min == 1 && m.max == 1, "R17.5", name, "exactly one stdout-writing call on every live path from entry to normal return", p.Pos(mainFn.Pos()),
			fmt.Sprintf("min %d, max %d stdout calls per path", m.min, m.max))
	}
	// each stdout write in main is one line
	for _, cs := range stdoutIn {
		for _, c := range cs {
			okLine, why := oneLineWrite(c)
			r.Check(okLine, "R17.5", name, "stdout write produces exactly one line", p.InstrPos(c), why)
		}
	}
	// (3) other functions reachable from main
	reach := p.ReachableFrom(mainFn)
	nOther := 0
	var fns []*ssa.Function
	for fn := range reach {
		if p.InModule(fn) && fn.Blocks != nil && fn != mainFn && fn != cli.usage {
			fns = append(fns, fn)
		}
	}
	sort.Slice(fns, func(i, j int) bool { return fns[i].String() < fns[j].String() })
	for _, fn := range fns {
		for _, c := range core.Calls(fn) {
			if !stdoutCall(c) {
				continue
			}
			nOther++
			if unhonourableGuard(c) {
				r.Pass("R17.5", core.FuncName(fn), "stdout notice only under an unhonourable-recipe guard", p.InstrPos(c), "outside the property's premise (recipe the library can honour)")
				continue
			}
			r.Fail("R17.5", core.FuncName(fn), "function reachable from main writes to standard output", p.InstrPos(c),
				"the CLI must print exactly one line; this call adds another line to stdout for some valid command lines (call: "+core.CallName(c)+")")
		}
	}
	r.Count("functions reachable from main inspected for stdout writes", len(fns))
	// (4) the rules above see a write to standard output only in its direct spellings. That is all
	// there is only if the handle is never used in another way: every load of os.Stdout in the module
	// is the destination of one of those calls — not stored, wrapped (bufio, log.New), handed to
	// log.SetOutput or kept in a variable of interface type — and nobody assigns os.Stdout or opens
	// descriptor 1 under another name.
	checkStdoutHandle(p, r)
	// printUsage is always followed by exit
	if pu := cli.usage; pu != nil {
		for _, site := range p.Callers(pu) {
			b := site.Block()
			k, ends := exitStatus(b, retStatus && site.Parent() == mainFn)
			r.Check(dead[b] || site.Parent() != mainFn && blockExits(b) || retStatus && ends && k == 2, "R17.5", core.FuncName(site.Parent()), "printUsage is followed by os.Exit(2)", p.InstrPos(site), "")
		}
	}
}

// cmdInitFuncs: the synthesised package initialiser and every declared init function of the CLI.
func cmdInitFuncs(p *core.Program) []*ssa.Function {
	var out []*ssa.Function
	if f := core.PackageInit(p.Cmd); f != nil {
		out = append(out, f)
		for _, c := range core.Calls(f) {
			if g := core.StaticCallee(c); g != nil && g.Pkg == p.Cmd && strings.HasPrefix(g.Name(), "init#") {
				out = append(out, g)
			}
		}
	}
	return out
}

// cliDriver returns the function holding the CLI's control flow: main itself, or
// — when main is only `os.Exit(run(...))` — that run function, in which
// `return k` is "exit with status k".
func cliDriver(p *core.Program) (fn *ssa.Function, returnsStatus bool) {
	mainFn := p.CmdFunc("main")
	if mainFn == nil {
		return nil, false
	}
	var exitArg *ssa.Call
	nModule := 0
	for _, c := range core.Calls(mainFn) {
		if core.CallName(c) == "os.Exit" {
			if cc, ok := c.Common().Args[0].(*ssa.Call); ok {
				exitArg = cc
			}
			continue
		}
		if f := core.StaticCallee(c); f != nil && p.InModule(f) {
			nModule++
		}
	}
	if exitArg != nil && nModule == 1 {
		if f := core.StaticCallee(exitArg); f != nil && p.InModule(f) && f.Blocks != nil && f.Signature.Results().Len() == 1 {
			return f, true
		}
	}
	return mainFn, false
}

// exitStatus: the process exit status with which block b ends the program
// (ok=false when b does not end it). -1 = ends it with a status that is not a known constant.
func exitStatus(b *ssa.BasicBlock, returnsStatus bool) (int64, bool) {
	for _, in := range b.Instrs {
		switch x := in.(type) {
		case ssa.CallInstruction:
			if !isNoReturnCall(x) {
				continue
			}
			switch n := core.CallName(x); {
			case n == "os.Exit":
				if k, isC := core.ConstInt(x.Common().Args[0]); isC {
					return k, true
				}
				return -1, true
			case strings.HasPrefix(n, "log.Fatal"):
				return 1, true
			}
			if f := core.StaticCallee(x); f != nil && f.Blocks != nil {
				if k, never := helperExit(f, 0); never {
					return k, true
				}
			}
			return -1, true
		case *ssa.Panic:
			return 2, true
		case *ssa.Return:
			if !returnsStatus {
				return 0, true
			}
			if len(x.Results) == 1 {
				if k, isC := core.ConstInt(x.Results[0]); isC {
					return k, true
				}
			}
			return -1, true
		}
	}
	return 0, false
}

func blockExits(b *ssa.BasicBlock) bool {
	for _, in := range b.Instrs {
		if c, ok := in.(ssa.CallInstruction); ok && isNoReturnCall(c) {
			return true
		}
	}
	return false
}

// dependsOn: v derives from call c (through extracts, loads, calls, conversions, varargs arrays).
func dependsOn(v ssa.Value, c ssa.Value, depth int) bool {
	if depth > 8 || v == nil {
		return false
	}
	if v == c {
		return true
	}
	switch x := v.(type) {
	case *ssa.Extract:
		return dependsOn(x.Tuple, c, depth+1)
	case *ssa.UnOp:
		return dependsOn(x.X, c, depth+1)
	case *ssa.MakeInterface:
		return dependsOn(x.X, c, depth+1)
	case *ssa.ChangeType:
		return dependsOn(x.X, c, depth+1)
	case *ssa.Call:
		for _, a := range x.Call.Args {
			if dependsOn(a, c, depth+1) {
				return true
			}
		}
	case *ssa.Slice:
		if al, ok := x.X.(*ssa.Alloc); ok {
			for _, ref := range core.Referrers(al) {
				if ia, ok := ref.(*ssa.IndexAddr); ok {
					for _, rr := range core.Referrers(ia) {
						if st, ok := rr.(*ssa.Store); ok && dependsOn(st.Val, c, depth+1) {
							return true
						}
					}
				}
			}
		}
		return dependsOn(x.X, c, depth+1)
	}
	return false
}

// unhonourableGuard: the call is dominated by `param < 1` / `param == 0` /
// `param <= 0` on an integer parameter of its function.
func unhonourableGuard(c ssa.CallInstruction) bool {
	for _, g := range core.Guards(c.Block()) {
		rel, ok := core.AsRel(g)
		if !ok {
			continue
		}
		if _, isParam := rel.X.(*ssa.Parameter); !isParam {
			continue
		}
		k, isC := core.ConstInt(rel.Y)
		if !isC {
			continue
		}
		if (rel.Op == token.LSS && k == 1) || (rel.Op == token.EQL && k == 0) || (rel.Op == token.LEQ && k == 0) {
			return true
		}
	}
	return false
}

// checkStdoutHandle: every use of the os.Stdout handle in the module is the destination operand of a
// call stdoutCall recognises (R17.5, clause 4).
func checkStdoutHandle(p *core.Program, r *core.Report) {
	isStdoutGlobal := func(v ssa.Value) bool {
		g, ok := v.(*ssa.Global)
		return ok && g.Pkg != nil && g.Pkg.Pkg.Path() == "os" && g.Name() == "Stdout"
	}
	var destOK func(v ssa.Value, depth int) (bool, ssa.Instruction)
	destOK = func(v ssa.Value, depth int) (bool, ssa.Instruction) {
		refs := v.Referrers()
		if refs == nil {
			return true, nil
		}
		for _, ref := range *refs {
			switch x := ref.(type) {
			case *ssa.DebugRef:
				continue
			case *ssa.MakeInterface, *ssa.ChangeInterface, *ssa.ChangeType:
				if depth > 3 {
					return false, ref
				}
				if ok, bad := destOK(x.(ssa.Value), depth+1); !ok {
					return false, bad
				}
				continue
			case ssa.CallInstruction:
				if stdoutCall(x) && len(x.Common().Args) > 0 && x.Common().Args[0] == v {
					// destination only: the same handle as a later operand would be printed, not written to
					n := 0
					for _, a := range x.Common().Args {
						if a == v {
							n++
						}
					}
					if n == 1 {
						continue
					}
				}
				return false, ref
			default:
				return false, ref
			}
		}
		return true, nil
	}
	nLoads, nBad := 0, 0
	for _, fn := range p.ModuleFuncs() {
		core.Instrs(fn, func(in ssa.Instruction) {
			switch x := in.(type) {
			case *ssa.UnOp:
				if x.Op == token.MUL && isStdoutGlobal(x.X) {
					nLoads++
					if ok, bad := destOK(x, 0); !ok {
						nBad++
						r.Fail("R17.5", core.FuncName(fn), "the standard-output handle is used other than as the destination of a recognised write", p.InstrPos(bad),
							"os.Stdout stored, wrapped or handed on (log.SetOutput, log.New, bufio.NewWriter, a variable): what is written through it is not counted by the one-line rule")
					}
				}
				return
			case *ssa.Store:
				if isStdoutGlobal(x.Addr) {
					nBad++
					r.Fail("R17.5", core.FuncName(fn), "os.Stdout is reassigned", p.InstrPos(x), "writes the rules attribute to standard output go elsewhere (and the reverse)")
				}
				return
			}
			if c, ok := in.(ssa.CallInstruction); ok {
				for _, op := range in.Operands(nil) {
					if op != nil && *op != nil && isStdoutGlobal(*op) {
						nBad++
						r.Fail("R17.5", core.FuncName(fn), "address of os.Stdout is passed on", p.InstrPos(in), "")
					}
				}
				if f := core.StaticCallee(c); f != nil && f.Pkg != nil && (f.Pkg.Pkg.Path() == "os/exec" || core.CallName(c) == "os.StartProcess" || core.CallName(c) == "syscall.ForkExec" || core.CallName(c) == "syscall.Exec") {
					nBad++
					r.Fail("R17.5", core.FuncName(fn), "a child process is started ("+core.CallName(c)+")", p.InstrPos(in), "a child inherits descriptor 1: what it prints is not counted by the one-line rule")
				}
				switch core.CallName(c) {
				case "os.NewFile", "syscall.Write", "syscall.Syscall", "syscall.RawSyscall", "os.OpenFile", "syscall.Dup2", "syscall.Dup3":
					// os.OpenFile("/dev/stdout") and descriptor arithmetic: a second name for descriptor 1
					if core.CallName(c) == "os.OpenFile" {
						if s, ok := core.ConstString(c.Common().Args[0]); !ok || !(strings.HasPrefix(s, "/dev/") || strings.HasPrefix(s, "/proc/")) {
							break
						}
					}
					nBad++
					r.Fail("R17.5", core.FuncName(fn), "a file descriptor is opened or written by number ("+core.CallName(c)+")", p.InstrPos(in), "descriptor 1 under another name escapes the one-line rule")
				}
			}
		})
	}
	if nBad == 0 {
		r.Pass("R17.5", "-", fmt.Sprintf("every use of os.Stdout in the module (%d loads) is the destination of a recognised write; os.Stdout is never reassigned; no descriptor is opened by number", nLoads), "", "")
	}
}
