package rules

import (
	"go/token"
	"go/types"

	"golang.org/x/tools/go/ssa"

	"spgverif/internal/core"
)

// Unexported field names are resolved by role (by the field's type), so that
// a rename does not blind or upset a rule.

// fieldByType returns the name of the unique field of library struct `typ`
// whose type satisfies pred; fallback is returned when none/ambiguous.
func fieldByType(p *core.Program, typ string, pred func(types.Type) bool, fallback string) string {
	obj := p.LibPkg.Types.Scope().Lookup(typ)
	if obj == nil {
		return fallback
	}
	st, ok := obj.Type().Underlying().(*types.Struct)
	if !ok {
		return fallback
	}
	name, n := "", 0
	for i := 0; i < st.NumFields(); i++ {
		if pred(st.Field(i).Type()) {
			name = st.Field(i).Name()
			n++
		}
	}
	if n == 1 {
		return name
	}
	return fallback
}

func isStringT(t types.Type) bool {
	b, ok := t.Underlying().(*types.Basic)
	return ok && b.Kind() == types.String && core.NamedOf(t) == ""
}

// tokenValueField / tokenTypeField: the fields of Token.
func tokenValueField(p *core.Program) string { return fieldByType(p, "Token", isStringT, "value") }
func tokenTypeField(p *core.Program) string {
	return fieldByType(p, "Token", func(t types.Type) bool { return core.NamedOf(t) == core.ModulePath+".TokenType" }, "tType")
}

// passwordTokensField: the field of Password holding the tokens.
func passwordTokensField(p *core.Program) string {
	return fieldByType(p, "Password", func(t types.Type) bool { return core.NamedOf(t) == core.ModulePath+".Tokens" }, "tokens")
}

// titleCallArg: v is strings.Title(x), or a call of a module function that
// merely forwards to it (single return strings.Title(param)); returns x.
func titleCallArg(v ssa.Value) (ssa.Value, bool) {
	c, ok := v.(*ssa.Call)
	if !ok || len(c.Call.Args) != 1 {
		return nil, false
	}
	if core.CallName(c) == "strings.Title" {
		return c.Call.Args[0], true
	}
	f := core.StaticCallee(c)
	if f == nil || f.Blocks == nil || len(f.Params) != 1 || len(f.Blocks) != 1 {
		return nil, false
	}
	rets := core.Returns(f)
	if len(rets) != 1 || len(rets[0].Results) != 1 {
		return nil, false
	}
	inner, ok := rets[0].Results[0].(*ssa.Call)
	if !ok || core.CallName(inner) != "strings.Title" || inner.Call.Args[0] != ssa.Value(f.Params[0]) {
		return nil, false
	}
	return c.Call.Args[0], true
}

// capitalisationGate resolves, by role, the predicate "every word is
// capitalisable": a bool function on (a pointer to) WordList whose body is
// `count == 0` over an integer field.
func capitalisationGate(p *core.Program) *ssa.Function {
	var found *ssa.Function
	for _, fn := range p.LibFuncs() {
		if fn.Signature.Recv() == nil || fn.Signature.Params().Len() != 0 || fn.Signature.Results().Len() != 1 {
			continue
		}
		if core.NamedOf(fn.Signature.Recv().Type()) != core.ModulePath+".WordList" {
			continue
		}
		if b, ok := fn.Signature.Results().At(0).Type().Underlying().(*types.Basic); !ok || b.Kind() != types.Bool {
			continue
		}
		if found != nil {
			// ambiguous: prefer the one whose body matches the predicate shape
			if ok, _ := isCountZeroPredicate(fn); !ok {
				continue
			}
		}
		found = fn
	}
	return found
}

// alternationPredicate resolves, by role, the helper Kind() uses to recognise
// the alternating layout: the bool function whose positive outcome guards the
// return of the kind that the decoder decodes by index parity. (Fallback: a
// bool method on Tokens testing index parity.)
func alternationPredicate(p *core.Program) *ssa.Function {
	kind := p.Method("Tokens", "Kind")
	if kind == nil {
		return nil
	}
	if k, ok := alternatingKind(p); ok {
		var found *ssa.Function
		n := 0
		for _, ret := range core.Returns(kind) {
			if len(ret.Results) != 1 {
				continue
			}
			if c, isC := core.ConstInt(ret.Results[0]); !isC || c != k {
				continue
			}
			for _, g := range core.Guards(ret.Block()) {
				call, isCall := g.Cond.(*ssa.Call)
				if !isCall || !g.Pos {
					continue
				}
				if f := core.StaticCallee(call); f != nil && p.InLib(f) && f.Blocks != nil {
					if found != f {
						n++
					}
					found = f
				}
			}
		}
		if n == 1 {
			return found
		}
	}
	for _, c := range core.Calls(kind) {
		f := core.StaticCallee(c)
		if f == nil || !p.InLib(f) || f.Blocks == nil {
			continue
		}
		hasParity := false
		core.Instrs(f, func(in ssa.Instruction) {
			if bo, ok := in.(*ssa.BinOp); ok && bo.Op.String() == "%" {
				if k, isC := core.ConstInt(bo.Y); isC && k == 2 {
					if _, isLen := core.LenOf(bo.X); !isLen {
						hasParity = true
					}
				}
			}
		})
		if hasParity {
			return f
		}
	}
	return nil
}

// alternatingKind: the IndexKind constant under which the decoder assigns
// token types by index parity.
func alternatingKind(p *core.Program) (int64, bool) {
	dec := p.Func("Tokenize")
	if dec == nil {
		return 0, false
	}
	var kinds []int64
	core.Instrs(dec, func(in ssa.Instruction) {
		phi, ok := in.(*ssa.Phi)
		if !ok || len(parityPhiMap(phi)) != 2 {
			return
		}
		for _, g := range core.Guards(phi.Block()) {
			rel, ok := core.AsRel(g)
			if !ok || rel.Op != token.EQL {
				continue
			}
			if core.NamedOf(rel.X.Type()) != core.ModulePath+".IndexKind" {
				continue
			}
			if k, isC := core.ConstInt(rel.Y); isC {
				kinds = append(kinds, k)
			}
		}
	})
	if len(kinds) == 1 {
		return kinds[0], true
	}
	return 0, false
}

// requiredSetsField: the CharRecipe field holding the prepared required sets (the one slice-of-struct field).
func requiredSetsField(p *core.Program) string {
	return fieldByType(p, "CharRecipe", func(t types.Type) bool {
		sl, ok := t.Underlying().(*types.Slice)
		if !ok {
			return false
		}
		_, isStruct := sl.Elem().Underlying().(*types.Struct)
		return isStruct
	}, "requiredSets")
}

// wlRecipeListField: the WLRecipe field holding the word list.
func wlRecipeListField(p *core.Program) string {
	return fieldByType(p, "WLRecipe", func(t types.Type) bool {
		pt, ok := t.(*types.Pointer)
		return ok && core.NamedOf(pt.Elem()) == core.ModulePath+".WordList"
	}, "list")
}

// entropySimpleFunc: the library function computing length*log2(size) — by name, or by role: the
// package-level function of two ints with one floating-point result that CharRecipe.Entropy calls.
func entropySimpleFunc(p *core.Program) *ssa.Function {
	if f := p.Func("entropySimple"); f != nil {
		return f
	}
	ent := p.Method("CharRecipe", "Entropy")
	if ent == nil {
		return nil
	}
	for _, c := range core.Calls(ent) {
		f := core.StaticCallee(c)
		if f == nil || !p.InLib(f) || f.Parent() != nil || f.Signature.Recv() != nil || f.Signature.Params().Len() != 2 || f.Signature.Results().Len() != 1 {
			continue
		}
		isInt := func(t types.Type) bool {
			b, ok := t.Underlying().(*types.Basic)
			return ok && b.Info()&types.IsInteger != 0
		}
		rb, ok := f.Signature.Results().At(0).Type().Underlying().(*types.Basic)
		if ok && rb.Info()&types.IsFloat != 0 && isInt(f.Signature.Params().At(0).Type()) && isInt(f.Signature.Params().At(1).Type()) {
			return f
		}
	}
	return nil
}

// failRateGate: the (bool, float) helper CharRecipe.Generate consults before drawing.
func failRateGate(p *core.Program) *ssa.Function {
	gen := p.Method("CharRecipe", "Generate")
	if gen == nil {
		return nil
	}
	var pre *ssa.Function
	for _, c := range core.Calls(gen) {
		if f := core.StaticCallee(c); f != nil && p.InLib(f) && f.Signature.Results().Len() == 2 {
			if b, ok := f.Signature.Results().At(0).Type().Underlying().(*types.Basic); ok && b.Kind() == types.Bool {
				pre = f
			}
		}
	}
	return pre
}
