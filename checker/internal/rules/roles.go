package rules

import (
	"go/types"
	"strings"
	"sync"

	"golang.org/x/tools/go/ssa"

	"spgverif/internal/core"
)

// Roles are the role-resolved anchors shared by several properties.
type Roles struct {
	RawWord     []*ssa.Function                     // module functions touching crypto/rand
	RandRefs    map[*ssa.Function][]ssa.Instruction // instructions referencing crypto/rand, per function
	BoundedDraw []*ssa.Function                     // module functions calling a raw-word function
	DrawSites   []*ssa.Call                         // calls of bounded-draw functions (outside bounded-draw functions)
	RawCalls    map[*ssa.Function][]*ssa.Call       // calls of raw-word functions, per caller
	// PickHelpers: module functions of the shape `func(list []T) T { return list[draw(uint32(len(list)))] }`
	// (a uniform pick; bound/collection agreement holds inside by construction and is checked once)
	PickHelpers map[*ssa.Function]bool
	// ChoiceSites: draw sites outside pick helpers, plus calls of pick helpers
	ChoiceSites []*ssa.Call
}

// IsPickCall reports whether v is a call of a pick helper and returns the collection argument.
func (r *Roles) IsPickCall(v ssa.Value) (*ssa.Call, ssa.Value, bool) {
	c, ok := v.(*ssa.Call)
	if !ok {
		return nil, nil, false
	}
	f := core.StaticCallee(c)
	if f == nil || !r.PickHelpers[f] || len(c.Call.Args) != 1 {
		return nil, nil, false
	}
	return c, c.Call.Args[0], true
}

// isPickHelper recognises `return list[draw(conv(len(list)))]`.
func isPickHelper(fn *ssa.Function, isDraw func(*ssa.Call) bool) bool {
	if fn.Blocks == nil || len(fn.Params) != 1 || fn.Signature.Results().Len() != 1 || fn.Parent() != nil {
		return false
	}
	if _, ok := fn.Params[0].Type().Underlying().(*types.Slice); !ok {
		return false
	}
	rets := core.Returns(fn)
	if len(rets) != 1 || len(fn.Blocks) != 1 {
		return false
	}
	ld, ok := rets[0].Results[0].(*ssa.UnOp)
	if !ok {
		return false
	}
	ia, ok := ld.X.(*ssa.IndexAddr)
	if !ok || ia.X != ssa.Value(fn.Params[0]) {
		return false
	}
	d, ok := core.Strip(ia.Index).(*ssa.Call)
	if !ok || !isDraw(d) || len(d.Call.Args) != 1 {
		return false
	}
	x, isLen := core.LenOf(core.Strip(d.Call.Args[0]))
	if !isLen || x != ssa.Value(fn.Params[0]) {
		return false
	}
	// nothing else happens: the only calls are len and the draw
	for _, c := range core.Calls(fn) {
		if c == ssa.CallInstruction(d) || core.IsBuiltin(c, "len") {
			continue
		}
		return false
	}
	return true
}

var (
	rolesCache = map[*core.Program]*Roles{}
	rolesMu    sync.Mutex
)

// refsPackage reports whether instruction in references an object of package path.
func refsPackage(in ssa.Instruction, path string) bool {
	if c, ok := in.(ssa.CallInstruction); ok {
		if f := core.StaticCallee(c); f != nil && f.Name() == "init" && f.Synthetic != "" {
			return false // package initialiser chaining
		}
		if f := core.StaticCallee(c); f != nil && f.Pkg != nil && f.Pkg.Pkg.Path() == path {
			return true
		}
		if f := core.StaticCallee(c); f != nil && f.Pkg == nil {
			if o := f.Object(); o != nil && o.Pkg() != nil && o.Pkg().Path() == path {
				return true
			}
		}
	}
	for _, op := range in.Operands(nil) {
		if op == nil || *op == nil {
			continue
		}
		switch x := (*op).(type) {
		case *ssa.Global:
			if x.Pkg != nil && x.Pkg.Pkg.Path() == path {
				return true
			}
		case *ssa.Function:
			if x.Pkg != nil && x.Pkg.Pkg.Path() == path {
				return true
			}
		}
	}
	return false
}

// GetRoles resolves the randomness roles of the program.
func GetRoles(p *core.Program) *Roles {
	rolesMu.Lock()
	r0, ok := rolesCache[p]
	rolesMu.Unlock()
	if ok {
		return r0
	}
	r := &Roles{RandRefs: map[*ssa.Function][]ssa.Instruction{}, RawCalls: map[*ssa.Function][]*ssa.Call{}}
	isRaw := map[*ssa.Function]bool{}
	for _, fn := range p.ModuleFuncs() {
		core.Instrs(fn, func(in ssa.Instruction) {
			if refsPackage(in, "crypto/rand") {
				r.RandRefs[fn] = append(r.RandRefs[fn], in)
			}
		})
		if len(r.RandRefs[fn]) > 0 {
			r.RawWord = append(r.RawWord, fn)
			isRaw[fn] = true
		}
	}
	isBD := map[*ssa.Function]bool{}
	for _, fn := range p.ModuleFuncs() {
		if isRaw[fn] {
			continue
		}
		for _, c := range core.Calls(fn) {
			cc, ok := c.(*ssa.Call)
			if !ok {
				// go/defer of a raw word function: treat as a call for role purposes
				if f := core.StaticCallee(c); f != nil && isRaw[f] {
					isBD[fn] = true
				}
				continue
			}
			for _, callee := range p.Callees(cc) {
				if isRaw[callee] {
					r.RawCalls[fn] = append(r.RawCalls[fn], cc)
					isBD[fn] = true
				}
			}
		}
		// a raw-word function used as a value (stored, passed) also makes fn a consumer
		core.Instrs(fn, func(in ssa.Instruction) {
			for _, op := range in.Operands(nil) {
				if f, ok := (*op).(*ssa.Function); ok && isRaw[f] {
					if c, ok := in.(ssa.CallInstruction); ok && c.Common().Value == f {
						continue
					}
					isBD[fn] = true
				}
			}
		})
	}
	for _, fn := range p.ModuleFuncs() {
		if isBD[fn] {
			r.BoundedDraw = append(r.BoundedDraw, fn)
		}
	}
	for _, fn := range p.ModuleFuncs() {
		if isBD[fn] || isRaw[fn] {
			continue
		}
		for _, c := range core.Calls(fn) {
			cc, ok := c.(*ssa.Call)
			if !ok {
				continue
			}
			for _, callee := range p.Callees(cc) {
				if isBD[callee] {
					r.DrawSites = append(r.DrawSites, cc)
					break
				}
			}
		}
	}
	// pick helpers and choice sites
	r.PickHelpers = map[*ssa.Function]bool{}
	isDrawCall := func(c *ssa.Call) bool {
		f := core.StaticCallee(c)
		return f != nil && isBD[f]
	}
	for _, fn := range p.ModuleFuncs() {
		if isPickHelper(fn, isDrawCall) {
			r.PickHelpers[fn] = true
		}
	}
	for _, s := range r.DrawSites {
		if !r.PickHelpers[s.Parent()] {
			r.ChoiceSites = append(r.ChoiceSites, s)
		}
	}
	for _, fn := range p.ModuleFuncs() {
		if r.PickHelpers[fn] {
			continue
		}
		for _, c := range core.Calls(fn) {
			if cv, ok := c.(*ssa.Call); ok {
				if f := core.StaticCallee(cv); f != nil && r.PickHelpers[f] {
					r.ChoiceSites = append(r.ChoiceSites, cv)
				}
			}
		}
	}
	rolesMu.Lock()
	rolesCache[p] = r
	rolesMu.Unlock()
	return r
}

// IsDrawCall reports whether v is a call of a bounded-draw function and
// returns the bound argument.
func (r *Roles) IsDrawCall(p *core.Program, v ssa.Value) (*ssa.Call, ssa.Value, bool) {
	c, ok := v.(*ssa.Call)
	if !ok {
		return nil, nil, false
	}
	f := core.StaticCallee(c)
	if f == nil {
		return nil, nil, false
	}
	for _, bd := range r.BoundedDraw {
		if bd == f {
			if len(c.Call.Args) == 1 {
				return c, c.Call.Args[0], true
			}
			return c, nil, true
		}
	}
	return nil, nil, false
}

// funcNames renders a list of functions.
func funcNames(fs []*ssa.Function) string {
	var s []string
	for _, f := range fs {
		s = append(s, core.FuncName(f))
	}
	return strings.Join(s, ", ")
}

// isUint32 reports whether t is uint32.
func isUint32(t types.Type) bool {
	b, ok := t.Underlying().(*types.Basic)
	return ok && b.Kind() == types.Uint32
}

// liveFuncs returns the module functions reachable from exported API / main
// (used to tell live draw sites from dead code such as nFromString).
func liveFuncs(p *core.Program) map[*ssa.Function]bool {
	var roots []*ssa.Function
	for _, fn := range p.ModuleFuncs() {
		if fn.Parent() != nil {
			continue
		}
		if fn.Name() == "main" || fn.Name() == "init" || strings.HasPrefix(fn.Synthetic, "package initializer") {
			roots = append(roots, fn)
			continue
		}
		if o := fn.Object(); o != nil && o.Exported() {
			// methods: receiver type must be exported too
			if sig, ok := o.Type().(*types.Signature); ok && sig.Recv() != nil {
				n := core.NamedOf(sig.Recv().Type())
				i := strings.LastIndex(n, ".")
				if i >= 0 && !isExportedName(n[i+1:]) {
					continue
				}
			}
			roots = append(roots, fn)
		}
	}
	return p.ReachableFrom(roots...)
}

func isExportedName(s string) bool { return s != "" && s[0] >= 'A' && s[0] <= 'Z' }

func isUint64(t types.Type) bool {
	b, ok := t.Underlying().(*types.Basic)
	return ok && b.Kind() == types.Uint64
}
