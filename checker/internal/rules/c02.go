package rules

import (
	"fmt"
	"go/token"
	"go/types"

	"golang.org/x/tools/go/ssa"

	"spgverif/internal/core"
)

func init() {
	register(&Property{
		Meta: core.PropertyMeta{
			ID: "C02",
			Explanation: "Decides the structural necessary conditions that, with C01 (each bounded draw exactly uniform), C03 (what the alphabet " +
				"and required sets are) and the lemma below, give the uniform distribution over exactly the allowed strings. Lemma: if every " +
				"position of a candidate is an independent uniform draw over a duplicate-free alphabet (so all candidates are equally likely) " +
				"and a candidate is accepted iff a fixed predicate holds, and a rejected candidate is discarded entirely, then the accepted " +
				"candidate is uniform on the predicate's extension. Conditions checked: the alphabet is the element list of a set (duplicates " +
				"collapse, each element once, single characters); the draw's bound is the length of the very slice it indexes; one fresh draw " +
				"per position in a counted loop over Length, stored unconditionally; the candidate slice is allocated per attempt, never patched " +
				"outside the draw loop, and returned only on the true edge of the requirement filter applied to that candidate; the filter is " +
				"an all-of sweep over the required sets.",
			Rules: []string{
				"R2.0 the draw routines the candidate loop relies on are schema instances (= C01 R1.1-R1.3, re-run here)",
				"R2.1 alphabet provenance: the indexed list is strings.Split(concat(X), \"\") with X a golang-set Set; concat appends each element of one full iteration exactly once; every element added to a set by the set constructor is an element of strings.Split(s, \"\")",
				"R2.2 bound agreement: the draw bound is uint32(len(L)) and the draw result (through conversions only) indexes the same SSA value L; the draw result has no other use",
				"R2.3 one independent draw per position: the draw lies in a counted loop 0<=i<Length step 1; the drawn character is stored at tokens[i] unconditionally; tokens = make([]Token, Length) with the same Length",
				"R2.4 whole-candidate rejection: tokens is allocated inside the retry loop; no store into it outside the draw loop; the only non-nil return is on the true edge of the requirement filter applied to the string of exactly those tokens and to the builder's required sets; the false edge leads to the next attempt",
				"R2.5 the requirement filter is an all-of sweep: true is returned only for an empty requirement list or after the full sweep; inside the sweep the only exit is return false, taken iff the set is non-empty and ContainsAny(candidate, its characters) is false",
			},
			Trusted:    append([]string{"golang-set: a Set holds each element once; Iter() yields each element exactly once", "strings.ContainsAny semantics; strings.Split(s,\"\") yields single characters", "the paper lemma"}, commonTrusted...),
			NotDecided: []string{"the distribution itself (a counting statement) — follows from the lemma", "invalid UTF-8 in custom strings"},
		},
		Run: runC02,
	})
}

// charGen is the resolved shape of CharRecipe.Generate.
type charGen struct {
	fn         *ssa.Function
	recvCopy   *ssa.Alloc
	builder    *ssa.Call
	chars      ssa.Value
	draw       *ssa.Call
	viaPick    bool      // draw is a call of a uniform-pick helper on chars
	elem       ssa.Value // the drawn character (load of chars[draw], or the pick call)
	drawIdx    *ssa.IndexAddr
	tokens     *ssa.MakeSlice
	tokStore   *ssa.Store
	inner      *core.Counted
	innerRange *core.RangeInfo // alternative: for i := range tokens
	retry      *core.Loop
	pwd        *ssa.Alloc
	filter     *ssa.Call
	loops      []*core.Loop
	problems   []string
}

func resolveCharGen(p *core.Program) (*charGen, string) {
	fn := p.Method("CharRecipe", "Generate")
	if fn == nil {
		return nil, "CharRecipe.Generate not found"
	}
	roles := GetRoles(p)
	g := &charGen{fn: fn, loops: core.Loops(fn)}
	for _, s := range roles.ChoiceSites {
		if s.Parent() == fn {
			if g.draw != nil {
				return nil, "more than one draw site in CharRecipe.Generate"
			}
			g.draw = s
		}
	}
	if g.draw == nil {
		return nil, "no draw site in CharRecipe.Generate"
	}
	if _, coll, isPick := roles.IsPickCall(g.draw); isPick {
		g.viaPick = true
		g.chars = coll
		g.elem = g.draw
		if c, ok := core.StripType(coll).(*ssa.Call); ok {
			g.builder = c
			if len(c.Call.Args) == 1 {
				if al, ok := c.Call.Args[0].(*ssa.Alloc); ok {
					g.recvCopy = al
				}
			}
		}
	}
	if !g.viaPick {
		// uses of the draw result
		var uses []ssa.Instruction
		var collect func(v ssa.Value)
		collect = func(v ssa.Value) {
			for _, ref := range core.Referrers(v) {
				switch x := ref.(type) {
				case *ssa.Convert:
					collect(x)
				case *ssa.ChangeType:
					collect(x)
				case *ssa.DebugRef:
				default:
					uses = append(uses, ref)
				}
			}
		}
		collect(g.draw)
		if len(uses) != 1 {
			return nil, fmt.Sprintf("the draw result has %d uses (expected exactly one index expression)", len(uses))
		}
		ia, ok := uses[0].(*ssa.IndexAddr)
		if !ok || core.Strip(ia.Index) != ssa.Value(g.draw) {
			return nil, "the draw result is not used as an index: " + uses[0].String()
		}
		g.drawIdx = ia
		g.chars = ia.X
		// the alphabet may arrive through a merge left by an expanded helper that returned (alphabet, error)
		if c, ok := core.StripType(core.SelectedEdge(core.StripType(ia.X), core.Guards(ia.Block()))).(*ssa.Call); ok {
			g.builder = c
			if len(c.Call.Args) == 1 {
				if al, ok := c.Call.Args[0].(*ssa.Alloc); ok {
					g.recvCopy = al
				}
			}
		}
		for _, ref := range core.Referrers(ia) {
			if ld, ok := ref.(*ssa.UnOp); ok {
				g.elem = ld
			}
		}
	} // !viaPick
	// the drawn character -> Token literal -> tokens[i]
	if g.elem != nil {
		ld := g.elem
		for _, r2 := range core.Referrers(ld) {
			st, ok := r2.(*ssa.Store)
			if !ok {
				continue
			}
			// st stores the char into a local Token's value field; find the whole-token store
			fa, ok := st.Addr.(*ssa.FieldAddr)
			if !ok {
				continue
			}
			tokAl, ok := fa.X.(*ssa.Alloc)
			if !ok {
				continue
			}
			for _, r3 := range core.Referrers(tokAl) {
				ld2, ok := r3.(*ssa.UnOp)
				if !ok {
					continue
				}
				for _, r4 := range core.Referrers(ld2) {
					if st2, ok := r4.(*ssa.Store); ok && st2.Val == ssa.Value(ld2) {
						if ia2, ok := st2.Addr.(*ssa.IndexAddr); ok {
							if mk, ok := core.StripType(ia2.X).(*ssa.MakeSlice); ok {
								g.tokens, g.tokStore = mk, st2
							}
						}
					}
				}
			}
		}
	}
	if l := core.InnermostLoop(g.loops, g.draw.Block()); l != nil {
		if c, ok := core.AsCounted(l); ok {
			g.inner = c
		} else if ri, ok := core.AsRange(l); ok && ri.Kind == "slice" {
			g.innerRange = ri
		}
	}
	if g.tokens != nil {
		for _, l := range core.LoopsContaining(g.loops, g.tokens.Block()) {
			if (g.inner == nil || l != g.inner.Loop) && (g.innerRange == nil || l != g.innerRange.Loop) {
				g.retry = l
				break
			}
		}
	}
	// password object: heap alloc returned non-nil
	for _, ret := range core.Returns(fn) {
		if al, ok := ret.Results[0].(*ssa.Alloc); ok {
			g.pwd = al
		}
	}
	return g, ""
}

func runC02(p *core.Program, r *core.Report) {
	g, why := resolveCharGen(p)
	if g == nil {
		r.Unrecognised("R2.2", "(spg.CharRecipe).Generate", "generation shape", "", why)
		return
	}
	name := core.FuncName(g.fn)
	checkDrawRoutines(p, r, "R2.0", "R2.0", "R2.0")
	checkAlphabetProvenance(p, r, "R2.1")
	// "the recipe's alphabet": allowed ∪ required minus excluded, consistently in the list drawn
	// from and in the sets the filter and the entropy use (= C03 R3.1-R3.3 re-run)
	r.Borrow("R2.1", func() { checkAlphabetBuilder(p, r) })
	checkDrawShape(p, r, g, "R2.2", "R2.3")
	checkWholeCandidateRejection(p, r, g, "R2.4")
	checkFilterAllOf(p, r, g, "R2.5")
	_ = name
}

// checkAlphabetProvenance: R2.1.
func checkAlphabetProvenance(p *core.Program, r *core.Report, rule string) {
	m, why := resolveBuilder(p)
	if m == nil {
		r.Unrecognised(rule, "-", "alphabet builder", "", why)
		return
	}
	name := core.FuncName(m.fn)
	for _, ret := range core.Returns(m.fn) {
		pos := p.InstrPos(ret)
		sp, ok := core.StripType(ret.Results[0]).(*ssa.Call)
		okSplit := ok && core.CallName(sp) == "strings.Split"
		if okSplit {
			s, isS := core.ConstString(sp.Call.Args[1])
			okSplit = isS && s == ""
		}
		if !okSplit {
			r.Fail(rule, name, "alphabet is strings.Split(concat(set), \"\")", pos, "returned list is "+core.Describe(ret.Results[0])+": an alphabet not derived from a set can contain a character twice (favouring it)")
			continue
		}
		cc, ok := sp.Call.Args[0].(*ssa.Call)
		okSet := ok && len(cc.Call.Args) == 1 && isSetTyped(cc.Call.Args[0]) && core.StaticCallee(cc) != nil && p.InLib(core.StaticCallee(cc))
		r.Check(okSet, rule, name, "the string that is split is the concatenation of a Set's elements", pos, core.Describe(sp.Call.Args[0]))
		if okSet {
			ok2, why2 := isConcatOfSet(core.StaticCallee(cc))
			r.Check(ok2, rule, core.FuncName(core.StaticCallee(cc)), "concatenates each element of one full iteration exactly once", p.Pos(core.StaticCallee(cc).Pos()), why2)
		}
		// nothing appended to the list afterwards: the return value is the Split result itself
	}
	// set constructor adds single characters
	n := 0
	for _, fn := range p.LibFuncs() {
		for _, c := range core.Calls(fn) {
			com := c.Common()
			if !com.IsInvoke() || !isSetTyped(com.Value) || com.Method.Name() != "Add" {
				continue
			}
			mi, ok := com.Args[0].(*ssa.MakeInterface)
			if !ok {
				continue
			}
			if b, ok := mi.X.Type().Underlying().(*types.Basic); !ok || b.Kind() != types.String {
				continue // sets of sets (entropy count): not alphabets
			}
			n++
			// the string is an element of strings.Split(s, "")
			okEl := false
			if ld, ok := mi.X.(*ssa.UnOp); ok {
				if ia, ok := ld.X.(*ssa.IndexAddr); ok {
					if sp, ok := core.StripType(ia.X).(*ssa.Call); ok && core.CallName(sp) == "strings.Split" {
						if s, isS := core.ConstString(sp.Call.Args[1]); isS && s == "" {
							okEl = true
						}
					}
				}
			}
			r.Check(okEl, rule, core.FuncName(fn), "only single characters (elements of strings.Split(s,\"\")) are added to a character set", p.InstrPos(c), core.Describe(mi.X))
		}
	}
	r.Floor(rule, "string Add sites", n, 1)
}

// isConcatOfSet: f(set) = "" if nil; out := ""; for e := range set.Iter() { out += e.(string) }.
func isConcatOfSet(f *ssa.Function) (bool, string) {
	if f.Blocks == nil || len(f.Params) != 1 {
		return false, "no body"
	}
	loops := core.Loops(f)
	sawLoop := false
	for _, ret := range core.Returns(f) {
		if s, ok := core.ConstString(ret.Results[0]); ok {
			if s != "" {
				return false, "returns a non-empty constant"
			}
			continue
		}
		if ok, why, isB := isBuilderConcat(f, ret.Results[0], func(l *core.Loop) bool {
			ri, ok := core.AsRange(l)
			if !ok || ri.Kind != "chan" {
				return false
			}
			it, ok := ri.X.(*ssa.Call)
			return ok && it.Common().IsInvoke() && it.Common().Value == ssa.Value(f.Params[0]) && it.Common().Method.Name() == "Iter"
		}, func(v ssa.Value) bool {
			ta, ok := v.(*ssa.TypeAssert)
			if !ok {
				return false
			}
			ex, ok := ta.X.(*ssa.Extract)
			return ok && ex.Index == 0
		}); isB {
			if !ok {
				return false, why
			}
			sawLoop = true
			continue
		}
		phi, ok := ret.Results[0].(*ssa.Phi)
		if !ok {
			return false, "result is not an accumulator: " + core.Describe(ret.Results[0])
		}
		var loop *core.Loop
		for _, l := range loops {
			if l.Header == phi.Block() {
				loop = l
			}
		}
		if loop == nil {
			return false, "accumulator is not loop-carried"
		}
		ri, ok := core.AsRange(loop)
		if !ok || ri.Kind != "chan" {
			return false, "loop is not a range over the set's iterator channel"
		}
		it, ok := ri.X.(*ssa.Call)
		if !ok || !it.Common().IsInvoke() || it.Common().Value != ssa.Value(f.Params[0]) || it.Common().Method.Name() != "Iter" {
			return false, "iterated channel is not set.Iter() of the parameter"
		}
		for i, e := range phi.Edges {
			if !loop.Blocks[phi.Block().Preds[i]] {
				if s, ok := core.ConstString(e); !ok || s != "" {
					return false, "accumulator does not start empty"
				}
				continue
			}
			bo, ok := e.(*ssa.BinOp)
			if !ok || bo.Op != token.ADD || bo.X != ssa.Value(phi) {
				return false, "accumulator update is not out + element"
			}
			ta, ok := bo.Y.(*ssa.TypeAssert)
			if !ok {
				return false, "appended value is not the iterated element"
			}
			ex, ok := ta.X.(*ssa.Extract)
			if !ok || ex.Index != 0 {
				return false, "appended value is not the received element"
			}
			// unconditional
			for _, la := range loop.Latch {
				if !bo.Block().Dominates(la) {
					return false, "element is appended conditionally"
				}
			}
		}
		sawLoop = true
	}
	return sawLoop, "no accumulating return"
}

// isBuilderConcat recognises `var b strings.Builder; for … { b.WriteString(elem) }; return b.String()`:
// the only writes to b are WriteString(elem) calls, each unconditional in a
// loop accepted by loopOK with an element accepted by elemOK. isB tells whether
// v is a Builder.String() result at all.
func isBuilderConcat(f *ssa.Function, v ssa.Value, loopOK func(*core.Loop) bool, elemOK func(ssa.Value) bool) (ok bool, why string, isB bool) {
	sc, isCall := v.(*ssa.Call)
	if !isCall || core.CallName(sc) != "(*strings.Builder).String" {
		return false, "", false
	}
	b, isAl := sc.Call.Args[0].(*ssa.Alloc)
	if !isAl {
		return false, "builder is not a local", true
	}
	loops := core.Loops(f)
	n := 0
	for _, ref := range core.Referrers(b) {
		c, isC := ref.(*ssa.Call)
		if !isC {
			if _, dbg := ref.(*ssa.DebugRef); dbg {
				continue
			}
			return false, "builder escapes: " + ref.String(), true
		}
		switch core.CallName(c) {
		case "(*strings.Builder).String", "(*strings.Builder).Grow", "(*strings.Builder).Len":
			continue
		case "(*strings.Builder).WriteString":
			n++
			l := core.InnermostLoop(loops, c.Block())
			if l == nil || !loopOK(l) {
				return false, "WriteString outside the element loop", true
			}
			for _, la := range l.Latch {
				if !c.Block().Dominates(la) {
					return false, "element is appended conditionally", true
				}
			}
			if !elemOK(c.Call.Args[1]) {
				return false, "appended string is not the current element", true
			}
		default:
			return false, "builder written by " + core.CallName(c), true
		}
	}
	if n != 1 {
		return false, fmt.Sprintf("%d WriteString calls", n), true
	}
	return true, "", true
}

// checkDrawShape: R2.2 and R2.3 (also used by C03's R3.4).
func checkDrawShape(p *core.Program, r *core.Report, g *charGen, r22, r23 string) {
	name := core.FuncName(g.fn)
	pos := p.InstrPos(g.draw)
	if g.viaPick {
		h := core.StaticCallee(g.draw)
		r.Pass(r22, name, "character chosen by the uniform-pick helper "+core.FuncName(h)+" applied to the alphabet", pos,
			"helper shape verified: return list[draw(uint32(len(list)))] — bound and indexed slice are the same parameter")
	} else {
		bound := g.draw.Call.Args[0]
		x, isLen := core.LenOf(core.Strip(bound))
		r.Check(isLen && x == g.chars, r22, name, "draw bound is len of the indexed alphabet (same value)", pos,
			"bound "+core.Describe(bound)+" vs indexed "+core.Describe(g.chars)+": an index range one short or long loses or over-runs a character")
		if cv, ok := bound.(*ssa.Convert); ok {
			_, isL := core.LenOf(cv.X)
			r.Check(isL, r22, name, "bound is a plain conversion of the length (no ±1)", pos, core.Describe(cv.X))
		}
		r.Pass(r22, name, "draw result is used exactly once, as the index", pos, "")
	}
	if g.builder == nil {
		r.Fail(r22, name, "indexed alphabet is the builder's result", pos, "indexed value "+core.Describe(g.chars)+" is not the result of the alphabet builder")
	}

	// R2.3
	if g.inner == nil && g.innerRange != nil && g.tokens != nil && g.tokStore != nil {
		// `for i := range tokens`: a full sweep of the candidate slice itself
		ri := g.innerRange
		ia := g.tokStore.Addr.(*ssa.IndexAddr)
		r.Check(core.StripType(ri.X) == ssa.Value(g.tokens), r23, name, "position loop ranges over the candidate slice (all Length positions)", p.InstrPos(g.tokStore), core.Describe(ri.X))
		r.Check(ia.Index == ri.Index, r23, name, "drawn character is stored at tokens[i]", p.InstrPos(g.tokStore), core.Describe(ia.Index))
		uncond := true
		for _, la := range ri.Loop.Latch {
			if !g.tokStore.Block().Dominates(la) || !g.draw.Block().Dominates(la) {
				uncond = false
			}
		}
		r.Check(uncond, r23, name, "draw and store happen on every iteration", p.InstrPos(g.tokStore), "")
		r.Check(recipeField(g.tokens.Len, "Length"), r23, name, "candidate has exactly Length positions (make([]Token, Length))", p.InstrPos(g.tokens), core.Describe(g.tokens.Len))
		checkAtomTypeToken(p, r, g, r23)
		return
	}
	if g.inner == nil {
		r.Fail(r23, name, "draw lies in a counted per-position loop", pos, "the draw is not inside a counted loop (one draw reused for all positions?)")
		return
	}
	c := g.inner
	z, isC := core.ConstInt(c.Init)
	okLoop := isC && z == 0 && c.Step == 1 && c.Op == token.LSS && recipeField(c.Bound, "Length")
	r.Check(okLoop, r23, name, "position loop is 0 <= i < Length step 1", p.InstrPos(c.Phi), fmt.Sprintf("init %v step %d op %s bound %s", c.Init, c.Step, c.Op, core.Describe(c.Bound)))
	if g.tokens == nil || g.tokStore == nil {
		r.Fail(r23, name, "drawn character is stored into the candidate slice", pos, "no store of the drawn character into a make([]Token, …) slice found")
		return
	}
	ia := g.tokStore.Addr.(*ssa.IndexAddr)
	r.Check(ia.Index == ssa.Value(c.Phi), r23, name, "drawn character is stored at tokens[i]", p.InstrPos(g.tokStore), core.Describe(ia.Index))
	uncond := true
	for _, la := range c.Loop.Latch {
		if !g.tokStore.Block().Dominates(la) || !g.draw.Block().Dominates(la) {
			uncond = false
		}
	}
	r.Check(uncond, r23, name, "draw and store happen on every iteration", p.InstrPos(g.tokStore), "")
	r.Check(recipeField(g.tokens.Len, "Length"), r23, name, "candidate has exactly Length positions (make([]Token, Length))", p.InstrPos(g.tokens), core.Describe(g.tokens.Len))
	checkAtomTypeToken(p, r, g, r23)
	// MEM: Length is the same value for make and loop (stable receiver copy field)
	if g.recvCopy != nil {
		eff := core.GetEff(p)
		canon := core.StableLoads(g.fn, eff)
		l1 := core.Strip(g.tokens.Len)
		l2 := core.Strip(c.Bound)
		c1, c2 := l1, l2
		if x, ok := canon[l1]; ok {
			c1 = x
		}
		if x, ok := canon[l2]; ok {
			c2 = x
		}
		r.Check(c1 == c2, r23, name, "make length and loop bound are the same Length value (no write to Length in between)", p.InstrPos(g.tokens), "")
	}
}

// checkAtomTypeToken: the stored token literal has the AtomType constant.
func checkAtomTypeToken(p *core.Program, r *core.Report, g *charGen, r23 string) {
	name := core.FuncName(g.fn)
	okType := false
	if ld, ok := g.tokStore.Val.(*ssa.UnOp); ok {
		if al, ok := ld.X.(*ssa.Alloc); ok {
			lit := core.StructLiteral(al)
			if v := lit[tokenTypeField(p)]; v != nil {
				if k, isC := core.ConstInt(v); isC {
					at, _, okC := core.ConstOf(p.LibPkg.Types, "AtomType")
					if okC && at.String() == fmt.Sprint(k) {
						okType = true
					}
				}
			}
		}
	}
	r.Check(okType, r23, name, "each position is one AtomType token", p.InstrPos(g.tokStore), "")
}

// checkWholeCandidateRejection: R2.4.
func checkWholeCandidateRejection(p *core.Program, r *core.Report, g *charGen, rule string) {
	name := core.FuncName(g.fn)
	if g.tokens == nil {
		r.Fail(rule, name, "candidate slice", p.Pos(g.fn.Pos()), "not resolved")
		return
	}
	pos := p.InstrPos(g.tokens)
	r.Check(g.retry != nil && g.retry.Blocks[g.tokens.Block()], rule, name, "candidate slice is allocated inside the retry loop (fresh per attempt)", pos,
		"a slice reused across attempts lets a failed candidate be patched instead of redrawn")
	// stores into tokens only in the draw loop
	for _, ref := range core.Referrers(g.tokens) {
		switch x := ref.(type) {
		case *ssa.IndexAddr:
			for _, rr := range core.Referrers(x) {
				if st, ok := rr.(*ssa.Store); ok && st.Addr == x {
					in := st == g.tokStore && ((g.inner != nil && g.inner.Loop.Blocks[st.Block()]) || (g.innerRange != nil && g.innerRange.Loop.Blocks[st.Block()]))
					r.Check(in, rule, name, "candidate positions are written only by the draw loop", p.InstrPos(st), "a second writer can fix up a rejected candidate, favouring some strings")
				}
			}
		case *ssa.ChangeType, *ssa.DebugRef, *ssa.Store:
		case *ssa.Call:
			if !core.IsBuiltin(x, "len") {
				r.Fail(rule, name, "candidate slice escapes to a call", p.InstrPos(x), x.String())
			}
		}
	}
	// a candidate is always drawn completely: the position loop is left only through its
	// own exit test (no break / continue-outer / return inside it), so whether a candidate is
	// kept is decided by the filter on the whole string and by nothing else
	var posLoop *core.Loop
	if g.inner != nil {
		posLoop = g.inner.Loop
	} else if g.innerRange != nil {
		posLoop = g.innerRange.Loop
	}
	if posLoop != nil {
		for b := range posLoop.Blocks {
			if b == posLoop.Header {
				continue
			}
			for _, sb := range b.Succs {
				if !posLoop.Blocks[sb] {
					at := b.Instrs[len(b.Instrs)-1]
					r.Fail(rule, name, "every candidate is drawn to its full length (the position loop has no early exit)", p.InstrPos(at),
						"a candidate abandoned part-way is rejected by something other than the requirement filter on the whole string: valid strings can lose probability")
				}
			}
		}
	}
	// the non-nil return
	for _, ret := range core.Returns(g.fn) {
		if core.IsNilConst(ret.Results[0]) {
			continue
		}
		rpos := p.InstrPos(ret)
		var filt *ssa.Call
		for _, gd := range core.Guards(ret.Block()) {
			if c, ok := gd.Cond.(*ssa.Call); ok && gd.Pos {
				if f := core.StaticCallee(c); f != nil && p.InLib(f) && f.Signature.Results().Len() == 1 && f.Signature.Results().At(0).Type().String() == "bool" {
					// the innermost such guard inside the retry loop
					if g.retry != nil && g.retry.Blocks[c.Block()] {
						filt = c
					}
				}
			}
		}
		if filt == nil {
			r.Fail(rule, name, "password is returned only on the true edge of the requirement filter", rpos, "no dominating filter call inside the retry loop")
			continue
		}
		g.filter = filt
		r.Pass(rule, name, "password is returned only on the true edge of the requirement filter", rpos, core.CallName(filt))
		// filter args: String() of the password holding exactly these tokens; required sets of the builder
		okStr, okReq := false, false
		for _, a := range filt.Call.Args {
			if sc, ok := a.(*ssa.Call); ok && core.CallName(sc) == "("+core.ModulePath+".Password).String" {
				if ld, ok := sc.Call.Args[0].(*ssa.UnOp); ok && ld.X == ssa.Value(g.pwd) {
					// p.tokens was stored from tokens before
					for _, ref := range core.Referrers(g.pwd) {
						if fa, ok := ref.(*ssa.FieldAddr); ok && core.FieldName(fa) == passwordTokensField(p) {
							for _, rr := range core.Referrers(fa) {
								if st, ok := rr.(*ssa.Store); ok && core.StripType(st.Val) == ssa.Value(g.tokens) && core.InstrDominates(st, sc) {
									okStr = true
								}
							}
						}
					}
				}
			}
			if ref, ok := core.LoadPath(a); ok && g.recvCopy != nil && ref.Root == ssa.Value(g.recvCopy) && ref.Path == "."+requiredSetsField(p) {
				if g.builder != nil && core.InstrDominates(g.builder, filt) {
					okReq = true
				}
			}
			// the required sets handed over as strings prepared once per call:
			// [concat(e.s) for e in copy.requiredSets if size(e) > 0], built after the builder ran
			if g.recvCopy != nil && g.builder != nil && isRequiredStrings(p, g, a) {
				okReq = true
			}
		}
		r.Check(okStr, rule, name, "the filter sees the string of exactly the freshly drawn tokens", p.InstrPos(filt), "")
		r.Check(okReq, rule, name, "the filter uses the required sets computed by the builder for this call", p.InstrPos(filt), "")
		r.Check(ret.Results[0] == ssa.Value(g.pwd), rule, name, "the returned password is the filtered candidate", rpos, "")
		// false edge: stays in the retry loop
		if iff, ok := filt.Block().Instrs[len(filt.Block().Instrs)-1].(*ssa.If); ok && iff.Cond == ssa.Value(filt) {
			fb := filt.Block().Succs[1]
			r.Check(g.retry != nil && g.retry.Blocks[fb], rule, name, "a rejected candidate leads to the next attempt", p.InstrPos(iff), "")
			// and nothing else does: every way round the retry loop passes the filter
			if g.retry != nil {
				for _, la := range g.retry.Latch {
					r.Check(filt.Block().Dominates(la), rule, name, "the next attempt is started only by the filter rejecting the candidate", p.InstrPos(la.Instrs[len(la.Instrs)-1]), "")
				}
			}
		}
	}
}

// checkFilterAllOf: R2.5.
func checkFilterAllOf(p *core.Program, r *core.Report, g *charGen, rule string) {
	if g.filter == nil {
		r.Unrecognised(rule, "-", "requirement filter", "", "filter call not resolved (see R2.4)")
		return
	}
	f := core.StaticCallee(g.filter)
	name := core.FuncName(f)
	if len(f.Params) != 2 {
		r.Unrecognised(rule, name, "filter(candidate, required)", p.Pos(f.Pos()), "unexpected signature")
		return
	}
	pwd, req := f.Params[0], f.Params[1]
	if pwd.Type().String() != "string" {
		pwd, req = req, pwd
	}
	loops := core.Loops(f)
	var sweep *core.Loop
	for _, l := range loops {
		if ri, ok := core.AsRange(l); ok && ri.Kind == "slice" && ri.X == ssa.Value(req) {
			sweep = l
		}
	}
	if sweep == nil {
		r.Fail(rule, name, "filter sweeps the whole requirement list", p.Pos(f.Pos()), "no range loop over the requirement list")
		return
	}
	ri, _ := core.AsRange(sweep)
	for _, ret := range core.Returns(f) {
		c, ok := ret.Results[0].(*ssa.Const)
		if !ok {
			r.Fail(rule, name, "filter returns constant verdicts", p.InstrPos(ret), core.Describe(ret.Results[0]))
			continue
		}
		val := c.Value.String() == "true"
		pos := p.InstrPos(ret)
		if val {
			// after the full sweep (block dominated by the loop exit and outside the loop) or under an empty-list guard
			afterSweep := !sweep.Blocks[ret.Block()] && ri.Exit.Dominates(ret.Block())
			// every edge into the block is the true edge of `required == nil` or `len(required) == 0`
			emptyGuard := len(ret.Block().Preds) > 0
			for _, pb := range ret.Block().Preds {
				for si, s := range pb.Succs {
					if s != ret.Block() {
						continue
					}
					edgeOK := false
					if gd, ok := core.EdgeCond(pb, si); ok {
						if rel, ok := core.AsRel(gd); ok {
							if rel.Op == token.EQL && core.IsNilConst(rel.Y) && rel.X == ssa.Value(req) {
								edgeOK = true
							}
							if x, isLen := core.LenOf(rel.X); isLen && x == ssa.Value(req) {
								if k, isC := core.ConstInt(rel.Y); isC && (rel.Op == token.EQL && k == 0 || rel.Op == token.LSS && k == 1 || rel.Op == token.LEQ && k == 0) {
									edgeOK = true
								}
							}
						}
					}
					if !edgeOK {
						emptyGuard = false
					}
				}
			}
			r.Check(afterSweep || emptyGuard, rule, name, "true is returned only after the full sweep or for an empty requirement list", pos,
				"accepting on the first satisfied set lets candidates through that miss another requirement")
		} else {
			// inside the sweep, guarded by size>0 and !ContainsAny(pwd, chars(set))
			inSweep := false
			for _, gd := range core.Guards(ret.Block()) {
				if sweep.Blocks[gd.If.Block()] {
					inSweep = true
				}
			}
			okCA := false
			for _, gd := range core.Guards(ret.Block()) {
				if c, ok := gd.Cond.(*ssa.Call); ok && !gd.Pos && core.CallName(c) == "strings.ContainsAny" {
					if c.Call.Args[0] == ssa.Value(pwd) {
						okCA = true
					}
				}
			}
			// no other condition: besides !ContainsAny only a non-emptiness test of the swept set (size > 0)
			extra := ""
			for _, gd := range core.Guards(ret.Block()) {
				if !sweep.Blocks[gd.If.Block()] || gd.If.Block() == sweep.Header {
					continue
				}
				if c, ok := gd.Cond.(*ssa.Call); ok && core.CallName(c) == "strings.ContainsAny" {
					continue
				}
				if rel, ok := core.AsRel(gd); ok {
					if _, isCall := rel.X.(*ssa.Call); isCall {
						if k, isC := core.ConstInt(rel.Y); isC && (rel.Op == token.GTR && k == 0 || rel.Op == token.NEQ && k == 0 || rel.Op == token.GEQ && k == 1) {
							continue
						}
					}
					// a nil test of the swept element's set (the size accessor written out): a nil set is an empty set
					if rel.Op == token.NEQ && core.IsNilConst(rel.Y) && isSetTyped(rel.X) {
						continue
					}
				}
				extra = "additional condition at " + p.InstrPos(gd.If)
			}
			r.Check(inSweep && okCA && extra == "", rule, name, "false is returned iff a (non-empty) required set has no character in the candidate", pos, extra)
		}
	}
	// ContainsAny's second argument derives from the swept element
	for _, c := range core.Calls(f) {
		if core.CallName(c) != "strings.ContainsAny" {
			continue
		}
		arg := c.Common().Args[1]
		okDer := false
		if sc, ok := arg.(*ssa.Call); ok && len(sc.Call.Args) == 1 {
			// concat(set) with set loaded from the swept element
			if root, path, ok := valueAccessPath(sc.Call.Args[0]); ok {
				_ = path
				if al, ok := root.(*ssa.Alloc); ok {
					// local copy of require[i]
					for _, ref := range core.Referrers(al) {
						if st, ok := ref.(*ssa.Store); ok && st.Addr == al {
							if ld, ok := st.Val.(*ssa.UnOp); ok {
								if ia, ok := ld.X.(*ssa.IndexAddr); ok && ia.X == ssa.Value(req) && ia.Index == ri.Index {
									okDer = true
								}
							}
						}
					}
				}
			}
			if ld, ok := sc.Call.Args[0].(*ssa.UnOp); ok {
				if fa, ok := ld.X.(*ssa.FieldAddr); ok {
					if ia, ok := fa.X.(*ssa.IndexAddr); ok && ia.X == ssa.Value(req) && ia.Index == ri.Index {
						okDer = true
					}
				}
			}
		}
		// a list of strings (one per required set, prepared by the caller — see R2.4): the swept element itself
		if ld, ok := arg.(*ssa.UnOp); ok && req.Type().String() == "[]string" {
			if ia, ok := ld.X.(*ssa.IndexAddr); ok && ia.X == ssa.Value(req) && ia.Index == ri.Index {
				okDer = true
			}
		}
		r.Check(okDer, rule, name, "the characters tested are those of the swept required set", p.InstrPos(c), core.Describe(arg))
	}
}

// isRequiredStrings: v is the list [concat(e.s) for e in copy.requiredSets if size(e) > 0]
// accumulated by one full sweep after the builder ran (the requirement sets in the form
// strings.ContainsAny takes, prepared once per Generate call).
func isRequiredStrings(p *core.Program, g *charGen, v ssa.Value) bool {
	fromBuilder := func(x ssa.Value) bool {
		ref, okP := core.LoadPath(x)
		if !okP || ref.Root != ssa.Value(g.recvCopy) || ref.Path != "."+requiredSetsField(p) {
			return false
		}
		ld, isLd := x.(ssa.Instruction)
		return isLd && core.InstrDominates(g.builder, ld)
	}
	// a helper applied to the builder's required sets whose result is the list over its parameter
	if c, isCall := v.(*ssa.Call); isCall {
		f := core.StaticCallee(c)
		if f == nil || !p.InLib(f) || f.Blocks == nil || len(f.Params) != 1 || len(c.Call.Args) != 1 || !fromBuilder(c.Call.Args[0]) {
			return false
		}
		if g.retry != nil && g.retry.Blocks[c.Block()] {
			// recomputed per attempt: still the same list
		}
		nAcc := 0
		for _, ret := range core.Returns(f) {
			if core.IsNilConst(ret.Results[0]) {
				continue
			}
			if !isSetStringList(p, core.Loops(f), ret.Results[0], func(x ssa.Value) bool { return core.StripType(x) == ssa.Value(f.Params[0]) }) {
				return false
			}
			nAcc++
		}
		return nAcc >= 1
	}
	loop, _, _, ok := sliceAccumulator(v, g.loops)
	if !ok || g.retry != nil && g.retry.Blocks[loop.Header] {
		return false
	}
	return isSetStringList(p, g.loops, v, fromBuilder)
}

// isSetStringList: v = [concat(e.s) for e in S if size(e) > 0] with S accepted by src.
func isSetStringList(p *core.Program, loops []*core.Loop, v ssa.Value, src func(ssa.Value) bool) bool {
	loop, app, elems, ok := sliceAccumulator(v, loops)
	if !ok || len(elems) != 1 {
		return false
	}
	ri, isR := core.AsRange(loop)
	if !isR || ri.Kind != "slice" || !src(ri.X) {
		return false
	}
	// element: concat-of-set helper applied to the swept element's set
	sc, isCall := elems[0].(*ssa.Call)
	if !isCall || len(sc.Call.Args) != 1 {
		return false
	}
	if f := core.StaticCallee(sc); f == nil {
		return false
	} else if okC, _ := isConcatOfSet(f); !okC {
		return false
	}
	if !elementOfRange(sc.Call.Args[0], ri, 0) {
		return false
	}
	// the append is guarded by nothing but a non-emptiness test of that element
	for _, gd := range core.Guards(app.Block()) {
		if !loop.Blocks[gd.If.Block()] || gd.If.Block() == loop.Header {
			continue
		}
		rel, isRel := core.AsRel(gd)
		if !isRel {
			return false
		}
		c, isC := rel.X.(*ssa.Call)
		if !isC {
			return false
		}
		k, isK := core.ConstInt(rel.Y)
		if !isK || !(rel.Op == token.GTR && k == 0 || rel.Op == token.NEQ && k == 0 || rel.Op == token.GEQ && k == 1) {
			return false
		}
		okRecv := false
		for _, a := range c.Call.Args {
			if elementOfRange(a, ri, 0) {
				okRecv = true
			}
		}
		if c.Common().IsInvoke() && elementOfRange(c.Common().Value, ri, 0) {
			okRecv = true
		}
		if !okRecv {
			return false
		}
	}
	return true
}
