package rules

import (
	"fmt"
	"go/constant"
	"go/token"
	"os"
	"path/filepath"
	"sort"
	"strings"

	"golang.org/x/tools/go/ssa"

	"spgverif/internal/core"
)

func init() {
	register(&Property{
		Meta: core.PropertyMeta{
			ID: "C16",
			Explanation: "Extracts, from the type-checked program and the package initialiser's SSA, the values of the class constants and the " +
				"flag table, the stores made by the two constructors, the recipe literal behind each separator preset and the forwarding chain " +
				"from a preset call to CharRecipe.Generate, the retry-budget initialisers, and the elements of the two embedded lists, and " +
				"compares each with the documented value (the oracle is the property's own wording, encoded as a table keyed by exported names) " +
				"and the lists with testdata/*.txt line by line. The space is finite and enumerated completely. Uniformity and matching entropy " +
				"of the presets follow from their recipes by C01/C02/C06.",
			Rules: []string{
				"R16.1 classes: flag table maps Uppers,Lowers,Digits,Symbols,Ambiguous to exactly A-Z,a-z,0-9,!@.-_*,0O1Il5S (as sets, no repeats); five distinct single bits; None==0, Letters==Uppers|Lowers, All==Letters|Digits|Symbols",
				"R16.2 constructor defaults: NewCharRecipe stores exactly Length=param, Allow=Letters|Digits|Symbols, Exclude=Ambiguous into a fresh recipe; NewWLRecipe stores Length, list from parameters, Capitalize=CSNone, nothing else; CapScheme constants have the documented strings",
				"R16.3 presets: SFNone returns (\"\",0); the six others are NewSFFunction(CharRecipe{Length,Allow,Exclude}) with the documented triples and no other field; the function NewSFFunction returns forwards Generate().String() and Password.Entropy of exactly that recipe",
				"R16.4 retry budget: MaxTrials initialised to 200, MaxFailRate to exactly 1/10^9; neither is stored to outside the package initialiser; the character draws sit in a counted loop of exactly MaxTrials attempts",
				"R16.5 shipped lists: AgileWords/AgileSyllables elements equal the lines of testdata/agwordlist.txt / agsyllables.txt in order; duplicate-free, lower-case, non-empty; never stored to (variable or elements) outside the initialiser",
				"R16.6 every exported package-level variable of the library, and the class table, keeps its initialiser's value: no function of the module (library init functions and the CLI included) stores to it, updates or deletes from the map or slice it holds, or passes its address on",
			},
			Trusted:    commonTrusted,
			NotDecided: []string{"distribution of preset outputs as such (follows from C01/C02 for the extracted recipes)"},
		},
		Run: runC16,
	})
}

func runeSet(s string) map[rune]int {
	m := map[rune]int{}
	for _, r := range s {
		m[r]++
	}
	return m
}

func sameRuneSet(a, b string) (bool, string) {
	ma, mb := runeSet(a), runeSet(b)
	var miss, extra, dup []string
	for r := range mb {
		if ma[r] == 0 {
			miss = append(miss, string(r))
		}
	}
	for r, n := range ma {
		if mb[r] == 0 {
			extra = append(extra, string(r))
		}
		if n > 1 {
			dup = append(dup, string(r))
		}
	}
	sort.Strings(miss)
	sort.Strings(extra)
	sort.Strings(dup)
	if len(miss)+len(extra)+len(dup) == 0 {
		return true, ""
	}
	return false, fmt.Sprintf("missing %q, extra %q, repeated %q", strings.Join(miss, ""), strings.Join(extra, ""), strings.Join(dup, ""))
}

var classDoc = map[string]string{
	"Uppers":    "ABCDEFGHIJKLMNOPQRSTUVWXYZ",
	"Lowers":    "abcdefghijklmnopqrstuvwxyz",
	"Digits":    "0123456789",
	"Symbols":   "!@.-_*",
	"Ambiguous": "0O1Il5S",
}

func constU(p *core.Program, name string) (uint64, bool) {
	v, _, ok := core.ConstOf(p.LibPkg.Types, name)
	if !ok || v.Kind() != constant.Int {
		return 0, false
	}
	return constant.Uint64Val(v)
}

func runC16(p *core.Program, r *core.Report) {
	inits := core.GlobalInits(p.Lib)
	initFn := core.PackageInit(p.Lib)

	// what a default recipe or a preset yields is read off its literal: that presupposes
	// that generation is a function of the recipe's fields alone — no state carried over
	// from earlier calls with other recipes (= C15 R15.1/R15.4 re-run for the character
	// recipe's methods, which every preset goes through)
	{
		var entries []*ssa.Function
		for _, m := range []string{"Generate", "Entropy", "Alphabet"} {
			if f := p.Method("CharRecipe", m); f != nil {
				entries = append(entries, f)
			}
		}
		r.Borrow("R16.3", func() { checkNoSharedWrites(p, r, "R15", entries, 3) })
		// … and that a class flag contributes exactly the characters of its class string,
		// an exclusion removes exactly those (= C03 R3.1-R3.3 re-run on the alphabet builder)
		r.Borrow("R16.1", func() {
			checkAlphabetBuilder(p, r)
			checkAlphabetProvenance(p, r, "R2.1")
		})
		// the shipped lists are handed to NewWordList by every user (the CLI included): they stay
		// identical to their data files only if the constructor neither writes nor keeps its argument (= C10 R10.1)
		r.Borrow("R16.5", func() { checkCallerSliceUntouched(p, r) })
		// "uniformly, with the matching entropy": the presets are character recipes, so the draw
		// routine and the generation shape carry over (= C01 R1.x and C02 R2.2-R2.5 re-run)
		r.Borrow("R16.3", func() {
			checkDrawRoutines(p, r, "R1.1", "R1.2", "R1.3")
			if g, why := resolveCharGen(p); g == nil {
				r.Unrecognised("R2.2", "(spg.CharRecipe).Generate", "generation shape", "", why)
			} else {
				checkDrawShape(p, r, g, "R2.2", "R2.3")
				checkWholeCandidateRejection(p, r, g, "R2.4")
				checkFilterAllOf(p, r, g, "R2.5")
			}
		})
		// … and the figure a preset reports is the character recipe's Entropy(): the exact count over
		// the alphabet the generator draws from (= C07 re-run; a short cut that sizes the alphabet
		// differently from the builder makes the preset's figure wrong)
		r.Borrow("R16.3", func() { runC07(p, r) })
	}

	// ---- R16.1
	flags := map[string]uint64{}
	for name := range classDoc {
		v, ok := constU(p, name)
		if !ok {
			r.Unrecognised("R16.1", "-", "constant "+name, "", "exported class flag constant not found")
			continue
		}
		flags[name] = v
		r.Trivial(v != 0 && v&(v-1) == 0, "R16.1", "-", "flag "+name+" is a single bit", "", fmt.Sprintf("value %d", v))
	}
	seen := map[uint64]string{}
	for n, v := range flags {
		if o, dup := seen[v]; dup {
			r.Fail("R16.1", "-", "flags "+n+" and "+o+" share a bit", "", "")
		}
		seen[v] = n
	}
	if v, ok := constU(p, "None"); ok {
		r.Trivial(v == 0, "R16.1", "-", "None == 0", "", fmt.Sprintf("value %d", v))
	} else {
		r.Unrecognised("R16.1", "-", "constant None", "", "not found")
	}
	if v, ok := constU(p, "Letters"); ok {
		r.Trivial(v == flags["Uppers"]|flags["Lowers"], "R16.1", "-", "Letters == Uppers|Lowers", "", fmt.Sprintf("value %d", v))
	} else {
		r.Unrecognised("R16.1", "-", "constant Letters", "", "not found")
	}
	if v, ok := constU(p, "All"); ok {
		r.Trivial(v == flags["Uppers"]|flags["Lowers"]|flags["Digits"]|flags["Symbols"], "R16.1", "-", "All == Letters|Digits|Symbols", "", fmt.Sprintf("value %d", v))
	} else {
		r.Unrecognised("R16.1", "-", "constant All", "", "not found")
	}
	// the class table: the map[CTFlag]string ranged over by the alphabet builder
	tbl := classTable(p, inits)
	if tbl == nil {
		r.Unrecognised("R16.1", "-", "class table", "", "no map[CTFlag]string literal ranged by the alphabet builder was found")
	} else {
		r.Note("class table is package variable %s", tbl.Global.Name())
		got := map[uint64]string{}
		for _, e := range tbl.Map {
			k, ok1 := core.ConstUint(e.Key)
			s, ok2 := core.ConstString(e.Value)
			if !ok1 || !ok2 {
				r.Unrecognised("R16.1", "init", "class table entry", p.Pos(e.Pos), "non-constant entry")
				continue
			}
			if _, dup := got[k]; dup {
				r.Fail("R16.1", "init", fmt.Sprintf("class table key %d written twice", k), p.Pos(e.Pos), "")
			}
			got[k] = s
		}
		for name, doc := range classDoc {
			s, ok := got[flags[name]]
			if !ok {
				r.Fail("R16.1", "init", "class table has an entry for "+name, p.Pos(tbl.Store.Pos()), "flag missing from "+tbl.Global.Name())
				continue
			}
			same, why := sameRuneSet(s, doc)
			r.Check(same, "R16.1", "init", "class "+name+" is exactly the documented set", p.Pos(tbl.Store.Pos()), fmt.Sprintf("%q vs documented %q: %s", s, doc, why))
		}
		r.Check(len(got) == len(classDoc), "R16.1", "init", "class table has no undocumented entries", p.Pos(tbl.Store.Pos()), fmt.Sprintf("%d entries, %d documented", len(got), len(classDoc)))
		r.Check(tbl.NStores == 1, "R16.1", "init", "class table initialised once", p.Pos(tbl.Store.Pos()), "")
	}

	// ---- R16.2
	allow := flags["Uppers"] | flags["Lowers"] | flags["Digits"] | flags["Symbols"]
	if fn := p.Func("NewCharRecipe"); fn == nil {
		r.Unrecognised("R16.2", "NewCharRecipe", "constructor", "", "not found")
	} else {
		checkCtor(p, r, fn, "CharRecipe", map[string]func(ssa.Value) (bool, string){
			"Length": func(v ssa.Value) (bool, string) { return v == paramOrNil(fn, 0), "must be the length parameter" },
			"Allow": func(v ssa.Value) (bool, string) {
				c, ok := core.ConstUint(v)
				return ok && c == allow, fmt.Sprintf("must be Letters|Digits|Symbols (%d)", allow)
			},
			"Exclude": func(v ssa.Value) (bool, string) {
				c, ok := core.ConstUint(v)
				return ok && c == flags["Ambiguous"], "must be Ambiguous"
			},
		})
	}
	checkWLRecipeCtor(p, r)

	capDoc := map[string]string{"CSNone": "none", "CSFirst": "first", "CSAll": "all", "CSRandom": "random", "CSOne": "one"}
	caps := core.ConstsOfType(p.LibPkg.Types, "CapScheme")
	for n, doc := range capDoc {
		v, ok := caps[n]
		r.Trivial(ok && v.Kind() == constant.String && constant.StringVal(v) == doc, "R16.2", "-", "CapScheme constant "+n+" == \""+doc+"\"", "", fmt.Sprint(v))
	}
	r.Trivial(len(caps) == len(capDoc), "R16.2", "-", "exactly the five documented CapScheme constants", "", fmt.Sprintf("%d declared", len(caps)))

	// ---- R16.3
	type triple struct{ L, A, E uint64 }
	presets := map[string]triple{
		"SFDigits1":            {1, flags["Digits"], 0},
		"SFDigits2":            {2, flags["Digits"], 0},
		"SFDigitsNoAmbiguous1": {1, flags["Digits"], flags["Ambiguous"]},
		"SFDigitsNoAmbiguous2": {2, flags["Digits"], flags["Ambiguous"]},
		"SFSymbols":            {1, flags["Symbols"], 0},
		"SFDigitsSymbols":      {1, flags["Symbols"] | flags["Digits"], 0},
	}
	var factories = map[*ssa.Function]bool{}
	for name, want := range presets {
		iv := inits[name]
		if iv == nil || iv.Call == nil {
			r.Unrecognised("R16.3", "init", "preset "+name, "", "not initialised by a call in the package initialiser")
			continue
		}
		pos := p.Pos(iv.Store.Pos())
		f := core.StaticCallee(iv.Call)
		if f == nil || len(iv.Call.Call.Args) != 1 {
			r.Unrecognised("R16.3", "init", "preset "+name, pos, "initialiser is not a static call with one recipe argument")
			continue
		}
		factories[f] = true
		arg := iv.Call.Call.Args[0]
		ld, ok := arg.(*ssa.UnOp)
		var lit map[string]ssa.Value
		if ok && ld.Op == token.MUL {
			if al, ok := ld.X.(*ssa.Alloc); ok {
				lit = core.StructLiteral(al)
			}
		}
		if lit == nil {
			r.Unrecognised("R16.3", "init", "preset "+name, pos, "argument is not a CharRecipe composite literal")
			continue
		}
		get := func(field string) (uint64, bool) {
			v, ok := lit[field]
			if !ok {
				return 0, true
			}
			if v == nil {
				return 0, false
			}
			c, ok := core.ConstUint(v)
			return c, ok
		}
		l, ok1 := get("Length")
		a, ok2 := get("Allow")
		e, ok3 := get("Exclude")
		okAll := ok1 && ok2 && ok3 && l == want.L && a == want.A && e == want.E
		var others []string
		for k := range lit {
			if k != "Length" && k != "Allow" && k != "Exclude" {
				others = append(others, k)
			}
		}
		sort.Strings(others)
		r.Check(okAll, "R16.3", "init", "preset "+name+" recipe (Length,Allow,Exclude) as documented", pos,
			fmt.Sprintf("got (%d,%d,%d), documented (%d,%d,%d)", l, a, e, want.L, want.A, want.E))
		r.Check(len(others) == 0, "R16.3", "init", "preset "+name+" sets no other recipe field", pos, "also sets "+strings.Join(others, ","))
		r.Check(iv.NStores == 1, "R16.3", "init", "preset "+name+" initialised once", pos, "")
	}
	if iv := inits["SFNone"]; iv == nil || iv.Func == nil {
		r.Unrecognised("R16.3", "init", "preset SFNone", "", "not initialised by a function literal")
	} else {
		ok := true
		for _, ret := range core.Returns(iv.Func) {
			s, ok1 := core.ConstString(ret.Results[0])
			z := isZeroConst(ret.Results[1])
			if !ok1 || s != "" || !z {
				ok = false
			}
		}
		r.Check(ok && len(core.Calls(iv.Func)) == 0, "R16.3", core.FuncName(iv.Func), "SFNone returns (\"\", 0) and calls nothing", p.Pos(iv.Func.Pos()), "")
	}
	for f := range factories {
		ok, why := sfFactoryForwards(p, f)
		r.Check(ok, "R16.3", core.FuncName(f), "factory result forwards Generate().String() and Entropy of the recipe argument", p.Pos(f.Pos()), why)
	}
	r.Floor("R16.3", "separator factories", len(factories), 1)

	// ---- R16.4
	if iv := inits["MaxTrials"]; iv == nil || iv.Const == nil {
		r.Unrecognised("R16.4", "init", "MaxTrials", "", "no constant initialiser")
	} else {
		c, ok := core.ConstInt(iv.Const)
		r.Trivial(ok && c == 200 && iv.NStores == 1, "R16.4", "init", "MaxTrials == 200", p.Pos(iv.Store.Pos()), fmt.Sprintf("value %v", iv.Const.Value))
	}
	if iv := inits["MaxFailRate"]; iv == nil || iv.Const == nil || iv.Const.Value == nil {
		r.Unrecognised("R16.4", "init", "MaxFailRate", "", "no constant initialiser")
	} else {
		want := constant.BinaryOp(constant.MakeInt64(1), token.QUO, constant.MakeInt64(1000000000))
		wantF, _ := constant.Float64Val(want)
		gotF, _ := constant.Float64Val(constant.ToFloat(iv.Const.Value))
		r.Trivial(gotF == wantF && iv.NStores == 1, "R16.4", "init", "MaxFailRate == 1/10^9 (nearest float64)", p.Pos(iv.Store.Pos()), fmt.Sprintf("value %v", iv.Const.Value))
	}
	// the budget in force is the documented one: every character draw of the
	// generator sits in a counted loop of exactly MaxTrials attempts
	if cg := p.Method("CharRecipe", "Generate"); cg != nil {
		loops := core.Loops(cg)
		nSites := 0
		for _, site := range GetRoles(p).ChoiceSites {
			if site.Parent() != cg {
				continue
			}
			nSites++
			r.Check(inAttemptBudgetLoop(loops, site), "R16.4", core.FuncName(cg), "character draws are made in a counted loop of exactly MaxTrials attempts (0 <= i < MaxTrials, step 1)", p.InstrPos(site),
				"the documented default budget (200 attempts) is the number of candidates drawn before giving up")
		}
		r.Floor("R16.4", "character draw sites in the retry loop", nSites, 1)
	}
	for _, g := range []string{"MaxTrials", "MaxFailRate", "AgileWords", "AgileSyllables"} {
		n := storesOutsideInit(p, r, "R16.4", g, initFn)
		if n == 0 {
			r.Pass("R16.4", "-", "no store to "+g+" outside the package initialiser", "", "")
		}
	}

	// ---- R16.6
	checkDocumentedGlobalsFrozen(p, r, "R16.6")

	// ---- R16.5
	for _, l := range []struct{ v, file string }{{"AgileWords", "testdata/agwordlist.txt"}, {"AgileSyllables", "testdata/agsyllables.txt"}} {
		iv := inits[l.v]
		if iv == nil || iv.Strings == nil {
			r.Unrecognised("R16.5", "init", l.v, "", "not a []string literal of constant strings")
			continue
		}
		pos := p.Pos(iv.Store.Pos())
		data, err := os.ReadFile(filepath.Join(p.Dir, l.file))
		if err != nil {
			r.Unrecognised("R16.5", "init", l.v, pos, "cannot read "+l.file+": "+err.Error())
			continue
		}
		lines := strings.Split(strings.TrimSuffix(string(data), "\n"), "\n")
		diff := ""
		if len(lines) != len(iv.Strings) {
			diff = fmt.Sprintf("%d elements vs %d lines", len(iv.Strings), len(lines))
		}
		for i := 0; i < len(lines) && i < len(iv.Strings) && diff == ""; i++ {
			if lines[i] != iv.Strings[i] {
				diff = fmt.Sprintf("element %d is %q, line %d of %s is %q", i, iv.Strings[i], i+1, l.file, lines[i])
			}
		}
		r.Check(diff == "", "R16.5", "init", l.v+" equals "+l.file+" line by line", pos, diff)
		r.Count(l.v+" elements compared", len(iv.Strings))
		dupAt, notLower, empty := "", "", 0
		seenW := map[string]int{}
		for i, w := range iv.Strings {
			if j, dup := seenW[w]; dup && dupAt == "" {
				dupAt = fmt.Sprintf("%q at %d and %d", w, j, i)
			}
			seenW[w] = i
			if strings.ToLower(w) != w && notLower == "" {
				notLower = fmt.Sprintf("%q at %d", w, i)
			}
			if w == "" {
				empty++
			}
		}
		r.Check(dupAt == "", "R16.5", "init", l.v+" is duplicate-free", pos, "duplicate "+dupAt)
		r.Check(notLower == "", "R16.5", "init", l.v+" is lower-case", pos, "not lower-case: "+notLower)
		r.Check(empty == 0 && len(iv.Strings) > 0, "R16.5", "init", l.v+" has no empty entries", pos, fmt.Sprintf("%d empty", empty))
		r.Check(iv.NStores == 1, "R16.5", "init", l.v+" initialised once", pos, "")
	}
}

func paramOrNil(fn *ssa.Function, i int) ssa.Value {
	if i < len(fn.Params) {
		return fn.Params[i]
	}
	return nil
}

// isZeroValueConst: the zero value of any type, as a constant (nil, 0, "", false).
func isZeroValueConst(v ssa.Value) bool {
	c, ok := v.(*ssa.Const)
	if !ok {
		return false
	}
	if c.Value == nil {
		return true
	}
	switch c.Value.Kind() {
	case constant.Bool:
		return !constant.BoolVal(c.Value)
	case constant.String:
		return constant.StringVal(c.Value) == ""
	case constant.Int, constant.Float, constant.Complex:
		return constant.Sign(c.Value) == 0
	}
	return false
}

func isZeroConst(v ssa.Value) bool {
	c, ok := v.(*ssa.Const)
	if !ok || c.Value == nil {
		return false
	}
	return constant.Sign(constant.ToFloat(c.Value)) == 0
}

// classTable finds the map[CTFlag]string global ranged over in the alphabet
// builder (falls back to the only such map with 5 entries).
func classTable(p *core.Program, inits map[string]*core.InitVal) *core.InitVal {
	if b := alphabetBuilder(p); b != nil {
		for _, l := range core.Loops(b) {
			ri, ok := core.AsRange(l)
			if !ok || ri.Kind != "map" {
				continue
			}
			if ld, ok := ri.X.(*ssa.UnOp); ok && ld.Op == token.MUL {
				if g, ok := ld.X.(*ssa.Global); ok {
					if iv := inits[g.Name()]; iv != nil && iv.Map != nil {
						return iv
					}
				}
			}
		}
	}
	return nil
}

// alphabetBuilder resolves, by role, the function whose result
// CharRecipe.Generate indexes with a bounded draw.
func alphabetBuilder(p *core.Program) *ssa.Function {
	gen := p.Method("CharRecipe", "Generate")
	if gen == nil {
		return nil
	}
	roles := GetRoles(p)
	var found *ssa.Function
	core.Instrs(gen, func(in ssa.Instruction) {
		if _, coll, isPick := roles.IsPickCall(valueOf(in)); isPick {
			if c, ok := core.StripType(coll).(*ssa.Call); ok {
				if f := core.StaticCallee(c); f != nil && p.InLib(f) {
					found = f
				}
			}
			return
		}
		ia, ok := in.(*ssa.IndexAddr)
		if !ok {
			return
		}
		if _, _, isDraw := roles.IsDrawCall(p, core.Strip(ia.Index)); !isDraw {
			return
		}
		// through a merge left by an expanded helper that returned (alphabet, error): the edge `err == nil` selects
		x := core.SelectedEdge(core.StripType(ia.X), core.Guards(ia.Block()))
		if c, ok := core.StripType(x).(*ssa.Call); ok {
			if f := core.StaticCallee(c); f != nil && p.InLib(f) {
				found = f
			}
		}
	})
	return found
}

func valueOf(in ssa.Instruction) ssa.Value {
	v, _ := in.(ssa.Value)
	return v
}

func checkCtor(p *core.Program, r *core.Report, fn *ssa.Function, typ string, want map[string]func(ssa.Value) (bool, string)) {
	name := core.FuncName(fn)
	rets := core.Returns(fn)
	if len(rets) != 1 {
		r.Unrecognised("R16.2", name, "single return", p.Pos(fn.Pos()), "constructor has several returns")
		return
	}
	al, ok := rets[0].Results[0].(*ssa.Alloc)
	if !ok || !al.Heap {
		r.Unrecognised("R16.2", name, "returns a fresh "+typ, p.InstrPos(rets[0]), "result is not a freshly allocated recipe")
		return
	}
	lit := core.StructLiteral(al)
	for f, pred := range want {
		v, ok := lit[f]
		if !ok || v == nil {
			r.Fail("R16.2", name, "default "+f, p.Pos(fn.Pos()), "field is not stored exactly once by the constructor")
			continue
		}
		good, why := pred(v)
		r.Check(good, "R16.2", name, "default "+f, p.Pos(fn.Pos()), "stored value "+core.Describe(v)+": "+why)
	}
	var extra []string
	for f, v := range lit {
		if _, ok := want[f]; !ok {
			if isZeroValueConst(v) {
				continue // the zero value spelled out is no default
			}
			extra = append(extra, f)
		}
	}
	sort.Strings(extra)
	r.Check(len(extra) == 0, "R16.2", name, "constructor sets no undocumented default", p.Pos(fn.Pos()), "also stores "+strings.Join(extra, ","))
	// nothing else touches the alloc (no whole-struct store, no call taking it)
	for _, ref := range core.Referrers(al) {
		switch x := ref.(type) {
		case *ssa.FieldAddr, *ssa.Return, *ssa.DebugRef:
		default:
			r.Fail("R16.2", name, "fresh recipe escapes before return", p.InstrPos(x), x.String())
		}
	}
}

func storesOutsideInit(p *core.Program, r *core.Report, rule, gname string, initFn *ssa.Function) int {
	g, ok := p.Lib.Members[gname].(*ssa.Global)
	if !ok {
		r.Unrecognised(rule, "-", "global "+gname, "", "not found")
		return 1
	}
	n := 0
	for _, fn := range p.ModuleFuncs() {
		if fn == initFn {
			continue
		}
		core.Instrs(fn, func(in ssa.Instruction) {
			st, ok := in.(*ssa.Store)
			if !ok {
				return
			}
			ref, ok := core.AddrPath(st.Addr)
			if !ok {
				return
			}
			root := ref.Root
			// element store through a loaded slice header of the global
			if ld, ok := root.(*ssa.UnOp); ok && ld.Op == token.MUL {
				root = ld.X
			}
			if root == ssa.Value(g) {
				n++
				r.Fail(rule, core.FuncName(fn), "store to "+gname+ref.Path, p.InstrPos(st), "package-level default/list is modified after initialisation")
			}
		})
	}
	return n
}

// sfFactoryForwards checks that factory(recipe) returns a closure whose results
// are, through at most three forwarding calls, (Generate().String(),
// FloatE(Generate().Entropy)) of exactly the recipe argument.
func sfFactoryForwards(p *core.Program, f *ssa.Function) (bool, string) {
	if len(f.Params) != 1 {
		return false, "factory does not take exactly one recipe"
	}
	rets := core.Returns(f)
	if len(rets) != 1 {
		return false, "factory has several returns"
	}
	mc, ok := core.StripType(rets[0].Results[0]).(*ssa.MakeClosure)
	if !ok {
		return false, "factory does not return a closure"
	}
	clo := mc.Fn.(*ssa.Function)
	// which free variables hold (a copy of) the parameter
	recipeFV := map[*ssa.FreeVar]bool{}
	for i, b := range mc.Bindings {
		if al, ok := b.(*ssa.Alloc); ok {
			// *al = param
			for _, ref := range core.Referrers(al) {
				if st, ok := ref.(*ssa.Store); ok && st.Addr == al && st.Val == f.Params[0] {
					recipeFV[clo.FreeVars[i]] = true
				}
			}
		} else if b == f.Params[0] {
			recipeFV[clo.FreeVars[i]] = true
		}
	}
	isRecipe := func(fn *ssa.Function, v ssa.Value, paramIsRecipe int) bool {
		v = core.StripType(v)
		if ld, ok := v.(*ssa.UnOp); ok && ld.Op == token.MUL {
			if fv, ok := ld.X.(*ssa.FreeVar); ok && recipeFV[fv] {
				return true
			}
			// load of a local copy of the recipe parameter
			if al, ok := ld.X.(*ssa.Alloc); ok && paramIsRecipe >= 0 {
				for _, ref := range core.Referrers(al) {
					if st, ok := ref.(*ssa.Store); ok && st.Addr == al && st.Val == fn.Params[paramIsRecipe] {
						return true
					}
				}
			}
		}
		if fv, ok := v.(*ssa.FreeVar); ok && recipeFV[fv] {
			return true
		}
		if paramIsRecipe >= 0 && paramIsRecipe < len(fn.Params) && v == fn.Params[paramIsRecipe] {
			return true
		}
		return false
	}
	var check func(fn *ssa.Function, recipeParam int, depth int) (bool, string)
	check = func(fn *ssa.Function, recipeParam int, depth int) (bool, string) {
		if depth > 3 {
			return false, "forwarding chain too deep"
		}
		sawSuccess := false
		for _, ret := range core.Returns(fn) {
			if len(ret.Results) != 2 {
				return false, "separator function must return (string, FloatE)"
			}
			s, e := ret.Results[0], ret.Results[1]
			// failure return ("", 0) under err != nil
			if cs, ok := core.ConstString(s); ok && cs == "" && isZeroConst(e) {
				continue
			}
			// forwarding: both results extracted from the same call
			if ex0, ok := s.(*ssa.Extract); ok {
				if ex1, ok := e.(*ssa.Extract); ok && ex0.Tuple == ex1.Tuple && ex0.Index == 0 && ex1.Index == 1 {
					if c, ok := ex0.Tuple.(*ssa.Call); ok {
						callee := core.StaticCallee(c)
						if callee == nil || !p.InLib(callee) || len(c.Call.Args) != 1 || !isRecipe(fn, c.Call.Args[0], recipeParam) {
							return false, "forwarding call does not pass the recipe on: " + c.String()
						}
						okc, why := check(callee, 0, depth+1)
						if !okc {
							return false, why
						}
						sawSuccess = true
						continue
					}
				}
			}
			// base: s = (Password).String(*pw) ; e = FloatE(pw.Entropy) ; pw = extract #0 of Generate(recipe)
			sc, ok := s.(*ssa.Call)
			if !ok || core.CallName(sc) != "("+core.ModulePath+".Password).String" {
				return false, "string result is not Password.String(): " + core.Describe(s)
			}
			pwLoad, ok := sc.Call.Args[0].(*ssa.UnOp)
			if !ok {
				return false, "String() receiver is not the generated password"
			}
			pw := pwLoad.X
			ev := core.Strip(e)
			ref, ok := core.LoadPath(ev)
			if !ok || ref.Root != pw || ref.Path != ".Entropy" {
				return false, "entropy result is not the generated password's Entropy field: " + core.Describe(ev)
			}
			ex, ok := pw.(*ssa.Extract)
			if !ok || ex.Index != 0 {
				return false, "password is not the first result of Generate"
			}
			gc, ok := ex.Tuple.(*ssa.Call)
			if !ok || core.CallName(gc) != "("+core.ModulePath+".CharRecipe).Generate" || !isRecipe(fn, gc.Call.Args[0], recipeParam) {
				return false, "password does not come from Generate() of the factory's recipe"
			}
			sawSuccess = true
		}
		if !sawSuccess {
			return false, "no return forwards a generated password"
		}
		return true, ""
	}
	return check(clo, -1, 0)
}

// checkWLRecipeCtor: R16.2 for NewWLRecipe (also run by C05: a default separator
// function installed by the constructor would change what separates the words).
func checkWLRecipeCtor(p *core.Program, r *core.Report) {
	if fn := p.Func("NewWLRecipe"); fn == nil {
		r.Unrecognised("R16.2", "NewWLRecipe", "constructor", "", "not found")
	} else {
		checkCtor(p, r, fn, "WLRecipe", map[string]func(ssa.Value) (bool, string){
			"Length": func(v ssa.Value) (bool, string) { return v == paramOrNil(fn, 0), "must be the length parameter" },
			wlRecipeListField(p): func(v ssa.Value) (bool, string) { return v == paramOrNil(fn, 1), "must be the word-list parameter" },
			"Capitalize": func(v ssa.Value) (bool, string) {
				s, ok := core.ConstString(v)
				return ok && s == "none", "must be CSNone (\"none\")"
			},
		})
	}}

// checkSeparatorFactories: the factory part of R16.3 on its own (also run by C06):
// every exported function of the library that takes a CharRecipe and returns a
// separator function forwards Generate().String() and the Entropy of that recipe.
func checkSeparatorFactories(p *core.Program, r *core.Report) {
	n := 0
	for _, f := range p.LibFuncs() {
		if f.Parent() != nil || f.Signature.Recv() != nil || f.Signature.Params().Len() != 1 || f.Signature.Results().Len() != 1 {
			continue
		}
		if core.NamedOf(f.Signature.Params().At(0).Type()) != core.ModulePath+".CharRecipe" || core.NamedOf(f.Signature.Results().At(0).Type()) != core.ModulePath+".SFFunction" {
			continue
		}
		n++
		ok, why := sfFactoryForwards(p, f)
		r.Check(ok, "R16.3", core.FuncName(f), "factory result forwards Generate().String() and Entropy of the recipe argument", p.Pos(f.Pos()), why)
	}
	r.Floor("R16.3", "separator factories", n, 1)
}
