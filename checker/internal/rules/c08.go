package rules

import (
	"fmt"
	"go/token"
	"go/types"
	"sort"
	"strings"

	"golang.org/x/tools/go/ssa"

	"spgverif/internal/core"
)

func init() {
	register(&Property{
		Meta: core.PropertyMeta{
			ID: "C08",
			Explanation: "Decides (1) that nothing NewWordList stores depends on Go's map iteration order: a map-range loop that removes or inserts " +
				"entries under keys other than the current one makes the set of visited entries order dependent, so such a loop may carry no " +
				"state and have no other effect, and the stored count must be accumulated (exact integer +1) over the final key set; (2) that " +
				"WLRecipe.Entropy is the sum of exactly the documented terms, each under exactly the documented condition (additive-term ledger " +
				"extracted from the SSA value graph), with entropySimple = float(l)*log2(float(n)) and the capitalisation gate = (uncapitalisable " +
				"count == 0); (3) purity of Entropy() (C15 effect analysis: no state written, nothing read but the recipe, the list and the " +
				"separator function's second result).",
			Rules: []string{
				"R8.1 map-order independence: in every library function, a map-range loop with a cross-key deletion/insertion on the ranged map has no loop-carried value and no other effect; no floating-point accumulator in any map-range loop",
				"R8.2 (also: the kept set the size and the count are taken from depends on the set of input words only = C10 R10.2/R10.3 re-run) stored count: the integer stored into the result's count field is phi(0, acc+1) of a range loop over the dedupe map from which no mutation of that map is reachable; the increment is guarded only by pure conditions on the key (strings.Title(k) == k)",
				"R8.3 ledger: the addends of WLRecipe.Entropy() are exactly entropySimple(Length, int(Size())) unguarded; float(Length) under {all-capitalisable, Capitalize==CSRandom}; log2(float(Length)) under {all-capitalisable, Capitalize==CSOne}; (float(Length)-1)*sepEnt with sepEnt = phi(0, second result of SeparatorFunc()) under SeparatorFunc != nil; no other addend, no other condition",
				"R8.3 (also) the separator term of library-made separator functions: CharRecipe.Entropy() is the exact count over the builder's sets and the same on every call (= C07 and the C03 builder rules, borrowed)",
				"R8.3b entropySimple(l,n) = float(l) * log2(float(n)); isAllCapitalizable() = (count == 0)",
				"R8.4 purity of Entropy(): no shared write (EFF), separator function's string result unused",
			},
			Trusted:    append([]string{"strings.Title is a pure function of its argument", "math.Log2"}, commonTrusted...),
			NotDecided: []string{"float32 rounding of the sum", "the numeric value for any particular list"},
		},
		Run: runC08,
	})
}

func runC08(p *core.Program, r *core.Report) {
	// R8.1 on all library functions
	nLoops := 0
	for _, fn := range p.LibFuncs() {
		nLoops += checkMapOrderIndependence(p, r, fn)
	}
	r.Floor("R8.1", "map-range loops in package spg", nLoops, 1)

	// R8.2
	if c := resolveWLCtor(p, r, "R8.2"); c != nil {
		checkStoredCount(p, r, c)
		// the size and the count are functions of the kept set: it must depend on the
		// set of input words only (= C10 R10.2/R10.3 re-run)
		if c2 := resolveWLCtor(p, r, "R8.2"); c2 != nil {
			r.Borrow("R8.2", func() { checkKeptSet(p, r, c2) })
		}
	}

	// R8.3
	checkWLEntropyLedger(p, r, "R8.3")
	// the separator term is what the separator function reports; for every function the library makes
	// (presets, NewSFFunction) that is the character recipe's Entropy(), which is "identical on every
	// call" only if the count and the alphabet builder are what C07/C03 say (= C07 and C03 builder re-run)
	r.Borrow("R8.3", func() {
		runC07(p, r)
		checkAlphabetBuilder(p, r)
	})
	// a library-made separator function reports 0 instead of its recipe's entropy on the call in which its generation
	// gives up; how rare that is (and so "identical on every call") is set by the shipped thresholds (= C16 R16.4)
	borrowSelected(p, r, runC16, "R8.3", func(o core.Obligation) bool { return o.Rule == "R16.4" || o.Rule == "R16.6" && mentionsVar(o.Construct, "MaxTrials", "MaxFailRate") })
	// the separator term is taken iff SeparatorFunc != nil: Generate must use the function under exactly that condition (= C04 R4.3 re-run)
	if g, why := resolveWLGen(p); g == nil {
		r.Unrecognised("R8.3", "(spg.WLRecipe).Generate", "generation shape", "", why)
	} else {
		r.Borrow("R8.3", func() { checkSeparatorPerGap(p, r, g, "R4.3") })
	}

	// R8.4
	eff := core.GetEff(p)
	if ent := p.Method("WLRecipe", "Entropy"); ent != nil {
		n := 0
		for _, ef := range eff.Writes(ent) {
			n++
			r.Fail("R8.4", core.FuncName(ent), ef.What+" -> "+ef.Root.String(), p.InstrPos(ef.Instr), "Entropy() modifies state that outlives the call")
		}
		if n == 0 {
			r.Pass("R8.4", core.FuncName(ent), "Entropy() writes no shared memory", p.Pos(ent.Pos()), "")
		}
		for _, c := range core.Calls(ent) {
			if cv, ok := c.(*ssa.Call); ok && core.StaticCallee(c) == nil && !c.Common().IsInvoke() {
				r.Check(sepStringUnused(cv), "R8.4", core.FuncName(ent), "separator function's drawn string is unused", p.InstrPos(c), "only the entropy (second result) may influence Entropy()")
			}
		}
	}
}

// checkStoredCount applies R8.2.
func checkStoredCount(p *core.Program, r *core.Report, c *wlCtor) {
	checkStoredCountRule(p, r, c, "R8.2")
}

func checkStoredCountRule(p *core.Program, r *core.Report, c *wlCtor, rule string) {
	name := core.FuncName(c.fn)
	var cnt ssa.Value
	cntField := ""
	for f, v := range c.fields {
		if v == nil {
			continue
		}
		if b, ok := v.Type().Underlying().(*types.Basic); ok && b.Info()&types.IsInteger != 0 {
			cnt, cntField = v, f
		}
	}
	if cnt == nil {
		r.Unrecognised(rule, name, "count field", p.Pos(c.fn.Pos()), "no integer field is stored into the result")
		return
	}
	phi, ok := cnt.(*ssa.Phi)
	var loop *core.Loop
	if ok {
		for _, l := range c.loops {
			if l.Header == phi.Block() {
				loop = l
			}
		}
	}
	if loop == nil {
		r.Fail(rule, name, "count "+cntField+" is accumulated over a loop", p.Pos(c.fn.Pos()), "stored value is "+core.Describe(cnt))
		return
	}
	pos := p.InstrPos(phi)
	ri, okR := core.AsRange(loop)
	if !okR {
		// counted spelling over a slice: for i := 0; i < len(S); i++
		if cnt, isC := core.AsCounted(loop); isC && cnt.Step == 1 && cnt.Op == token.LSS {
			if z, isZ := core.ConstInt(cnt.Init); isZ && z == 0 {
				if x, isLen := core.LenOf(cnt.Bound); isLen {
					ri, okR = &core.RangeInfo{Loop: loop, Kind: "slice", X: x, Index: cnt.Phi}, true
				}
			}
		}
	}
	if !okR || ri.Kind != "map" {
		// a sweep over the final words slice is equally fine: it must be the slice stored as the kept words
		okSlice := false
		if okR && ri.Kind == "slice" {
			for _, v := range c.fields {
				if v != nil && core.StripType(v) == core.StripType(ri.X) {
					okSlice = true
				}
			}
		}
		if okSlice {
			r.Pass(rule, name, "count accumulated over the kept slice", pos, "")
		} else {
			r.Fail(rule, name, "count accumulated over the final key set", pos, "accumulating loop is not a sweep of the dedupe map / kept slice")
			return
		}
	}
	if okR && ri.Kind == "map" {
		dels, upds := mapMutations(c.fn, ri.X)
		reach := reachableFromBlock(loop.Header)
		late := ""
		for _, d := range dels {
			if reach[d.Block()] {
				late = "delete at " + p.InstrPos(d)
			}
		}
		for _, u := range upds {
			if reach[u.Block()] {
				late = "insertion at " + p.InstrPos(u)
			}
		}
		r.Check(late == "", rule, name, "count is taken over the final key set (no mutation of the map reachable from the counting loop)", pos,
			"the map is still being modified ("+late+"): whether an entry is counted depends on iteration order")
	}
	// increments: phi edges inside the loop are phi or phi+1 (possibly merged by an inner phi)
	okInc := true
	var incs []ssa.Value
	seenInc := map[ssa.Value]bool{}
	var flatten func(v ssa.Value, d int)
	flatten = func(v ssa.Value, d int) {
		if d > 6 || seenInc[v] {
			return
		}
		seenInc[v] = true
		if v == ssa.Value(phi) {
			return
		}
		if inner, isPhi := v.(*ssa.Phi); isPhi && loop.Blocks[inner.Block()] {
			for _, e := range inner.Edges {
				flatten(e, d+1)
			}
			return
		}
		incs = append(incs, v)
	}
	for i, e := range phi.Edges {
		if !loop.Blocks[phi.Block().Preds[i]] {
			if z, isC := core.ConstInt(e); !isC || z != 0 {
				okInc = false
			}
			continue
		}
		flatten(e, 0)
	}
	for _, e := range incs {
		bo, isB := e.(*ssa.BinOp)
		if !isB || bo.Op != token.ADD || bo.X != ssa.Value(phi) {
			okInc = false
			continue
		}
		if k, isC := core.ConstInt(bo.Y); !isC || k != 1 {
			okInc = false
		}
		// guard of the increment: Title(k) == k
		okG := false
		for _, g := range core.Guards(bo.Block()) {
			if !loop.Blocks[g.If.Block()] {
				continue
			}
			if rel, isRel := core.AsRel(g); isRel && rel.Op == token.EQL {
				if isTitleOf(rel.X, rel.Y) || isTitleOf(rel.Y, rel.X) {
					okG = true
				}
			}
		}
		r.Check(okG, rule, name, "a word is counted iff strings.Title(w) == w", p.InstrPos(bo), "the uncapitalisable count must count exactly the kept words equal to their own title form")
	}
	r.Check(okInc, rule, name, "count is phi(0, count+1)", pos, "")
}

// sameElement: the same SSA value, or two loads of the same slice element s[i].
func sameElement(a, b ssa.Value) bool {
	if a == b {
		return true
	}
	la, ok1 := a.(*ssa.UnOp)
	lb, ok2 := b.(*ssa.UnOp)
	if !ok1 || !ok2 {
		return false
	}
	ia, ok1 := la.X.(*ssa.IndexAddr)
	ib, ok2 := lb.X.(*ssa.IndexAddr)
	return ok1 && ok2 && ia.X == ib.X && ia.Index == ib.Index
}

func isTitleOf(t, k ssa.Value) bool {
	c, ok := t.(*ssa.Call)
	_ = c
	if !ok {
		return false
	}
	x, isT := titleCallArg(t)
	return isT && sameElement(x, k)
}

// Term is one addend of a numeric result with the conditions under which it is added.
type Term struct {
	V      ssa.Value
	Guards []core.Guard
	Pos    token.Pos
}

// addends decomposes v into additive terms. Phi nodes contribute the terms
// common to all edges unguarded and the others guarded by the edge conditions.
func addends(v ssa.Value, depth int) []Term {
	v = stripFloatConv(v)
	if depth > 8 {
		return []Term{{V: v}}
	}
	switch x := v.(type) {
	case *ssa.BinOp:
		if x.Op == token.ADD {
			return append(addends(x.X, depth+1), addends(x.Y, depth+1)...)
		}
	case *ssa.Phi:
		per := make([][]Term, len(x.Edges))
		for i, e := range x.Edges {
			per[i] = addends(e, depth+1)
		}
		// common terms (by value identity, unguarded)
		var common []Term
		for _, t := range per[0] {
			if len(t.Guards) > 0 {
				continue
			}
			inAll := true
			for _, o := range per[1:] {
				found := false
				for _, u := range o {
					if u.V == t.V && len(u.Guards) == 0 {
						found = true
					}
				}
				if !found {
					inAll = false
				}
			}
			if inAll {
				common = append(common, t)
			}
		}
		out := append([]Term{}, common...)
		for i, ts := range per {
			pred := x.Block().Preds[i]
			eg := core.Guards(pred)
			// the edge condition itself
			for si, s := range pred.Succs {
				if s == x.Block() && len(pred.Succs) == 2 {
					if g, ok := core.EdgeCond(pred, si); ok {
						eg = append(eg, g)
					}
				}
			}
			// drop guards that already dominate the phi's block
			dom := core.Guards(x.Block())
			var rel []core.Guard
			for _, g := range eg {
				isDom := false
				for _, d := range dom {
					if d.If == g.If && d.Pos == g.Pos {
						isDom = true
					}
				}
				if !isDom {
					rel = append(rel, g)
				}
			}
			for _, t := range ts {
				isCommon := false
				for _, c := range common {
					if c.V == t.V && len(t.Guards) == 0 {
						isCommon = true
					}
				}
				if isCommon {
					continue
				}
				if isZeroConst(t.V) {
					continue
				}
				out = append(out, Term{V: t.V, Guards: append(append([]core.Guard{}, rel...), t.Guards...), Pos: t.Pos})
			}
		}
		return out
	}
	return []Term{{V: v, Pos: v.Pos()}}
}

func stripFloatConv(v ssa.Value) ssa.Value {
	for {
		switch x := v.(type) {
		case *ssa.ChangeType:
			v = x.X
		case *ssa.Convert:
			// float<->float conversions only
			sb, ok1 := x.X.Type().Underlying().(*types.Basic)
			tb, ok2 := x.Type().Underlying().(*types.Basic)
			if ok1 && ok2 && sb.Info()&types.IsFloat != 0 && tb.Info()&types.IsFloat != 0 {
				v = x.X
				continue
			}
			return v
		default:
			return v
		}
	}
}

// recipeField reports whether v is (a float conversion of) a load of field
// `field` from the function's receiver copy.
func recipeField(v ssa.Value, field string) bool {
	v = stripFloatConv(v)
	if cv, ok := v.(*ssa.Convert); ok {
		v = cv.X
	}
	v = stripFloatConv(v)
	ref, ok := core.LoadPath(v)
	if !ok || ref.Path != "."+field {
		return false
	}
	switch b := ref.Root.(type) {
	case *ssa.Alloc:
		return paramCopiedInto(b) == 0 || isCopyOfRecvCopy(b)
	case *ssa.Parameter:
		return paramIndex(b) == 0
	}
	return false
}

// isCopyOfRecvCopy: a local struct whose only store is a whole copy of the
// receiver copy and whose fields are never stored (made when a helper taking the
// recipe by value is expanded in place): reading it is reading the recipe.
func isCopyOfRecvCopy(al *ssa.Alloc) bool {
	n, ok := 0, false
	for _, ref := range core.Referrers(al) {
		switch x := ref.(type) {
		case *ssa.Store:
			if x.Addr != ssa.Value(al) {
				return false
			}
			n++
			if ld, isLd := x.Val.(*ssa.UnOp); isLd {
				if src, isAl := ld.X.(*ssa.Alloc); isAl && paramCopiedInto(src) == 0 {
					ok = true
				}
			}
		case *ssa.FieldAddr:
			for _, rr := range core.Referrers(x) {
				if st, isSt := rr.(*ssa.Store); isSt && st.Addr == ssa.Value(x) {
					return false
				}
			}
		}
	}
	return ok && n == 1
}

func isLog2Of(v ssa.Value, pred func(ssa.Value) bool) bool {
	c, ok := stripFloatConv(v).(*ssa.Call)
	return ok && core.CallName(c) == "math.Log2" && pred(c.Call.Args[0])
}

// checkWLEntropyLedger applies R8.3/R8.3b (shared with C06 as R6.2/R6.3).
func checkWLEntropyLedger(p *core.Program, r *core.Report, rule string) {
	ent := p.Method("WLRecipe", "Entropy")
	if ent == nil {
		r.Unrecognised(rule, "WLRecipe.Entropy", "method", "", "not found")
		return
	}
	name := core.FuncName(ent)
	rets := core.Returns(ent)
	if len(rets) != 1 {
		r.Unrecognised(rule, name, "single return", p.Pos(ent.Pos()), fmt.Sprintf("%d returns", len(rets)))
		return
	}
	terms := addends(rets[0].Results[0], 0)
	r.Count("entropy addends", len(terms))
	type want struct {
		name  string
		found bool
	}
	wants := map[string]*want{"base": {name: "Length*log2(Size)"}, "random": {name: "Length bits under CSRandom"},
		"one": {name: "log2(Length) bits under CSOne"}, "sep": {name: "(Length-1)*separator entropy"}}
	capConsts := core.ConstsOfType(p.LibPkg.Types, "CapScheme")
	_ = capConsts
	for _, t := range terms {
		pos := p.Pos(t.Pos)
		if !t.Pos.IsValid() {
			pos = p.Pos(ent.Pos())
		}
		gdesc, gateOK, scheme, sepNonNil, otherGuard := describeGuards(p, t.Guards)
		switch {
		case isEntropySimpleCall(p, t.V):
			c := stripFloatConv(t.V).(*ssa.Call)
			okArgs := recipeField(c.Call.Args[0], "Length") && isSizeOfRecipe(p, c.Call.Args[1])
			r.Check(okArgs && len(t.Guards) == 0, rule, name, "base term entropySimple(Length, int(Size())) unguarded", pos,
				fmt.Sprintf("args (%s, %s), guards %s", core.Describe(c.Call.Args[0]), core.Describe(c.Call.Args[1]), gdesc))
			wants["base"].found = true
		case recipeField(t.V, "Length"):
			ok := gateOK && scheme == "random" && otherGuard == ""
			r.Check(ok, rule, name, "float(Length) added iff all-capitalisable and Capitalize==CSRandom", pos, "conditions: "+gdesc)
			wants["random"].found = true
		case isLog2Of(t.V, func(a ssa.Value) bool { return recipeField(a, "Length") }):
			ok := gateOK && scheme == "one" && otherGuard == ""
			r.Check(ok, rule, name, "log2(float(Length)) added iff all-capitalisable and Capitalize==CSOne", pos, "conditions: "+gdesc)
			wants["one"].found = true
		case isSepTerm(t.V):
			ok, why := checkSepTerm(p, t.V)
			r.Check(ok && len(t.Guards) == 0, rule, name, "(float(Length)-1) * sepEnt, sepEnt = phi(0, SeparatorFunc() entropy) under SeparatorFunc != nil", pos, why+" guards "+gdesc)
			wants["sep"].found = true
		default:
			r.Fail(rule, name, "undocumented addend in the entropy sum", pos, "term "+core.Describe(t.V)+" under "+gdesc+" is not part of the documented formula")
		}
		_ = sepNonNil
	}
	var keys []string
	for k := range wants {
		keys = append(keys, k)
	}
	sort.Strings(keys)
	for _, k := range keys {
		if !wants[k].found {
			r.Fail(rule, name, "documented term missing: "+wants[k].name, p.Pos(ent.Pos()), "")
		}
	}
	// R8.3b helpers
	if es := entropySimpleFunc(p); es != nil {
		ok, why := isLenTimesLog2(es)
		r.Check(ok, rule+"b", core.FuncName(es), "entropySimple(l,n) = float(l)*log2(float(n))", p.Pos(es.Pos()), why)
	} else {
		r.Unrecognised(rule+"b", "entropySimple", "function", "", "not found")
	}
	if g := capitalisationGate(p); g != nil {
		ok, why := isCountZeroPredicate(g)
		r.Check(ok, rule+"b", core.FuncName(g), "capitalisation gate is (uncapitalisable count == 0)", p.Pos(g.Pos()), why)
	} else {
		inline := false
		for _, t := range terms {
			for _, g := range t.Guards {
				if rel, ok := core.AsRel(g); ok && isWordListCount(rel.X) {
					inline = true
				}
			}
		}
		if inline {
			r.Pass(rule+"b", name, "capitalisation gate is (uncapitalisable count == 0), written in place", p.Pos(ent.Pos()), "")
		} else {
			r.Unrecognised(rule+"b", "-", "capitalisation gate", "", "no bool predicate on WordList found")
		}
	}
}

// isWordListCount: a load of an integer field of a WordList (the stored uncapitalisable count).
func isWordListCount(v ssa.Value) bool {
	ld, ok := v.(*ssa.UnOp)
	if !ok || ld.Op != token.MUL {
		return false
	}
	fa, ok := ld.X.(*ssa.FieldAddr)
	if !ok || core.NamedOf(fa.X.Type()) != core.ModulePath+".WordList" {
		return false
	}
	b, isB := ld.Type().Underlying().(*types.Basic)
	return isB && b.Info()&types.IsInteger != 0
}

func isEntropySimpleCall(p *core.Program, v ssa.Value) bool {
	c, ok := stripFloatConv(v).(*ssa.Call)
	if !ok {
		return false
	}
	f := core.StaticCallee(c)
	return f != nil && f == entropySimpleFunc(p) && len(c.Call.Args) == 2
}

// isSizeOfRecipe: int(Size(recipe copy)).
func isSizeOfRecipe(p *core.Program, v ssa.Value) bool {
	v = core.Strip(v)
	c, ok := v.(*ssa.Call)
	if !ok {
		return false
	}
	f := core.StaticCallee(c)
	if f == nil || f != p.Method("WLRecipe", "Size") {
		return false
	}
	ld, ok := c.Call.Args[0].(*ssa.UnOp)
	if !ok || ld.Op != token.MUL {
		return false
	}
	al, ok := ld.X.(*ssa.Alloc)
	return ok && paramCopiedInto(al) == 0
}

// describeGuards summarises a guard set: gate (isAllCapitalizable true),
// scheme equality, SeparatorFunc != nil, anything else.
func describeGuards(p *core.Program, gs []core.Guard) (desc string, gate bool, scheme string, sepNonNil bool, other string) {
	var parts []string
	for _, g := range gs {
		// gate call
		if c, ok := g.Cond.(*ssa.Call); ok {
			if f := core.StaticCallee(c); f != nil && f == capitalisationGate(p) {
				if g.Pos {
					gate = true
					parts = append(parts, "allCapitalizable")
				} else {
					other = "NOT allCapitalizable"
					parts = append(parts, other)
				}
				continue
			}
		}
		if rel, ok := core.AsRel(g); ok {
			// the gate written in place: the list's uncapitalisable count compared with zero
			if isWordListCount(rel.X) {
				if k, isC := core.ConstInt(rel.Y); isC {
					switch {
					case rel.Op == token.EQL && k == 0, rel.Op == token.LSS && k == 1, rel.Op == token.LEQ && k == 0:
						gate = true
						parts = append(parts, "count==0")
						continue
					case rel.Op == token.NEQ && k == 0, rel.Op == token.GEQ && k == 1, rel.Op == token.GTR && k == 0:
						other = "NOT count==0"
						parts = append(parts, other)
						continue
					}
				}
			}
			x, y := rel.X, rel.Y
			if _, isC := x.(*ssa.Const); isC {
				x, y = y, x
			}
			if s, isS := core.ConstString(y); isS && recipeField(x, "Capitalize") {
				if rel.Op == token.EQL {
					scheme = s
					parts = append(parts, "Capitalize=="+s)
				} else {
					parts = append(parts, "Capitalize!="+s)
				}
				continue
			}
			if core.IsNilConst(y) && recipeField(x, "SeparatorFunc") {
				if rel.Op == token.NEQ {
					sepNonNil = true
					parts = append(parts, "SeparatorFunc!=nil")
					continue
				}
			}
		}
		other = core.Describe(g.Cond)
		parts = append(parts, fmt.Sprintf("%v(%s)", g.Pos, other))
	}
	return "{" + strings.Join(parts, ", ") + "}", gate, scheme, sepNonNil, other
}

func isSepTerm(v ssa.Value) bool {
	b, ok := stripFloatConv(v).(*ssa.BinOp)
	return ok && b.Op == token.MUL
}

// checkSepTerm: (float(Length) - 1) * phi(0, extract #1 of dynamic call of the SeparatorFunc field).
func checkSepTerm(p *core.Program, v ssa.Value) (bool, string) {
	b := stripFloatConv(v).(*ssa.BinOp)
	x, y := stripFloatConv(b.X), stripFloatConv(b.Y)
	isLm1 := func(v ssa.Value) bool {
		s, ok := v.(*ssa.BinOp)
		if !ok || s.Op != token.SUB || !recipeField(s.X, "Length") {
			return false
		}
		c, ok := s.Y.(*ssa.Const)
		if !ok {
			return false
		}
		f, isNum := constFloat(c)
		return isNum && f == 1
	}
	var sep ssa.Value
	switch {
	case isLm1(x):
		sep = y
	case isLm1(y):
		sep = x
	default:
		return false, "multiplier is not float(Length)-1"
	}
	phi, ok := sep.(*ssa.Phi)
	if !ok {
		return false, "separator entropy is not phi(0, SeparatorFunc() entropy): " + core.Describe(sep)
	}
	sawZero, sawCall := false, false
	for i, e := range phi.Edges {
		e = stripFloatConv(e)
		if isZeroConst(e) {
			sawZero = true
			continue
		}
		ex, ok := e.(*ssa.Extract)
		if !ok || ex.Index != 1 {
			return false, "separator entropy edge is " + core.Describe(e)
		}
		c, ok := ex.Tuple.(*ssa.Call)
		if !ok || core.StaticCallee(c) != nil || !recipeField(c.Call.Value, "SeparatorFunc") {
			return false, "separator entropy does not come from calling the recipe's SeparatorFunc"
		}
		// the call must be under SeparatorFunc != nil
		okG := false
		pred := phi.Block().Preds[i]
		for _, g := range core.Guards(pred) {
			if rel, ok := core.AsRel(g); ok && rel.Op == token.NEQ && core.IsNilConst(rel.Y) && recipeField(rel.X, "SeparatorFunc") {
				okG = true
			}
		}
		if !okG && pred != c.Block() {
			return false, "separator call not guarded by SeparatorFunc != nil"
		}
		for _, g := range core.Guards(c.Block()) {
			if rel, ok := core.AsRel(g); ok && rel.Op == token.NEQ && core.IsNilConst(rel.Y) && recipeField(rel.X, "SeparatorFunc") {
				okG = true
			}
		}
		// … and by nothing else: Generate uses the function whenever it is non-nil
		for _, g := range core.Guards(c.Block()) {
			if rel, ok := core.AsRel(g); ok && rel.Op == token.NEQ && core.IsNilConst(rel.Y) && recipeField(rel.X, "SeparatorFunc") {
				continue
			}
			return false, "separator entropy is taken under an additional condition (" + core.Describe(g.Cond) + "): Generate calls the separator function whenever it is non-nil, so the term would be missing for some recipes"
		}
		if !okG {
			return false, "separator call not guarded by SeparatorFunc != nil"
		}
		sawCall = true
	}
	if !sawZero || !sawCall {
		return false, "separator entropy must be 0 without a separator function and its reported entropy otherwise"
	}
	return true, ""
}

func constFloat(c *ssa.Const) (float64, bool) {
	if c.Value == nil {
		return 0, false
	}
	f := c.Float64()
	return f, true
}

// isLenTimesLog2: single return float(param0) * math.Log2(float(param1)).
func isLenTimesLog2(fn *ssa.Function) (bool, string) {
	if len(fn.Params) != 2 {
		return false, "expected (length, nelem)"
	}
	rets := core.Returns(fn)
	if len(rets) != 1 {
		return false, "several returns"
	}
	b, ok := stripFloatConv(rets[0].Results[0]).(*ssa.BinOp)
	if !ok || b.Op != token.MUL {
		return false, "result is not a product: " + core.Describe(rets[0].Results[0])
	}
	isConvOf := func(v ssa.Value, prm ssa.Value) bool {
		cv, ok := stripFloatConv(v).(*ssa.Convert)
		return ok && cv.X == prm
	}
	isLog := func(v ssa.Value) bool {
		return isLog2Of(v, func(a ssa.Value) bool { return isConvOf(a, fn.Params[1]) })
	}
	if (isConvOf(b.X, fn.Params[0]) && isLog(b.Y)) || (isConvOf(b.Y, fn.Params[0]) && isLog(b.X)) {
		return true, ""
	}
	return false, "result is not float(length) * log2(float(nelem))"
}

// isCountZeroPredicate: returns true iff the integer field load == 0.
func isCountZeroPredicate(fn *ssa.Function) (bool, string) {
	for _, ret := range core.Returns(fn) {
		v := ret.Results[0]
		if c, ok := v.(*ssa.Const); ok {
			val := c.Value != nil && c.Value.String() == "true"
			// find a guard comparing an int field load with 0
			okG := false
			for _, g := range core.Guards(ret.Block()) {
				rel, ok := core.AsRel(g)
				if !ok {
					continue
				}
				k, isC := core.ConstInt(rel.Y)
				if !isC {
					continue
				}
				if _, isLoad := core.LoadPath(rel.X); !isLoad {
					continue
				}
				isZero := (rel.Op == token.EQL && k == 0) || (rel.Op == token.LEQ && k == 0) || (rel.Op == token.LSS && k == 1)
				isPos := (rel.Op == token.GTR && k == 0) || (rel.Op == token.GEQ && k == 1) || (rel.Op == token.NEQ && k == 0)
				if (val && isZero) || (!val && isPos) {
					okG = true
				}
			}
			if !okG {
				return false, fmt.Sprintf("returns %v without the matching count guard", val)
			}
			continue
		}
		rel, ok := core.AsRel(core.Guard{Cond: v, Pos: true})
		if !ok {
			return false, "returned value is not a comparison of the count with zero"
		}
		k, isC := core.ConstInt(rel.Y)
		if !isC || !((rel.Op == token.EQL && k == 0) || (rel.Op == token.LEQ && k == 0) || (rel.Op == token.LSS && k == 1)) {
			return false, "predicate is not count == 0"
		}
	}
	return true, ""
}
