package rules

import (
	"go/types"
	"strings"

	"golang.org/x/tools/go/ssa"

	"spgverif/internal/core"
)

// referenceHelpers are the unexported helpers of the reference decomposition
// of the library and CLI (receiver.name or name). They, and every function a
// rule resolves by role, are *anchors*: the helper-inlining normalisation
// (core/inline.go) keeps calls to them and expands calls to any other
// unexported helper — that is, it undoes "extract function" refactorings and
// folds helpers introduced by a change back into the functions the rules read.
// The list steers normalisation only; it is never used to decide a property.
var referenceHelpers = map[string]bool{}

func init() {
	for _, n := range strings.Fields(`
		createSeparatorFunc charGenerator wlGenerator loadWordListFile parseCapitalize parseCharacterClasses parseRecipe
		parseSeparator parseWordList printUsage
		disjointify entropySimple n nFromString newReqSet randomUint32 randomUint32n requireFilter setFromString sfWrap
		stringFromSet subtractString sumAll toBigInt unionAll
		CharRecipe.buildCharacterList CharRecipe.entropyWithRequired CharRecipe.fullAlphabet CharRecipe.hasAcceptableFailRate CharRecipe.n
		Tokens.isAllAtoms Tokens.isAllOfType Tokens.isAlternatingTokens Tokens.maxTokenLen Tokens.ofType
		WordList.capitalizeRatio WordList.isAllCapitalizable reqSet.String reqSet.size reqSets.size reqSets.union`) {
		referenceHelpers[n] = true
	}
}

func helperKey(fn *types.Func) string {
	sig, _ := fn.Type().(*types.Signature)
	if sig != nil && sig.Recv() != nil {
		n := core.NamedOf(sig.Recv().Type())
		if i := strings.LastIndex(n, "."); i >= 0 {
			n = n[i+1:]
		}
		return n + "." + fn.Name()
	}
	return fn.Name()
}

// AnchorsByName keeps only the reference decomposition's helpers (used as a
// second normalisation attempt: a role resolved on a refactored tree can be a
// helper the refactoring introduced, e.g. an extracted "read random bytes").
func AnchorsByName(p *core.Program) func(*types.Func) bool {
	return func(fn *types.Func) bool { return referenceHelpers[helperKey(fn)] }
}

// Anchors returns a predicate telling the inliner which functions to keep.
func Anchors(p *core.Program) func(*types.Func) bool {
	keepSSA := map[*ssa.Function]bool{}
	add := func(fs ...*ssa.Function) {
		for _, f := range fs {
			if f != nil {
				keepSSA[f] = true
			}
		}
	}
	func() {
		defer func() { _ = recover() }() // role resolution is best effort on a tree that already fails
		roles := GetRoles(p)
		add(roles.RawWord...)
		add(roles.BoundedDraw...)
		for f := range roles.PickHelpers {
			add(f)
		}
		add(alphabetBuilder(p), capitalisationGate(p), alternationPredicate(p), entropySimpleFunc(p))
		if m, _ := resolveBuilder(p); m != nil {
			add(m.setOf, m.strOf)
		}
		if p.Cmd != nil {
			cm := resolveCLI(p, core.GlobalInits(p.Cmd))
			add(cm.charGen, cm.wlGen, cm.classFlags, cm.sepFor, cm.capFor, cm.builtinList, cm.fileList, cm.usage)
		}
	}()
	names := map[string]bool{}
	for f := range keepSSA {
		if o, ok := f.Object().(*types.Func); ok {
			names[o.FullName()] = true
		}
	}
	return func(fn *types.Func) bool {
		return names[fn.FullName()] || referenceHelpers[helperKey(fn)]
	}
}
