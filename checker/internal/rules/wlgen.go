package rules

import (
	"fmt"
	"go/constant"
	"go/token"
	"go/types"
	"sort"
	"strings"

	"golang.org/x/tools/go/ssa"

	"spgverif/internal/core"
)

func init() {
	register(&Property{
		Meta: core.PropertyMeta{
			ID: "C04",
			Explanation: "Decides the structural conditions that, with C01 (every bounded draw exactly uniform and independent of the others), " +
				"make word, capitalisation and separator choices uniform and independent (product argument): each draw site's bound is exactly " +
				"the size of the collection/range its result selects from (word index <- saturated length of the indexed list, on the same " +
				"struct copy; capitalised position <- Length; coin <- 2, used only in one comparison that separates 0 from 1); every choice " +
				"is a fresh call inside its per-position loop (or, for the single position, outside any loop); the separator function is " +
				"called once per gap, its result used only for that gap's token and never carried to the next iteration or call.",
			Rules: []string{
				"R4.0 every draw routine used is a schema instance (= C01 R1.1-R1.3, re-run here: a private biased copy of the bounded draw is reported by this check too)",
				"R4.1 bound/collection agreement at every draw site of WLRecipe.Generate: word draw indexes list.words with bound Size() of the same list (size summary = saturated len); 'one' draw has bound uint32(Length) and its only use is the key set in the capitalisation map; 'random' draw has bound 2 and its only use is one comparison whose outcome partitions {0,1} into {0},{1}",
				"R4.2 freshness per choice: word draw inside the counted loop 0<=i<Length on every iteration; coin draw inside a counted loop over all positions, setting key i exactly on one outcome; 'one' draw outside any loop",
				"R4.3 separator per gap: the separator function is called in the loop body under i < Length-1, its string flows only to the separator token appended in the same iteration; no loop-carried value derives from it; separator closures created in the module store nothing (EFF)",
				"R4.4 capitalisation is applied exactly where the map says: the atom is Title(word) iff capWords[i]",
			},
			Trusted:    append([]string{"C01: each bounded draw is exactly uniform on [0,n) and draws are independent", "premise of the property: no two list entries share a title-cased form unless one is that form"}, commonTrusted...),
			NotDecided: []string{"independence/uniformity as distributions (follow from C01 and these shapes by the product argument)", "user-supplied separator functions"},
		},
		Run: runC04,
	})
	register(&Property{
		Meta: core.PropertyMeta{
			ID: "C05",
			Explanation: "Decides the token-assembly structure of WLRecipe.Generate and the accessors on the SSA form: a counted loop over the " +
				"Length positions appending, per iteration, the atom (word or its Title form, by the capitalisation map) and then — only " +
				"between atoms — the separator token when the separator string is non-empty; token types are the typed constants; the " +
				"capitalisation map is filled per scheme as documented (first: key 0; all: every key; one/random: C04); String() concatenates " +
				"token values in order; ofType filters by type in order and Atoms/Separators pass the respective constant.",
			Rules: []string{
				"R5.1a exactly one AtomType token is appended on every path through an iteration of the assembly loop, value = phi(word, Title(word))",
				"R5.1b at most one SeparatorType token per iteration, appended after the atom, guarded exactly by i < Length-1 and len(sep) > 0, value = the separator call's string of this iteration",
				"R5.1c no token is appended before or after the loop; the loop is 0 <= i < Length step 1; the result's tokens are the accumulated slice",
				"R5.2 capitalisation positions: every declared CapScheme other than CSNone has a case; first sets key 0; all is a full counted sweep setting key i; unknown schemes set nothing",
				"R5.3 accessors: Password.String is a full in-order sweep accumulating acc + value; ofType a full in-order sweep appending the value iff type == parameter; Atoms/Separators pass AtomType/SeparatorType; Tokens() returns the field",
			},
			Trusted:    append([]string{"strings.Title", "append semantics"}, commonTrusted...),
			NotDecided: []string{"that words are kept words (C10 + R4.1)"},
		},
		Run: runC05,
	})
}

// wlGen is the resolved shape of WLRecipe.Generate.
type wlGen struct {
	fn          *ssa.Function
	recv        *ssa.Alloc
	loops       []*core.Loop
	capMap      ssa.Value // map[int]bool or []bool holding the positions to capitalise
	wordDraw    *ssa.Call
	wordViaPick bool
	oneDraw     *ssa.Call
	coinDraw    *ssa.Call
	main        *core.Counted // assembly loop
	tsPhi       *ssa.Phi
	sepCall     *ssa.Call
	appends     []*tokAppend
	draws       []*ssa.Call
}

type tokAppend struct {
	call  *ssa.Call
	base  ssa.Value
	value ssa.Value
	ttype int64
}

// names of Token's fields, resolved by type when a program is loaded
var tokValF, tokTypF = "value", "tType"

// tokenAppendOf recognises append(base, Token{value, type}).
func tokenAppendOf(c *ssa.Call) (*tokAppend, bool) {
	if !core.IsBuiltin(c, "append") || len(c.Call.Args) != 2 {
		return nil, false
	}
	sl, ok := c.Call.Args[1].(*ssa.Slice)
	if !ok {
		return nil, false
	}
	al, ok := sl.X.(*ssa.Alloc)
	if !ok {
		return nil, false
	}
	at, ok := al.Type().Underlying().(*types.Pointer).Elem().Underlying().(*types.Array)
	if !ok || at.Len() != 1 || core.NamedOf(at.Elem()) != core.ModulePath+".Token" {
		return nil, false
	}
	ta := &tokAppend{call: c, base: c.Call.Args[0], ttype: -1}
	for _, ref := range core.Referrers(al) {
		ia, ok := ref.(*ssa.IndexAddr)
		if !ok {
			continue
		}
		for _, rr := range core.Referrers(ia) {
			st, ok := rr.(*ssa.Store)
			if !ok || st.Addr != ia {
				continue
			}
			ld, ok := st.Val.(*ssa.UnOp)
			if !ok {
				continue
			}
			tl, ok := ld.X.(*ssa.Alloc)
			if !ok {
				continue
			}
			lit := core.StructLiteral(tl)
			ta.value = lit[tokValF]
			if v := lit[tokTypF]; v != nil {
				if k, isC := core.ConstInt(v); isC {
					ta.ttype = k
				}
			}
		}
	}
	return ta, ta.value != nil
}

func resolveWLGen(p *core.Program) (*wlGen, string) {
	fn := p.Method("WLRecipe", "Generate")
	if fn == nil {
		return nil, "WLRecipe.Generate not found"
	}
	tokValF, tokTypF = tokenValueField(p), tokenTypeField(p)
	g := &wlGen{fn: fn, loops: core.Loops(fn)}
	for _, ref := range fn.Blocks[0].Instrs {
		if al, ok := ref.(*ssa.Alloc); ok && paramCopiedInto(al) == 0 {
			g.recv = al
		}
	}
	roles := GetRoles(p)
	for _, s := range roles.ChoiceSites {
		if s.Parent() != fn {
			continue
		}
		g.draws = append(g.draws, s)
		if _, _, isPick := roles.IsPickCall(s); isPick {
			g.wordDraw, g.wordViaPick = s, true
			continue
		}
		if len(s.Call.Args) == 0 {
			return nil, "choice site in WLRecipe.Generate takes no bound (" + core.Describe(s.Call.Value) + "): not one of the recognised draws"
		}
		b := s.Call.Args[0]
		switch {
		case isConstU(b, 2):
			g.coinDraw = s
		case recipeField(b, "Length"):
			g.oneDraw = s
		default:
			g.wordDraw = s
		}
	}
	core.Instrs(fn, func(in ssa.Instruction) {
		switch x := in.(type) {
		case *ssa.MakeMap:
			if x.Type().Underlying().String() == "map[int]bool" {
				g.capMap = x
			}
		case *ssa.MakeSlice:
			if x.Type().Underlying().String() == "[]bool" {
				g.capMap = x
			}
		case *ssa.Call:
			if ta, ok := tokenAppendOf(x); ok {
				g.appends = append(g.appends, ta)
			}
			if core.StaticCallee(x) == nil && !x.Common().IsInvoke() {
				if _, isB := x.Common().Value.(*ssa.Builtin); !isB {
					g.sepCall = x
				}
			}
		}
	})
	// assembly loop: the loop containing the token appends
	if len(g.appends) > 0 {
		if l := core.InnermostLoop(g.loops, g.appends[0].call.Block()); l != nil {
			if c, ok := core.AsCounted(l); ok {
				g.main = c
			}
			for _, in := range l.Header.Instrs {
				if phi, ok := in.(*ssa.Phi); ok {
					if _, isSlice := phi.Type().Underlying().(*types.Slice); isSlice {
						g.tsPhi = phi
					}
				}
			}
		}
	}
	return g, ""
}

// capUpdate: in sets capWords[key] = val (map update or slice element store).
func (g *wlGen) capUpdate(in ssa.Instruction) (key, val ssa.Value, ok bool) {
	switch x := in.(type) {
	case *ssa.MapUpdate:
		if x.Map == g.capMap {
			return x.Key, x.Value, true
		}
	case *ssa.Store:
		if ia, isIA := x.Addr.(*ssa.IndexAddr); isIA && ia.X == g.capMap {
			return ia.Index, x.Val, true
		}
	}
	return nil, nil, false
}

// capRead: v is capWords[idx] (map lookup or slice element load).
func (g *wlGen) capRead(v ssa.Value) (idx ssa.Value, ok bool) {
	switch x := v.(type) {
	case *ssa.Lookup:
		if x.X == g.capMap && !x.CommaOk {
			return x.Index, true
		}
	case *ssa.UnOp:
		if ia, isIA := x.X.(*ssa.IndexAddr); isIA && ia.X == g.capMap {
			return ia.Index, true
		}
	}
	return nil, false
}

// capUpdates lists every update of the capitalisation set.
func (g *wlGen) capUpdates() []ssa.Instruction {
	var out []ssa.Instruction
	core.Instrs(g.fn, func(in ssa.Instruction) {
		if _, _, ok := g.capUpdate(in); ok {
			out = append(out, in)
		}
	})
	return out
}

func isTrueConst(v ssa.Value) bool {
	c, ok := v.(*ssa.Const)
	return ok && c.Value != nil && c.Value.Kind() == constant.Bool && constant.BoolVal(c.Value)
}

func soleUse(v ssa.Value) (ssa.Instruction, int) {
	var uses []ssa.Instruction
	var collect func(v ssa.Value)
	collect = func(v ssa.Value) {
		for _, ref := range core.Referrers(v) {
			switch x := ref.(type) {
			case *ssa.Convert:
				collect(x)
			case *ssa.ChangeType:
				collect(x)
			case *ssa.DebugRef:
			default:
				uses = append(uses, ref)
			}
		}
	}
	collect(v)
	if len(uses) == 1 {
		return uses[0], 1
	}
	return nil, len(uses)
}

func runC04(p *core.Program, r *core.Report) {
	g, why := resolveWLGen(p)
	if g == nil {
		r.Unrecognised("R4.1", "(spg.WLRecipe).Generate", "generation shape", "", why)
		return
	}
	name := core.FuncName(g.fn)
	checkDrawRoutines(p, r, "R4.0", "R4.0", "R4.0")
	// "each word uniformly from the list": the list holds each kept word once (= C10 R10.2/R10.3 re-run)
	if c2 := resolveWLCtor(p, r, "R4.1"); c2 != nil {
		r.Borrow("R4.1", func() { checkKeptSet(p, r, c2) })
	}
	r.Floor("R4.1", "draw sites in WLRecipe.Generate", len(g.draws), 3)
	checkWLSuccessReturns(p, r, g, "R4.1")
	eng := &panicEngine{p: p, r: r, roles: GetRoles(p)}

	// word draw
	if g.wordDraw == nil {
		r.Fail("R4.1", name, "word draw", p.Pos(g.fn.Pos()), "no draw whose bound is the list size")
	} else {
		pos := p.InstrPos(g.wordDraw)
		use, n := soleUse(g.wordDraw)
		ia, isIdx := use.(*ssa.IndexAddr)
		if g.wordViaPick {
			coll := g.wordDraw.Call.Args[0]
			root, path, okP := valueAccessPath(coll)
			r.Check(okP && root == ssa.Value(g.recv) && len(path) == 2 && stableRoot(root), "R4.1", name, "word chosen by the uniform-pick helper applied to the recipe's word list", pos,
				"helper "+core.FuncName(core.StaticCallee(g.wordDraw))+" verified (bound = len of the indexed parameter); collection "+strings.Join(path, "."))
		} else if n != 1 || !isIdx {
			r.Fail("R4.1", name, "word draw is used exactly once, as an index", pos, fmt.Sprintf("%d uses", n))
		} else {
			ok, how := eng.drawIndexAgreement(ia.X, ia.Index)
			r.Check(ok, "R4.1", name, "word draw bound is the size of the very list it indexes", pos,
				how+" (bound "+core.Describe(g.wordDraw.Call.Args[0])+"; indexed "+core.Describe(ia.X)+"): a bound other than the list size makes some words unreachable or over-runs the list")
			// the indexed slice is list.words of the receiver copy
			root, path, okP := valueAccessPath(ia.X)
			r.Check(okP && root == ssa.Value(g.recv) && len(path) == 2, "R4.1", name, "the indexed slice is the recipe's word list", pos, strings.Join(path, "."))
		}
		inLoop := g.main != nil && g.main.Loop.Blocks[g.wordDraw.Block()]
		every := inLoop
		if inLoop {
			for _, la := range g.main.Loop.Latch {
				if !g.wordDraw.Block().Dominates(la) {
					every = false
				}
			}
		}
		r.Check(every, "R4.2", name, "a fresh word draw happens on every iteration of the position loop", pos, "a hoisted or conditional draw repeats or skips words")
	}
	// one draw
	if g.oneDraw == nil {
		r.Fail("R4.1", name, "'one' scheme draw over Length", p.Pos(g.fn.Pos()), "no draw with bound uint32(Length)")
	} else {
		pos := p.InstrPos(g.oneDraw)
		b := g.oneDraw.Call.Args[0]
		cv, isConv := b.(*ssa.Convert)
		r.Check(isConv && recipeField(cv.X, "Length") && isFieldLoadOf(cv.X), "R4.1", name, "'one' draw bound is exactly uint32(Length)", pos, core.Describe(b))
		use, n := soleUse(g.oneDraw)
		okUse := false
		if n == 1 {
			upd := use
			if ia, isIA := use.(*ssa.IndexAddr); isIA {
				// slice form: the index address has exactly one use, the store
				if st, n2 := soleUse(ia); n2 == 1 {
					upd = st
				}
			}
			if key, val, isUpd := g.capUpdate(upd); isUpd {
				okUse = core.Strip(key) == ssa.Value(g.oneDraw) && isTrueConst(val)
			}
		}
		r.Check(okUse, "R4.1", name, "the drawn position is used once: capWords[pos] = true", pos, fmt.Sprintf("%d uses", n))
		r.Check(core.InnermostLoop(g.loops, g.oneDraw.Block()) == nil, "R4.2", name, "'one' scheme draws once (outside any loop)", pos, "")
		r.Check(schemeGuard(g, g.oneDraw.Block()) == "one", "R4.1", name, "the single-position draw belongs to scheme CSOne", pos, schemeGuard(g, g.oneDraw.Block()))
	}
	// coin draw
	if g.coinDraw == nil {
		r.Fail("R4.1", name, "'random' scheme coin", p.Pos(g.fn.Pos()), "no draw with bound 2")
	} else {
		pos := p.InstrPos(g.coinDraw)
		use, n := soleUse(g.coinDraw)
		bo, isB := use.(*ssa.BinOp)
		okCmp := n == 1 && isB
		if okCmp {
			k, isC := core.ConstUint(bo.Y)
			x := bo.X
			if !isC {
				k, isC = core.ConstUint(bo.X)
				x = bo.Y
			}
			okCmp = isC && core.Strip(x) == ssa.Value(g.coinDraw) && separatesZeroOne(bo.Op, k, bo.X != x)
		}
		r.Check(okCmp, "R4.1", name, "the coin is used in exactly one comparison that separates 0 from 1", pos, "a comparison such as >= 0 or < 2 is constant; != 2 never fires")
		l := core.InnermostLoop(g.loops, g.coinDraw.Block())
		var cnt *core.Counted
		if l != nil {
			cnt, _ = core.AsCounted(l)
		}
		okLoop := cnt != nil && cnt.Step == 1 && cnt.Op == token.LSS && recipeField(cnt.Bound, "Length")
		if okLoop {
			z, isC := core.ConstInt(cnt.Init)
			okLoop = isC && z == 0
			for _, la := range l.Latch {
				if !g.coinDraw.Block().Dominates(la) {
					okLoop = false
				}
			}
		}
		r.Check(okLoop, "R4.2", name, "one fresh coin per position (counted loop 0<=i<Length, draw on every iteration)", pos, "")
		// key i set under the coin's comparison only
		okSet := false
		if okLoop && isB {
			for b := range l.Blocks {
				for _, in := range b.Instrs {
					key, _, ok := g.capUpdate(in)
					if !ok || key != ssa.Value(cnt.Phi) {
						continue
					}
					ng := 0
					hit := false
					for _, gd := range core.Guards(b) {
						if l.Blocks[gd.If.Block()] && gd.If.Block() != l.Header {
							ng++
							if gd.Cond == ssa.Value(bo) {
								hit = true
							}
						}
					}
					okSet = ng == 1 && hit
				}
			}
		}
		r.Check(okSet, "R4.2", name, "position i is capitalised iff its own coin shows the chosen face", pos, "")
		r.Check(schemeGuard(g, l.Header) == "random", "R4.1", name, "the coin loop belongs to scheme CSRandom", pos, schemeGuard(g, l.Header))
	}
	// R4.3 separator
	checkSeparatorPerGap(p, r, g, "R4.3")
	// R4.4 Title iff capWords[i]
	checkTitleIffCap(p, r, g, "R4.4")
}

// checkWLSuccessReturns: the rules read one assembly loop; they speak for the generator only if every
// password it returns is the object whose tokens are that loop's accumulator (a second way out — a
// fast path building its own token list — is a second generator nobody has looked at).
func checkWLSuccessReturns(p *core.Program, r *core.Report, g *wlGen, rule string) {
	name := core.FuncName(g.fn)
	owners := map[ssa.Value]bool{}
	if g.tsPhi != nil {
		core.Instrs(g.fn, func(in ssa.Instruction) {
			if st, ok := in.(*ssa.Store); ok {
				if fa, ok := st.Addr.(*ssa.FieldAddr); ok && core.FieldName(fa) == passwordTokensField(p) && core.StripType(st.Val) == ssa.Value(g.tsPhi) {
					owners[fa.X] = true
				}
			}
		})
	}
	n := 0
	for _, ret := range core.Returns(g.fn) {
		if len(ret.Results) != 2 || core.IsNilConst(ret.Results[0]) {
			continue
		}
		n++
		r.Check(owners[ret.Results[0]], rule, name, "a returned password is the one assembled by the analysed loop", p.InstrPos(ret),
			"returned value "+core.Describe(ret.Results[0])+" is not the object whose tokens are the loop's accumulator")
	}
	if n == 0 {
		r.Unrecognised(rule, name, "success return", p.Pos(g.fn.Pos()), "no return of a password found")
	}
}

func isFieldLoadOf(v ssa.Value) bool {
	_, ok := core.LoadPath(v)
	return ok
}

// separatesZeroOne: comparison (x op k) — or (k op x) when swapped — is true for exactly one of x in {0,1}.
func separatesZeroOne(op token.Token, k uint64, swapped bool) bool {
	eval := func(x uint64) bool {
		a, b := x, k
		if swapped {
			a, b = k, x
		}
		switch op {
		case token.EQL:
			return a == b
		case token.NEQ:
			return a != b
		case token.LSS:
			return a < b
		case token.LEQ:
			return a <= b
		case token.GTR:
			return a > b
		case token.GEQ:
			return a >= b
		}
		return false
	}
	return eval(0) != eval(1)
}

// schemeGuard: which Capitalize == "<scheme>" equality dominates block b.
func schemeGuard(g *wlGen, b *ssa.BasicBlock) string {
	for _, gd := range core.Guards(b) {
		rel, ok := core.AsRel(gd)
		if !ok || rel.Op != token.EQL {
			continue
		}
		if s, isS := core.ConstString(rel.Y); isS && recipeField(rel.X, "Capitalize") {
			return s
		}
	}
	return ""
}

// gapGuard classifies a guard as the "there is a gap here" test of the
// assembly loop 0 <= i < Length: "after" = i < Length-1 (separator follows the
// atom), "before" = i > 0 (separator precedes the atom). Both select exactly
// the Length-1 gaps.
func gapGuard(g *wlGen, gd core.Guard) string {
	rel, ok := core.AsRel(gd)
	if !ok || g.main == nil {
		return ""
	}
	if rel.Y == ssa.Value(g.main.Phi) {
		rel = rel.Flip()
	}
	if rel.X != ssa.Value(g.main.Phi) {
		return ""
	}
	if rel.Op == token.LSS {
		if sub, ok := rel.Y.(*ssa.BinOp); ok && sub.Op == token.SUB && recipeField(sub.X, "Length") {
			if k, isC := core.ConstInt(sub.Y); isC && k == 1 {
				return "after"
			}
		}
	}
	if k, isC := core.ConstInt(rel.Y); isC {
		if (rel.Op == token.GTR && k == 0) || (rel.Op == token.GEQ && k == 1) || (rel.Op == token.NEQ && k == 0) {
			return "before"
		}
	}
	return ""
}

func checkSeparatorPerGap(p *core.Program, r *core.Report, g *wlGen, rule string) {
	name := core.FuncName(g.fn)
	if g.sepCall == nil {
		r.Fail(rule, name, "separator function call", p.Pos(g.fn.Pos()), "no dynamic call of a separator function in Generate")
		return
	}
	pos := p.InstrPos(g.sepCall)
	inLoop := g.main != nil && g.main.Loop.Blocks[g.sepCall.Block()]
	r.Check(inLoop, rule, name, "the separator function is called inside the position loop (once per gap)", pos, "a separator fetched before the loop is reused for every gap")
	if !inLoop {
		return
	}
	// guard: exactly the gap test (i < Length-1, or i > 0 when the separator precedes the atom)
	ng, okG := 0, false
	for _, gd := range core.Guards(g.sepCall.Block()) {
		if !g.main.Loop.Blocks[gd.If.Block()] || gd.If.Block() == g.main.Loop.Header {
			continue
		}
		// written in place: `if r.SeparatorFunc != nil { sep, _ = r.SeparatorFunc() }` (else SeparatorChar)
		if _, merged := g.sepString(); merged {
			if rel, ok := core.AsRel(gd); ok && rel.Op == token.NEQ && core.IsNilConst(rel.Y) && recipeField(rel.X, "SeparatorFunc") {
				continue
			}
		}
		ng++
		if gapGuard(g, gd) != "" {
			okG = true
		}
	}
	r.Check(okG && ng == 1, rule, name, "the separator call is guarded exactly by the gap test (i < Length-1, or i > 0)", pos, fmt.Sprintf("%d in-loop guards", ng))
	// the called value: closure over SeparatorChar or the recipe's SeparatorFunc, fixed before the loop
	okSF := false
	if phi, ok := g.sepCall.Call.Value.(*ssa.Phi); ok && !g.main.Loop.Blocks[phi.Block()] {
		okSF = true
		for _, e := range phi.Edges {
			e = core.StripType(e)
			if mc, ok := e.(*ssa.MakeClosure); ok {
				okc, _ := closureReturnsField(mc, g.recv, "SeparatorChar")
				if !okc {
					okSF = false
				}
				continue
			}
			if c, ok := e.(*ssa.Call); ok && len(c.Call.Args) == 1 && recipeField(c.Call.Args[0], "SeparatorChar") {
				// a constant-separator factory applied to the recipe's SeparatorChar
				if okf, _ := constSeparatorFactory(core.StaticCallee(c)); okf {
					continue
				}
			}
			if !recipeField(e, "SeparatorFunc") {
				okSF = false
			}
		}
		// … chosen by exactly that test: the closure on `SeparatorFunc == nil` and nothing else, the
		// function on `SeparatorFunc != nil` and nothing else (Entropy() takes the function's figure
		// whenever the function is not nil)
		if okSF {
			m := phi.Block()
			base := map[ssa.Value]bool{}
			if d := m.Idom(); d != nil {
				for _, gd := range core.Guards(d) {
					base[gd.Cond] = true
				}
			}
			for i, e := range phi.Edges {
				pred := m.Preds[i]
				gs := append([]core.Guard{}, core.Guards(pred)...)
				if len(pred.Succs) == 2 && pred.Succs[0] != pred.Succs[1] {
					idx := 0
					if pred.Succs[1] == m {
						idx = 1
					}
					if eg, ok := core.EdgeCond(pred, idx); ok {
						gs = append(gs, eg)
					}
				}
				wantNil := !recipeField(core.StripType(e), "SeparatorFunc")
				n, okSel := 0, false
				for _, gd := range gs {
					if base[gd.Cond] {
						continue
					}
					n++
					if rel, ok := core.AsRel(gd); ok && core.IsNilConst(rel.Y) && recipeField(rel.X, "SeparatorFunc") &&
						((rel.Op == token.EQL) == wantNil) && (rel.Op == token.EQL || rel.Op == token.NEQ) {
						okSel = true
					}
				}
				if !okSel || n != 1 {
					okSF = false
				}
			}
		}
	} else if recipeField(g.sepCall.Call.Value, "SeparatorFunc") {
		okSF = true
		// it may be nil: then the call must be skipped and SeparatorChar used (checked by sepString/the guard above),
		// or the call is unconditional and C13's non-nil obligation speaks
	}
	r.Check(okSF, rule, name, "the function called is the recipe's SeparatorFunc, or a closure returning (SeparatorChar, 0) when it is nil", pos, core.Describe(g.sepCall.Call.Value))
	// string result: used only by len() and the separator token's value
	str, merged := g.sepString()
	if str == nil {
		r.Fail(rule, name, "separator string is used", pos, "")
		return
	}
	okUses := true
	if merged {
		// the call's own result feeds nothing but the merge
		for _, ref := range core.Referrers(str.(*ssa.Phi).Edges[0]) {
			_ = ref
		}
		for _, ref := range core.Referrers(g.sepCall) {
			if ex, ok := ref.(*ssa.Extract); ok && ex.Index == 0 {
				for _, r2 := range core.Referrers(ex) {
					switch r2.(type) {
					case *ssa.Phi, *ssa.DebugRef:
					default:
						okUses = false
					}
					if ph, isPhi := r2.(*ssa.Phi); isPhi && ssa.Value(ph) != str {
						okUses = false
					}
				}
			}
		}
	}
	for _, ref := range core.Referrers(str) {
		switch x := ref.(type) {
		case *ssa.Call:
			if !core.IsBuiltin(x, "len") {
				okUses = false
			}
		case *ssa.Store:
			// store into the Token literal's value field
			if fa, ok := x.Addr.(*ssa.FieldAddr); !ok || core.FieldName(fa) != tokenValueField(p) {
				okUses = false
			}
		case *ssa.Phi:
			okUses = false // loop-carried / merged: remembered separator
		case *ssa.DebugRef:
		default:
			okUses = false
		}
	}
	r.Check(okUses, rule, name, "the separator string flows only to this gap's token (not carried to later iterations)", pos, "")
	// closures created in the module with the separator signature write nothing
	eff := core.GetEff(p)
	for _, fn := range p.LibFuncs() {
		if fn.Parent() == nil || fn.Signature.Params().Len() != 0 || fn.Signature.Results().Len() != 2 {
			continue
		}
		r.Check(len(eff.Writes(fn)) == 0, rule, core.FuncName(fn), "separator closure keeps no state between calls", p.Pos(fn.Pos()), "")
	}
}

// sepString: the separator string of this gap — the first result of the separator call, or, when the
// choice between SeparatorFunc and SeparatorChar is written in place, the merge inside the loop body of
// that result with a load of the recipe's SeparatorChar (taken when the call is skipped).
func (g *wlGen) sepString() (ssa.Value, bool) {
	if g.sepCall == nil {
		return nil, false
	}
	var str ssa.Value
	for _, ref := range core.Referrers(g.sepCall) {
		if ex, ok := ref.(*ssa.Extract); ok && ex.Index == 0 {
			str = ex
		}
	}
	if str == nil {
		return nil, false
	}
	for _, ref := range core.Referrers(str) {
		phi, ok := ref.(*ssa.Phi)
		if !ok || g.main == nil || !g.main.Loop.Blocks[phi.Block()] || phi.Block() == g.main.Loop.Header || len(phi.Edges) != 2 {
			continue
		}
		other := phi.Edges[0]
		if other == str {
			other = phi.Edges[1]
		}
		if recipeField(other, "SeparatorChar") && recipeField(g.sepCall.Call.Value, "SeparatorFunc") {
			return phi, true
		}
	}
	return str, false
}

// closureReturnsField: closure returns (load recv.field, 0).
func closureReturnsField(mc *ssa.MakeClosure, recv *ssa.Alloc, field string) (bool, string) {
	clo := mc.Fn.(*ssa.Function)
	okBind := len(mc.Bindings) == 1 && mc.Bindings[0] == ssa.Value(recv)
	if !okBind && len(mc.Bindings) == 1 {
		// a private copy of the recipe copy (made when a helper is expanded) is the same recipe
		if al, isAl := mc.Bindings[0].(*ssa.Alloc); isAl {
			n := 0
			for _, ref := range core.Referrers(al) {
				if st, isSt := ref.(*ssa.Store); isSt && st.Addr == ssa.Value(al) {
					n++
					if ld, isLd := st.Val.(*ssa.UnOp); isLd && ld.X == ssa.Value(recv) {
						okBind = true
					}
				}
			}
			if n != 1 {
				okBind = false
			}
		}
	}
	if !okBind {
		return false, "closure does not capture the recipe copy"
	}
	for _, ret := range core.Returns(clo) {
		if len(ret.Results) != 2 || !isZeroConst(ret.Results[1]) {
			return false, "closure does not return entropy 0"
		}
		ld, ok := ret.Results[0].(*ssa.UnOp)
		if !ok {
			return false, "closure does not return the field"
		}
		fa, ok := ld.X.(*ssa.FieldAddr)
		if !ok || fa.X != ssa.Value(clo.FreeVars[0]) || core.FieldName(fa) != field {
			return false, "closure does not return " + field
		}
	}
	return true, ""
}

func checkTitleIffCap(p *core.Program, r *core.Report, g *wlGen, rule string) {
	name := core.FuncName(g.fn)
	var atom *tokAppend
	for _, a := range g.appends {
		if a.ttype == 1 {
			atom = a
		}
	}
	if atom == nil {
		r.Fail(rule, name, "atom append", p.Pos(g.fn.Pos()), "no AtomType token append found")
		return
	}
	pos := p.InstrPos(atom.call)
	phi, ok := atom.value.(*ssa.Phi)
	if !ok || len(phi.Edges) != 2 {
		r.Fail(rule, name, "atom value is phi(word, Title(word))", pos, core.Describe(atom.value))
		return
	}
	var word, title ssa.Value
	var titleIdx int
	for i, e := range phi.Edges {
		if _, isT := titleCallArg(e); isT {
			title, titleIdx = e, i
		} else {
			word = e
		}
	}
	okT := title != nil && word != nil
	if okT {
		x, _ := titleCallArg(title)
		okT = x == word
	}
	r.Check(okT, rule, name, "the atom is the drawn word or exactly its Title form", pos, "")
	if !okT {
		return
	}
	// word is the loaded element at the word draw
	okW := g.wordViaPick && word == ssa.Value(g.wordDraw)
	if ld, ok := word.(*ssa.UnOp); ok {
		if ia, ok := ld.X.(*ssa.IndexAddr); ok && g.wordDraw != nil && core.Strip(ia.Index) == ssa.Value(g.wordDraw) {
			okW = true
		}
	}
	r.Check(okW, rule, name, "the word is the list element selected by this iteration's draw", pos, "")
	// Title edge guarded by capWords[i]
	pred := phi.Block().Preds[titleIdx]
	okG := false
	for _, gd := range core.Guards(pred) {
		if idx, ok := g.capRead(gd.Cond); ok && gd.Pos && g.main != nil && idx == ssa.Value(g.main.Phi) {
			okG = true
		}
	}
	r.Check(okG, rule, name, "Title is applied iff capWords[i] (the map entry of this position)", pos, "")
}

// ---------------------------------------------------------------- C05

func runC05(p *core.Program, r *core.Report) {
	g, why := resolveWLGen(p)
	if g == nil {
		r.Unrecognised("R5.1", "(spg.WLRecipe).Generate", "generation shape", "", why)
		return
	}
	name := core.FuncName(g.fn)
	atomT, _, _ := core.ConstOf(p.LibPkg.Types, "AtomType")
	sepT, _, _ := core.ConstOf(p.LibPkg.Types, "SeparatorType")
	atomV, _ := constant.Int64Val(atomT)
	sepV, _ := constant.Int64Val(sepT)
	r.Trivial(atomV != sepV, "R5.1c", "-", "AtomType and SeparatorType are distinct constants", "", fmt.Sprintf("%d,%d", atomV, sepV))

	if g.main == nil || g.tsPhi == nil {
		r.Fail("R5.1c", name, "tokens are assembled in a counted loop", p.Pos(g.fn.Pos()), "assembly loop / accumulator not recognised")
		return
	}
	c := g.main
	z, isC := core.ConstInt(c.Init)
	r.Check(isC && z == 0 && c.Step == 1 && c.Op == token.LSS && recipeField(c.Bound, "Length"), "R5.1c", name, "assembly loop is 0 <= i < Length step 1", p.InstrPos(c.Phi), "")
	var atoms, seps []*tokAppend
	for _, a := range g.appends {
		pos := p.InstrPos(a.call)
		if !c.Loop.Blocks[a.call.Block()] {
			r.Fail("R5.1c", name, "token appended outside the assembly loop", pos, "leading/trailing token")
			continue
		}
		switch a.ttype {
		case atomV:
			atoms = append(atoms, a)
		case sepV:
			seps = append(seps, a)
		default:
			r.Fail("R5.1c", name, "token type is one of the typed constants", pos, fmt.Sprint(a.ttype))
		}
	}
	// initial accumulator empty
	for i, e := range g.tsPhi.Edges {
		if !c.Loop.Blocks[g.tsPhi.Block().Preds[i]] {
			okE := core.IsNilConst(e)
			if mk, ok := e.(*ssa.MakeSlice); ok {
				if z, isC := core.ConstInt(mk.Len); isC && z == 0 {
					okE = true
				}
			}
			if sl, ok := e.(*ssa.Slice); ok {
				if al, ok := sl.X.(*ssa.Alloc); ok {
					if at, ok := al.Type().Underlying().(*types.Pointer).Elem().Underlying().(*types.Array); ok && at.Len() == 0 {
						okE = true
					}
				}
			}
			r.Check(okE, "R5.1c", name, "the token list starts empty", p.InstrPos(g.tsPhi), core.Describe(e))
		}
	}
	// result tokens = accumulator at loop exit
	okRes := false
	core.Instrs(g.fn, func(in ssa.Instruction) {
		if st, ok := in.(*ssa.Store); ok {
			if fa, ok := st.Addr.(*ssa.FieldAddr); ok && core.FieldName(fa) == passwordTokensField(p) && core.StripType(st.Val) == ssa.Value(g.tsPhi) && !c.Loop.Blocks[st.Block()] {
				okRes = true
			}
		}
	})
	r.Check(okRes, "R5.1c", name, "the password's tokens are the list accumulated by the loop", p.InstrPos(g.tsPhi), "")
	checkWLSuccessReturns(p, r, g, "R5.1c")

	// R5.1a
	if len(atoms) != 1 {
		r.Fail("R5.1a", name, "exactly one atom append per iteration", p.InstrPos(c.Phi), fmt.Sprintf("%d atom appends in the loop", len(atoms)))
	} else {
		a := atoms[0]
		every := true
		for _, la := range c.Loop.Latch {
			if !a.call.Block().Dominates(la) {
				every = false
			}
		}
		var conds []string
		for _, gd := range core.Guards(a.call.Block()) {
			if c.Loop.Blocks[gd.If.Block()] && gd.If.Block() != c.Loop.Header {
				conds = append(conds, core.Describe(gd.Cond))
			}
		}
		construct := "an atom is appended on every path through an iteration"
		if !every && len(conds) == 1 && isLenPositiveOf(core.Guards(a.call.Block()), a.value) {
			construct = "atom-append-guarded-by-len(w)>0"
		}
		r.Check(every, "R5.1a", name, construct, p.InstrPos(a.call),
			"the atom append is conditional on "+strings.Join(conds, ", ")+": a list containing the empty string yields fewer than Length atoms (and adjacent separators)")
		r.Check(derivesFromList(a.base, g, seps), "R5.1a", name, "the atom is appended to the running token list", p.InstrPos(a.call), "")
	}
	checkTitleIffCap(p, r, g, "R5.1a")
	// the words drawn from are exactly the caller's words (= C10 R10.2/R10.3 re-run): a
	// constructor that rewrites or empties words changes the atoms (an emptied word yields none)
	if c2 := resolveWLCtor(p, r, "R5.1a"); c2 != nil {
		r.Borrow("R5.1a", func() { checkKeptSet(p, r, c2) })
	}
	// what separates the words is the recipe's own SeparatorChar/SeparatorFunc: the constructor
	// installs no separator of its own (= C16 R16.2 for NewWLRecipe)
	r.Borrow("R5.1b", func() { checkWLRecipeCtor(p, r) })
	// … that function is called afresh for every gap and chosen by `SeparatorFunc == nil` alone (= C04 R4.3 re-run)
	r.Borrow("R5.1b", func() { checkSeparatorPerGap(p, r, g, "R4.3") })
	// … and the pre-baked empty separator function really returns the empty string (= C16 R16.3, SFNone)
	borrowSelected(p, r, runC16, "R5.1b", func(o core.Obligation) bool { return o.Rule == "R16.3" && strings.Contains(o.Construct, "SFNone") || o.Rule == "R16.6" && mentionsVar(o.Construct, "SFNone") })
	// R5.1b
	if len(seps) > 1 {
		r.Fail("R5.1b", name, "at most one separator append per iteration", p.InstrPos(c.Phi), fmt.Sprintf("%d separator appends", len(seps)))
	}
	for _, s := range seps {
		pos := p.InstrPos(s.call)
		// value is the separator call's string
		okV := false
		if ex, ok := s.value.(*ssa.Extract); ok && ex.Index == 0 && g.sepCall != nil && ex.Tuple == ssa.Value(g.sepCall) {
			okV = true
		}
		if str, merged := g.sepString(); merged && s.value == str {
			okV = true // SeparatorFunc's string, or SeparatorChar when there is no function
		}
		r.Check(okV, "R5.1b", name, "separator token's value is the string returned by this iteration's separator call", pos, core.Describe(s.value))
		// guards: i < Length-1 and len(sep) > 0, nothing else
		ng, okGap, okLen := 0, false, false
		gapForm := ""
		for _, gd := range core.Guards(s.call.Block()) {
			if !c.Loop.Blocks[gd.If.Block()] || gd.If.Block() == c.Loop.Header {
				continue
			}
			ng++
			rel, ok := core.AsRel(gd)
			if !ok {
				continue
			}
			if f := gapGuard(g, gd); f != "" {
				okGap, gapForm = true, f
			}
			if x, isLen := core.LenOf(rel.X); isLen && x == s.value {
				if k, isC := core.ConstInt(rel.Y); isC && ((rel.Op == token.GTR && k == 0) || (rel.Op == token.GEQ && k == 1) || (rel.Op == token.NEQ && k == 0)) {
					okLen = true
				}
			}
		}
		r.Check(okGap, "R5.1b", name, "separator only between atoms (i < Length-1 after the atom, or i > 0 before it): never leading or trailing", pos, "")
		r.Check(okLen, "R5.1b", name, "no separator token for an empty separator string", pos, "")
		r.Check(ng == 2, "R5.1b", name, "no other condition on the separator token", pos, fmt.Sprintf("%d in-loop guards", ng))
		// ordering: after-form: the separator's base derives from this iteration's atom append;
		// before-form: the atom's base derives from this separator append
		if gapForm == "before" {
			okOrd := len(atoms) == 1 && derivesFrom(atoms[0].base, ssa.Value(s.call), g.tsPhi, 0) && derivesFromList(s.base, g, nil)
			r.Check(okOrd, "R5.1b", name, "the separator is appended before this iteration's atom, onto the running list", pos, "")
			continue
		}
		after := false
		var walk func(v ssa.Value, d int)
		walk = func(v ssa.Value, d int) {
			if d > 4 || after {
				return
			}
			if len(atoms) == 1 && v == ssa.Value(atoms[0].call) {
				after = true
				return
			}
			if phi, ok := v.(*ssa.Phi); ok && phi != g.tsPhi {
				for _, e := range phi.Edges {
					walk(e, d+1)
				}
			}
		}
		walk(s.base, 0)
		r.Check(after, "R5.1b", name, "the separator is appended after this iteration's atom", pos, "base "+core.Describe(s.base))
	}
	r.Floor("R5.1b", "separator appends", len(seps), 1)

	// R5.2
	checkCapSchemes(p, r, g)
	// R5.3
	checkAccessors(p, r, atomV, sepV)
}

// derivesFrom: v is target, or a merge phi (not the loop accumulator) one of whose edges derives from target.
func derivesFrom(v, target ssa.Value, tsPhi *ssa.Phi, d int) bool {
	if d > 5 {
		return false
	}
	if v == target {
		return true
	}
	if phi, ok := v.(*ssa.Phi); ok && phi != tsPhi {
		for _, e := range phi.Edges {
			if derivesFrom(e, target, tsPhi, d+1) {
				return true
			}
		}
	}
	return false
}

// derivesFromList: v is the running token list: the loop accumulator itself, or a merge of it with
// this iteration's separator appends.
func derivesFromList(v ssa.Value, g *wlGen, seps []*tokAppend) bool {
	if v == ssa.Value(g.tsPhi) {
		return true
	}
	phi, ok := v.(*ssa.Phi)
	if !ok || phi == g.tsPhi {
		return false
	}
	for _, e := range phi.Edges {
		if e == ssa.Value(g.tsPhi) {
			continue
		}
		isSep := false
		for _, s := range seps {
			if e == ssa.Value(s.call) {
				isSep = true
			}
		}
		if !isSep && !derivesFromList(e, g, seps) {
			return false
		}
	}
	return true
}

func isLenPositiveOf(gs []core.Guard, v ssa.Value) bool {
	for _, g := range gs {
		rel, ok := core.AsRel(g)
		if !ok {
			continue
		}
		if x, isLen := core.LenOf(rel.X); isLen && x == v {
			if k, isC := core.ConstInt(rel.Y); isC && ((rel.Op == token.GTR && k == 0) || (rel.Op == token.GEQ && k == 1) || (rel.Op == token.NEQ && k == 0)) {
				return true
			}
		}
	}
	return false
}

func checkCapSchemes(p *core.Program, r *core.Report, g *wlGen) {
	name := core.FuncName(g.fn)
	caps := core.ConstsOfType(p.LibPkg.Types, "CapScheme")
	cases := map[string]bool{}
	core.Instrs(g.fn, func(in ssa.Instruction) {
		bo, ok := in.(*ssa.BinOp)
		if !ok || bo.Op != token.EQL {
			return
		}
		if s, isS := core.ConstString(bo.Y); isS && recipeField(bo.X, "Capitalize") {
			cases[s] = true
		}
	})
	var names []string
	for n := range caps {
		names = append(names, n)
	}
	sort.Strings(names)
	for _, n := range names {
		v := constant.StringVal(caps[n])
		if n == "CSNone" {
			continue
		}
		r.Check(cases[v], "R5.2", name, "scheme "+n+" has a case in Generate", p.Pos(g.fn.Pos()), "a declared scheme without a case silently capitalises nothing")
	}
	if g.capMap == nil {
		r.Fail("R5.2", name, "capitalisation map", p.Pos(g.fn.Pos()), "not found")
		return
	}
	// every update of the set, classified by the scheme guarding it
	type upd struct {
		in       ssa.Instruction
		key, val ssa.Value
	}
	bySch := map[string][]upd{}
	for _, in := range g.capUpdates() {
		key, val, _ := g.capUpdate(in)
		s := schemeGuard(g, in.Block())
		if s == "" {
			// inside a loop guarded at its header's dominators
			if l := core.InnermostLoop(g.loops, in.Block()); l != nil {
				s = schemeGuard(g, l.Header)
			}
		}
		bySch[s] = append(bySch[s], upd{in, key, val})
		r.Check(isTrueConst(val), "R5.2", name, "capitalisation entries are only ever set to true", p.InstrPos(in), "")
	}
	for s, mus := range bySch {
		if s == "" {
			for _, mu := range mus {
				r.Fail("R5.2", name, "capitalisation set outside any scheme case", p.InstrPos(mu.in), "unknown or 'none' schemes must capitalise nothing")
			}
		}
	}
	if mus := bySch["first"]; len(mus) == 1 {
		k, isC := core.ConstInt(mus[0].key)
		r.Check(isC && k == 0 && core.InnermostLoop(g.loops, mus[0].in.Block()) == nil, "R5.2", name, "scheme first capitalises exactly position 0", p.InstrPos(mus[0].in), core.Describe(mus[0].key))
	} else {
		r.Fail("R5.2", name, "scheme first capitalises exactly position 0", p.Pos(g.fn.Pos()), fmt.Sprintf("%d updates under CSFirst", len(mus)))
	}
	if mus := bySch["all"]; len(mus) == 1 {
		mu := mus[0]
		l := core.InnermostLoop(g.loops, mu.in.Block())
		ok := false
		if l != nil {
			if cnt, isCnt := core.AsCounted(l); isCnt && cnt.Step == 1 && cnt.Op == token.LSS && recipeField(cnt.Bound, "Length") && mu.key == ssa.Value(cnt.Phi) {
				z, isC := core.ConstInt(cnt.Init)
				ok = isC && z == 0
				for _, la := range l.Latch {
					if !mu.in.Block().Dominates(la) {
						ok = false
					}
				}
			}
			// a range over the []bool set itself is the same sweep
			if ri, isR := core.AsRange(l); isR && ri.Kind == "slice" && ri.X == g.capMap && mu.key == ri.Index {
				ok = true
				for _, la := range l.Latch {
					if !mu.in.Block().Dominates(la) {
						ok = false
					}
				}
			}
		}
		r.Check(ok, "R5.2", name, "scheme all capitalises every position (full sweep setting key i)", p.InstrPos(mu.in), "")
	} else {
		r.Fail("R5.2", name, "scheme all capitalises every position", p.Pos(g.fn.Pos()), fmt.Sprintf("%d updates under CSAll", len(mus)))
	}
	r.Check(len(bySch["one"]) == 1, "R5.2", name, "scheme one sets exactly one key (the drawn position, C04)", p.Pos(g.fn.Pos()), fmt.Sprint(len(bySch["one"])))
	r.Check(len(bySch["random"]) == 1, "R5.2", name, "scheme random sets key i under its coin (C04)", p.Pos(g.fn.Pos()), fmt.Sprint(len(bySch["random"])))
	// a []bool set must cover all positions
	if mk, isSl := g.capMap.(*ssa.MakeSlice); isSl {
		r.Check(recipeField(mk.Len, "Length"), "R5.2", name, "the []bool capitalisation set has one entry per position (make([]bool, Length))", p.InstrPos(mk), core.Describe(mk.Len))
	}
	// the set is only read at capWords[i] in the assembly loop
	core.Instrs(g.fn, func(in ssa.Instruction) {
		v, isV := in.(ssa.Value)
		if !isV {
			return
		}
		if idx, ok := g.capRead(v); ok {
			r.Check(g.main != nil && idx == ssa.Value(g.main.Phi), "R5.2", name, "the set is consulted at the current position", p.InstrPos(in), "")
		}
	})
}

func checkAccessors(p *core.Program, r *core.Report, atomV, sepV int64) {
	// Password.String
	if f := p.Method("Password", "String"); f == nil {
		r.Unrecognised("R5.3", "Password.String", "method", "", "not found")
	} else {
		ok, why := isInOrderConcat(f)
		r.Check(ok, "R5.3", core.FuncName(f), "String() concatenates the token values in order", p.Pos(f.Pos()), why)
	}
	// ofType via Atoms/Separators
	checkedFilter := map[*ssa.Function]bool{}
	for _, a := range []struct {
		name string
		want int64
	}{{"Atoms", atomV}, {"Separators", sepV}} {
		f := p.Method("Tokens", a.name)
		if f == nil {
			r.Unrecognised("R5.3", "Tokens."+a.name, "method", "", "not found")
			continue
		}
		rets := core.Returns(f)
		okA := false
		var filt *ssa.Function
		if len(rets) == 1 {
			if c, ok := rets[0].Results[0].(*ssa.Call); ok && len(c.Call.Args) == 2 && c.Call.Args[0] == ssa.Value(f.Params[0]) {
				if k, isC := core.ConstInt(c.Call.Args[1]); isC && k == a.want {
					okA = true
					filt = core.StaticCallee(c)
				}
			}
		}
		r.Check(okA, "R5.3", core.FuncName(f), a.name+"() filters its own tokens by the "+a.name+" type constant", p.Pos(f.Pos()), "")
		if filt != nil && !checkedFilter[filt] {
			checkedFilter[filt] = true
			ok, why := isInOrderFilter(filt)
			r.Check(ok, "R5.3", core.FuncName(filt), "type filter is a full in-order sweep appending the value iff type == parameter", p.Pos(filt.Pos()), why)
		}
	}
	checkTokenAccessors(p, r)
}

// checkTokenAccessors: Password.Tokens(), Token.Value() and Token.Type() hand out the stored fields
// unchanged (what every observer of a generated or decoded password sees).
func checkTokenAccessors(p *core.Program, r *core.Report) {
	if f := p.Method("Password", "Tokens"); f != nil {
		ok := false
		for _, ret := range core.Returns(f) {
			if ref, okP := core.LoadPath(ret.Results[0]); okP && ref.Path == "."+passwordTokensField(p) {
				ok = true
			}
		}
		r.Check(ok, "R5.3", core.FuncName(f), "Tokens() returns the tokens field", p.Pos(f.Pos()), "")
	}
	for _, m := range []string{"Value", "Type"} {
		if f := p.Method("Token", m); f != nil {
			want := map[string]string{"Value": "." + tokenValueField(p), "Type": "." + tokenTypeField(p)}[m]
			ok := false
			for _, ret := range core.Returns(f) {
				if ref, okP := core.LoadPath(ret.Results[0]); okP && ref.Path == want {
					ok = true
				}
				if fl, isF := ret.Results[0].(*ssa.Field); isF {
					st, _ := fl.X.Type().Underlying().(*types.Struct)
					if st != nil && "."+st.Field(fl.Field).Name() == want && fl.X == ssa.Value(f.Params[0]) {
						ok = true
					}
				}
			}
			r.Check(ok, "R5.3", core.FuncName(f), "Token."+m+"() returns the "+want+" field", p.Pos(f.Pos()), "")
		}
	}
}

// isInOrderConcat: range over recv.tokens; acc = acc + Value(elem), unconditional; returns acc.
func isInOrderConcat(f *ssa.Function) (bool, string) {
	rets := core.Returns(f)
	if len(rets) != 1 {
		return false, "several returns"
	}
	var bri *core.RangeInfo
	if ok, why, isB := isBuilderConcat(f, rets[0].Results[0], func(l *core.Loop) bool {
		ri, ok := core.AsRange(l)
		if !ok || ri.Kind != "slice" {
			return false
		}
		if ref, okP := core.LoadPath(ri.X); !okP || !strings.HasPrefix(ref.Path, ".") || strings.Count(ref.Path, ".") != 1 {
			return false
		}
		bri = ri
		return true
	}, func(v ssa.Value) bool { return bri != nil && isValueOfElem(v, bri) }); isB {
		return ok, why
	}
	phi, ok := rets[0].Results[0].(*ssa.Phi)
	if !ok {
		return false, "result is not an accumulator"
	}
	var loop *core.Loop
	for _, l := range core.Loops(f) {
		if l.Header == phi.Block() {
			loop = l
		}
	}
	if loop == nil {
		return false, "accumulator not loop-carried"
	}
	ri, ok := core.AsRange(loop)
	if !ok || ri.Kind != "slice" {
		return false, "not a range over the tokens"
	}
	if ref, okP := core.LoadPath(ri.X); !okP || !strings.HasPrefix(ref.Path, ".") || strings.Count(ref.Path, ".") != 1 {
		return false, "ranged slice is not the tokens field"
	}
	for i, e := range phi.Edges {
		if !loop.Blocks[phi.Block().Preds[i]] {
			if s, ok := core.ConstString(e); !ok || s != "" {
				return false, "accumulator does not start empty"
			}
			continue
		}
		bo, ok := e.(*ssa.BinOp)
		if !ok || bo.Op != token.ADD || bo.X != ssa.Value(phi) {
			return false, "update is not acc + value (prepending reverses the password)"
		}
		if !isValueOfElem(bo.Y, ri) {
			return false, "appended string is not the current token's value"
		}
		for _, la := range loop.Latch {
			if !bo.Block().Dominates(la) {
				return false, "conditional concatenation"
			}
		}
	}
	return true, ""
}

// isValueOfElem: v = (Token).Value(ranged[idx]) or the .value field of it.
func isValueOfElem(v ssa.Value, ri *core.RangeInfo) bool {
	var tok ssa.Value
	if c, ok := v.(*ssa.Call); ok && strings.HasSuffix(core.CallName(c), ".Token).Value") {
		tok = c.Call.Args[0]
	} else if ref, ok := core.LoadPath(v); ok && strings.HasSuffix(ref.Path, "."+tokValF) {
		// load of the value field of a local copy
		if al, ok := ref.Root.(*ssa.Alloc); ok {
			for _, rr := range core.Referrers(al) {
				if st, ok := rr.(*ssa.Store); ok && st.Addr == al {
					tok = st.Val
				}
			}
		}
	} else {
		return false
	}
	// tok is a load of &ranged[idx] or of a local copy of it
	for depth := 0; depth < 3 && tok != nil; depth++ {
		ld, ok := tok.(*ssa.UnOp)
		if !ok {
			return false
		}
		if ia, ok := ld.X.(*ssa.IndexAddr); ok {
			return ia.X == ri.X && ia.Index == ri.Index
		}
		al, ok := ld.X.(*ssa.Alloc)
		if !ok {
			return false
		}
		tok = nil
		for _, rr := range core.Referrers(al) {
			if st, ok := rr.(*ssa.Store); ok && st.Addr == al {
				tok = st.Val
			}
		}
	}
	return false
}

// isInOrderFilter: f(ts, t): range over ts; append value iff elem.type == t.
func isInOrderFilter(f *ssa.Function) (bool, string) {
	if f.Blocks == nil || len(f.Params) != 2 {
		return false, "unexpected signature"
	}
	rets := core.Returns(f)
	if len(rets) != 1 {
		return false, "several returns"
	}
	loop, app, elems, ok := sliceAccumulator(rets[0].Results[0], core.Loops(f))
	if !ok {
		return false, "result is not an append accumulator"
	}
	ri, ok := core.AsRange(loop)
	if !ok || ri.Kind != "slice" || ri.X != ssa.Value(f.Params[0]) {
		return false, "not a range over the receiver's tokens"
	}
	if len(elems) != 1 || !isValueOfElem(elems[0], ri) {
		return false, "appended element is not the current token's value"
	}
	// guard: exactly type == param
	ng, okG := 0, false
	for _, gd := range core.Guards(app.Block()) {
		if !loop.Blocks[gd.If.Block()] || gd.If.Block() == loop.Header {
			continue
		}
		ng++
		if rel, ok := core.AsRel(gd); ok && rel.Op == token.EQL {
			if rel.Y == ssa.Value(f.Params[1]) || rel.X == ssa.Value(f.Params[1]) {
				okG = true
			}
		}
	}
	if ng != 1 || !okG {
		return false, "append is not guarded exactly by type == parameter"
	}
	return true, ""
}
