package core

import (
	"bytes"
	"go/ast"
	"go/parser"
	"go/token"
	"os"
	"path/filepath"
	"sort"
	"strings"
)

// Idiom canonicalisation at load time. Some tests have several spellings that mean exactly the
// same for every value — `s != ""` and `len(s) > 0`, `s == ""` and `len(s) == 0` for a string s —
// and linters routinely rewrite one into the other. The rules are written against the `len`
// spelling (the pinned tree's); instead of teaching every rule both, the loader rewrites the
// comparison with the empty string literal into the len form in the source text it hands to the
// type checker. The rewrite is a splice inside one line (line numbers are unchanged, so reported
// positions stay exact), is applied to the files as they are on disk (or in the normal-form
// overlay) on every run, and is dropped — the program is loaded as written — if the rewritten
// text does not type-check (a comparison of an interface value with "" is legal Go, len of it is not).

// canonOverlay returns overlay contents for the module's non-test Go files whose text changes
// under canonicalisation, merged over the given overlay.
func canonOverlay(dir string, overlay map[string][]byte) map[string][]byte {
	out := map[string][]byte{}
	for f, b := range overlay {
		out[f] = b
	}
	changed := false
	_ = filepath.Walk(dir, func(path string, info os.FileInfo, err error) error {
		if err != nil {
			return nil
		}
		if info.IsDir() {
			n := info.Name()
			if path != dir && (strings.HasPrefix(n, ".") || n == "testdata" || n == "vendor") {
				return filepath.SkipDir
			}
			return nil
		}
		if !strings.HasSuffix(path, ".go") || strings.HasSuffix(path, "_test.go") {
			return nil
		}
		src, ok := out[path]
		if !ok {
			b, err := os.ReadFile(path)
			if err != nil {
				return nil
			}
			src = b
		}
		if len(src) > 1<<20 {
			return nil // the generated word lists: nothing to rewrite, and not worth parsing twice
		}
		if c := canonSource(path, src); c != nil {
			out[path] = c
			changed = true
		}
		return nil
	})
	if !changed {
		return nil
	}
	return out
}

type edit struct {
	start, end int
	text       string
}

// canonSource returns the canonicalised text, or nil when nothing changes.
func canonSource(name string, src []byte) []byte {
	if !bytes.Contains(src, []byte(`""`)) {
		return nil
	}
	fset := token.NewFileSet()
	f, err := parser.ParseFile(fset, name, src, parser.ParseComments)
	if err != nil {
		return nil
	}
	shadow := false
	ast.Inspect(f, func(n ast.Node) bool {
		switch x := n.(type) {
		case *ast.FuncDecl:
			if x.Name.Name == "len" {
				shadow = true
			}
		case *ast.AssignStmt:
			if x.Tok == token.DEFINE {
				for _, l := range x.Lhs {
					if id, ok := l.(*ast.Ident); ok && id.Name == "len" {
						shadow = true
					}
				}
			}
		case *ast.ValueSpec:
			for _, id := range x.Names {
				if id.Name == "len" {
					shadow = true
				}
			}
		case *ast.Field:
			for _, id := range x.Names {
				if id.Name == "len" {
					shadow = true
				}
			}
		}
		return true
	})
	if shadow {
		return nil
	}
	isEmptyLit := func(e ast.Expr) bool {
		l, ok := e.(*ast.BasicLit)
		return ok && l.Kind == token.STRING && (l.Value == `""` || l.Value == "``")
	}
	off := func(p token.Pos) int { return fset.Position(p).Offset }
	var edits []edit
	ast.Inspect(f, func(n ast.Node) bool {
		be, ok := n.(*ast.BinaryExpr)
		if !ok || (be.Op != token.NEQ && be.Op != token.EQL) {
			return true
		}
		var x ast.Expr
		switch {
		case isEmptyLit(be.Y) && !isEmptyLit(be.X):
			x = be.X
		case isEmptyLit(be.X) && !isEmptyLit(be.Y):
			x = be.Y
		default:
			return true
		}
		if _, isLit := x.(*ast.BasicLit); isLit {
			return true
		}
		op := " > 0"
		if be.Op == token.EQL {
			op = " == 0"
		}
		edits = append(edits, edit{off(be.Pos()), off(be.End()), "len(" + string(src[off(x.Pos()):off(x.End())]) + ")" + op})
		return false // do not rewrite inside an operand that is itself being replaced
	})
	if len(edits) == 0 {
		return nil
	}
	sort.Slice(edits, func(i, j int) bool { return edits[i].start > edits[j].start })
	out := append([]byte{}, src...)
	for _, e := range edits {
		out = append(out[:e.start:e.start], append([]byte(e.text), out[e.end:]...)...)
	}
	return out
}
