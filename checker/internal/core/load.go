// Package core holds the loader, the obligation/evidence plumbing and the
// shared SSA helper analyses of the spg static checker.
package core

import (
	"fmt"
	"go/ast"
	"go/token"
	"go/types"
	"os"
	"sort"
	"strings"

	"golang.org/x/tools/go/callgraph"
	"golang.org/x/tools/go/callgraph/cha"
	"golang.org/x/tools/go/callgraph/vta"
	"golang.org/x/tools/go/packages"
	"golang.org/x/tools/go/ssa"
	"golang.org/x/tools/go/ssa/ssautil"
)

const (
	// ModulePath is the import path of the analysed module.
	ModulePath = "go.1password.io/spg"
	// CmdPath is the import path of the CLI.
	CmdPath = "go.1password.io/spg/cmd/opgen"
)

// Config names one build configuration of the analysed tree.
type Config struct {
	Name   string
	GOOS   string
	GOARCH string
}

// Configs is the matrix covered by the thorough tier.
var Configs = []Config{
	{"default", "", ""},
	{"linux/386", "linux", "386"},
	{"js/wasm", "js", "wasm"},
}

// Program is the loaded, type-checked, SSA-built repository.
type Program struct {
	Dir     string
	Config  Config
	Fset    *token.FileSet
	Pkgs    []*packages.Package // module packages only
	AllPkgs map[string]*packages.Package
	Prog    *ssa.Program
	Lib     *ssa.Package // go.1password.io/spg
	Cmd     *ssa.Package // go.1password.io/spg/cmd/opgen (may be nil)
	LibPkg  *packages.Package
	CmdPkg  *packages.Package

	cg       *callgraph.Graph
	allFuncs map[*ssa.Function]bool
	Files    []string
	NFuncs   int
	// Normalised: this program is the helper-inlined normal form (positions refer to regenerated source)
	Normalised bool
	// Sources: the overlay this program was loaded with (file name -> text); files not in it are as on disk
	Sources map[string][]byte
	// Canonicalised: string-emptiness tests were rewritten to the len form before type checking (canon.go)
	Canonicalised bool
	Inlined    []string
}

// Load loads dir/... with syntax, types and SSA.
func Load(dir string, cfg Config) (*Program, error) { return LoadOverlay(dir, cfg, nil) }

// LoadOverlay is Load with replacement contents for some files.
func LoadOverlay(dir string, cfg Config, overlay map[string][]byte) (*Program, error) {
	if os.Getenv("SPG_NOCANON") == "" {
		if co := canonOverlay(dir, overlay); co != nil {
			if p, err := loadOverlay(dir, cfg, co); err == nil {
				p.Normalised = overlay != nil
				p.Canonicalised = true
				return p, nil
			}
			// the canonicalised text does not type-check: analyse the program as written
		}
	}
	return loadOverlay(dir, cfg, overlay)
}

func loadOverlay(dir string, cfg Config, overlay map[string][]byte) (*Program, error) {
	env := append(os.Environ(),
		"GOFLAGS=-mod=mod", "GOPROXY=off", "GOSUMDB=off", "GOTOOLCHAIN=local", "GOWORK=off",
		"CGO_ENABLED=0")
	if cfg.GOOS != "" {
		env = append(env, "GOOS="+cfg.GOOS)
	}
	if cfg.GOARCH != "" {
		env = append(env, "GOARCH="+cfg.GOARCH)
	}
	pc := &packages.Config{
		Mode:    packages.LoadAllSyntax,
		Dir:     dir,
		Env:     env,
		Tests:   false,
		Overlay: overlay,
	}
	pkgs, err := packages.Load(pc, "./...")
	if err != nil {
		return nil, fmt.Errorf("packages.Load: %v", err)
	}
	if len(pkgs) == 0 {
		return nil, fmt.Errorf("no packages loaded from %s", dir)
	}
	var errs []string
	all := map[string]*packages.Package{}
	packages.Visit(pkgs, nil, func(p *packages.Package) {
		all[p.PkgPath] = p
		for _, e := range p.Errors {
			errs = append(errs, e.Error())
		}
	})
	if len(errs) > 0 {
		return nil, fmt.Errorf("type/load errors: %s", strings.Join(errs, "; "))
	}
	prog, _ := ssautil.AllPackages(pkgs, ssa.InstantiateGenerics)
	prog.Build()

	p := &Program{Dir: dir, Config: cfg, Fset: pkgs[0].Fset, AllPkgs: all, Prog: prog, Normalised: overlay != nil, Sources: overlay}
	for _, pk := range pkgs {
		if pk.PkgPath == ModulePath || strings.HasPrefix(pk.PkgPath, ModulePath+"/") {
			p.Pkgs = append(p.Pkgs, pk)
			for _, f := range pk.GoFiles {
				p.Files = append(p.Files, f)
			}
		}
		switch pk.PkgPath {
		case ModulePath:
			p.LibPkg = pk
			p.Lib = prog.Package(pk.Types)
		case CmdPath:
			p.CmdPkg = pk
			p.Cmd = prog.Package(pk.Types)
		}
	}
	sort.Strings(p.Files)
	if p.Lib == nil {
		return nil, fmt.Errorf("package %s not found under %s", ModulePath, dir)
	}
	p.allFuncs = ssautil.AllFunctions(prog)
	p.NFuncs = len(p.allFuncs)
	return p, nil
}

// CallGraph returns the (lazily built) VTA call graph.
func (p *Program) CallGraph() *callgraph.Graph {
	if p.cg == nil {
		p.cg = vta.CallGraph(p.allFuncs, cha.CallGraph(p.Prog))
	}
	return p.cg
}

// InModule reports whether fn belongs to the analysed module (including
// anonymous functions and synthetic wrappers of module methods).
func (p *Program) InModule(fn *ssa.Function) bool {
	if fn == nil {
		return false
	}
	for fn.Parent() != nil {
		fn = fn.Parent()
	}
	if fn.Pkg != nil {
		return isModulePath(fn.Pkg.Pkg.Path())
	}
	// synthetic wrappers / bound methods: look at the object's package
	if o := fn.Object(); o != nil && o.Pkg() != nil {
		return isModulePath(o.Pkg().Path())
	}
	return false
}

// InLib reports whether fn belongs to package spg itself.
func (p *Program) InLib(fn *ssa.Function) bool {
	if fn == nil {
		return false
	}
	for fn.Parent() != nil {
		fn = fn.Parent()
	}
	if fn.Pkg != nil {
		return fn.Pkg.Pkg.Path() == ModulePath
	}
	if o := fn.Object(); o != nil && o.Pkg() != nil {
		return o.Pkg().Path() == ModulePath
	}
	return false
}

func isModulePath(path string) bool {
	return path == ModulePath || strings.HasPrefix(path, ModulePath+"/")
}

// ModuleFuncs returns every source function (with a body) of the module,
// including anonymous functions, sorted by position.
func (p *Program) ModuleFuncs() []*ssa.Function {
	var out []*ssa.Function
	for fn := range p.allFuncs {
		if fn.Blocks == nil || fn.Synthetic != "" && !strings.HasPrefix(fn.Synthetic, "package initializer") {
			continue
		}
		if p.InModule(fn) {
			out = append(out, fn)
		}
	}
	sort.Slice(out, func(i, j int) bool {
		pi, pj := p.Fset.Position(out[i].Pos()), p.Fset.Position(out[j].Pos())
		if pi.Filename != pj.Filename {
			return pi.Filename < pj.Filename
		}
		if pi.Offset != pj.Offset {
			return pi.Offset < pj.Offset
		}
		return out[i].String() < out[j].String()
	})
	return out
}

// LibFuncs returns the source functions of package spg.
func (p *Program) LibFuncs() []*ssa.Function {
	var out []*ssa.Function
	for _, fn := range p.ModuleFuncs() {
		if p.InLib(fn) {
			out = append(out, fn)
		}
	}
	return out
}

// Func looks up a package-level function of the library by name.
func (p *Program) Func(name string) *ssa.Function {
	return p.Lib.Func(name)
}

// Method looks up method name on named type tname of the library (value or
// pointer receiver, whichever declares it).
func (p *Program) Method(tname, name string) *ssa.Function {
	return methodOf(p.Prog, p.Lib, tname, name)
}

// CmdFunc looks up a package-level function of cmd/opgen.
func (p *Program) CmdFunc(name string) *ssa.Function {
	if p.Cmd == nil {
		return nil
	}
	return p.Cmd.Func(name)
}

func methodOf(prog *ssa.Program, pkg *ssa.Package, tname, name string) *ssa.Function {
	obj := pkg.Pkg.Scope().Lookup(tname)
	if obj == nil {
		return nil
	}
	tn, ok := obj.(*types.TypeName)
	if !ok {
		return nil
	}
	named, ok := tn.Type().(*types.Named)
	if !ok {
		return nil
	}
	for i := 0; i < named.NumMethods(); i++ {
		m := named.Method(i)
		if m.Name() == name {
			return prog.FuncValue(m)
		}
	}
	return nil
}

// Pos renders a position relative to the repository root.
func (p *Program) Pos(pos token.Pos) string {
	if !pos.IsValid() {
		return "-"
	}
	ps := p.Fset.Position(pos)
	fn := ps.Filename
	if rel := strings.TrimPrefix(fn, p.Dir+"/"); rel != fn {
		fn = rel
	}
	return fmt.Sprintf("%s:%d", fn, ps.Line)
}

// FuncPos renders the position of an instruction, falling back to its function.
func (p *Program) InstrPos(in ssa.Instruction) string {
	if in.Pos().IsValid() {
		return p.Pos(in.Pos())
	}
	// fall back to closest positioned instruction in the block, then the function
	if b := in.Block(); b != nil {
		for _, o := range b.Instrs {
			if o.Pos().IsValid() {
				return p.Pos(o.Pos()) + "~"
			}
		}
	}
	if in.Parent() != nil {
		return p.Pos(in.Parent().Pos()) + "~"
	}
	return "-"
}

// FuncName renders a stable name for a function.
func FuncName(fn *ssa.Function) string {
	if fn == nil {
		return "<nil>"
	}
	s := fn.String()
	s = strings.ReplaceAll(s, ModulePath+"/cmd/opgen", "opgen")
	s = strings.ReplaceAll(s, ModulePath, "spg")
	return s
}

// SyntaxFiles returns the parsed files of the library package.
func (p *Program) LibSyntax() []*ast.File { return p.LibPkg.Syntax }
