package core

import (
	"go/ast"
	"go/parser"
	"go/token"
)

func parseExpr(s string) (ast.Expr, error) { return parser.ParseExpr(s) }

func parseFile(src string) (*ast.File, error) {
	return parser.ParseFile(token.NewFileSet(), "x.go", src, 0)
}
