package core

import (
	"strings"
	"go/constant"
	"go/token"
	"go/types"

	"golang.org/x/tools/go/ssa"
)

// InitVal describes the value stored into a package-level variable by the
// package initialiser, as far as it is a literal.
type InitVal struct {
	Global *ssa.Global
	Store  *ssa.Store
	Value  ssa.Value
	// one of:
	Const   *ssa.Const
	Map     []MapEntry           // map literal with constant keys
	Strings []string             // []string literal
	Struct  map[string]ssa.Value // struct literal: field name -> stored value
	Call    *ssa.Call            // initialised by a call
	Func    *ssa.Function        // initialised by a function literal / function value
	NStores int                  // number of stores to the global in init (should be 1)
}

// MapEntry is one key/value of a map literal.
type MapEntry struct {
	Key   ssa.Value
	Value ssa.Value
	Pos   token.Pos
}

// PackageInit returns the init function of pkg.
func PackageInit(pkg *ssa.Package) *ssa.Function { return pkg.Func("init") }

// GlobalInits extracts the literal initialisers of pkg's package-level variables.
func GlobalInits(pkg *ssa.Package) map[string]*InitVal {
	out := map[string]*InitVal{}
	init := PackageInit(pkg)
	if init == nil {
		return out
	}
	// the variable initialisers, then the bodies of the package's own init functions (in source order):
	// a variable declared without a value and assigned once in an init function is initialised there
	fns := []*ssa.Function{init}
	for _, c := range Calls(init) {
		if g := StaticCallee(c); g != nil && g.Pkg == pkg && strings.HasPrefix(g.Name(), "init#") {
			fns = append(fns, g)
		}
	}
	scan := func(in ssa.Instruction) {
		st, ok := in.(*ssa.Store)
		if !ok {
			return
		}
		g, ok := st.Addr.(*ssa.Global)
		if !ok {
			// field-wise initialisation of a struct-typed global
			if fa, isFA := st.Addr.(*ssa.FieldAddr); isFA {
				if fg, isG := fa.X.(*ssa.Global); isG && fg.Pkg == pkg {
					iv := out[fg.Name()]
					if iv == nil {
						iv = &InitVal{Global: fg, NStores: 1}
						out[fg.Name()] = iv
					}
					if iv.Struct == nil {
						iv.Struct = map[string]ssa.Value{}
					}
					iv.Store = st
					if _, dup := iv.Struct[FieldName(fa)]; dup {
						iv.Struct[FieldName(fa)] = nil
					} else {
						iv.Struct[FieldName(fa)] = st.Val
					}
				}
			}
			return
		}
		if g.Pkg != pkg {
			return
		}
		iv := out[g.Name()]
		if iv == nil {
			iv = &InitVal{Global: g}
			out[g.Name()] = iv
		}
		iv.NStores++
		iv.Store = st
		iv.Value = st.Val
		classifyInit(iv, st.Val)
	}
	for _, f := range fns {
		Instrs(f, scan)
	}
	return out
}

func classifyInit(iv *InitVal, v ssa.Value) {
	v = StripType(v)
	switch x := v.(type) {
	case *ssa.Const:
		iv.Const = x
	case *ssa.MakeMap:
		iv.Map = MapLiteral(x)
	case *ssa.Slice:
		if al, ok := x.X.(*ssa.Alloc); ok {
			if strs, ok := StringArrayLiteral(al); ok {
				iv.Strings = strs
			}
		}
	case *ssa.Call:
		iv.Call = x
	case *ssa.Function:
		iv.Func = x
	case *ssa.MakeClosure:
		if f, ok := x.Fn.(*ssa.Function); ok {
			iv.Func = f
		}
	case *ssa.UnOp:
		if x.Op == token.MUL {
			if al, ok := x.X.(*ssa.Alloc); ok {
				iv.Struct = StructLiteral(al)
			}
		}
	}
}

// MapLiteral returns the entries written by MapUpdate instructions on mk.
func MapLiteral(mk *ssa.MakeMap) []MapEntry {
	var out []MapEntry
	for _, ref := range Referrers(mk) {
		if mu, ok := ref.(*ssa.MapUpdate); ok && mu.Map == mk {
			out = append(out, MapEntry{mu.Key, mu.Value, mu.Pos()})
		}
	}
	return out
}

// StringArrayLiteral returns the constant strings stored into the elements of a
// local array (a []string composite literal), in index order.
func StringArrayLiteral(al *ssa.Alloc) ([]string, bool) {
	at, ok := al.Type().Underlying().(*types.Pointer).Elem().Underlying().(*types.Array)
	if !ok {
		return nil, false
	}
	out := make([]string, at.Len())
	set := make([]bool, at.Len())
	for _, ref := range Referrers(al) {
		ia, ok := ref.(*ssa.IndexAddr)
		if !ok {
			continue
		}
		idx, ok := ConstInt(ia.Index)
		if !ok || idx < 0 || idx >= at.Len() {
			return nil, false
		}
		for _, rr := range Referrers(ia) {
			st, ok := rr.(*ssa.Store)
			if !ok || st.Addr != ia {
				continue
			}
			s, ok := ConstString(st.Val)
			if !ok {
				return nil, false
			}
			if set[idx] {
				return nil, false
			}
			out[idx], set[idx] = s, true
		}
	}
	for _, b := range set {
		if !b {
			return nil, false
		}
	}
	return out, true
}

// StructLiteral returns the values stored into the fields of a local struct
// (composite literal): field name -> value. Fields stored twice map to nil.
func StructLiteral(al *ssa.Alloc) map[string]ssa.Value {
	out := map[string]ssa.Value{}
	for _, ref := range Referrers(al) {
		fa, ok := ref.(*ssa.FieldAddr)
		if !ok {
			continue
		}
		name := FieldName(fa)
		for _, rr := range Referrers(fa) {
			if st, ok := rr.(*ssa.Store); ok && st.Addr == fa {
				if _, dup := out[name]; dup {
					out[name] = nil
				} else {
					out[name] = st.Val
				}
			}
		}
	}
	return out
}

// ConstOf looks up a package-level constant by name and returns its value.
func ConstOf(pkg *types.Package, name string) (constant.Value, types.Type, bool) {
	obj := pkg.Scope().Lookup(name)
	c, ok := obj.(*types.Const)
	if !ok {
		return nil, nil, false
	}
	return c.Val(), c.Type(), true
}

// ConstsOfType lists the package-level constants of the named type.
func ConstsOfType(pkg *types.Package, tname string) map[string]constant.Value {
	out := map[string]constant.Value{}
	for _, n := range pkg.Scope().Names() {
		c, ok := pkg.Scope().Lookup(n).(*types.Const)
		if !ok {
			continue
		}
		if nt, ok := c.Type().(*types.Named); ok && nt.Obj().Name() == tname && nt.Obj().Pkg() == pkg {
			out[n] = c.Val()
		}
	}
	return out
}
