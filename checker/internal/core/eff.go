package core

import (
	"fmt"
	"go/token"
	"go/types"
	"sort"
	"strings"
	"sync"

	"golang.org/x/tools/go/ssa"
)

// EFF: write-effect and ownership analysis.
//
// Every instruction that modifies memory (Store, MapUpdate, delete, copy,
// append into a non-fresh base, in-place mutators of foreign types) is mapped
// to the root that owns the modified memory: a local variable or an object
// made fresh in the same call (harmless), memory reachable from a parameter or
// receiver (caller-owned), a package-level variable, a captured variable of a
// closure, or unknown. Per-function summaries of the non-local effects are
// propagated over the VTA call graph to a fixpoint; at a call site a callee's
// effect on its parameter j is re-rooted at the roots of the actual argument.

// RootKind classifies the owner of a piece of memory.
type RootKind int

const (
	RLocal RootKind = iota
	RFresh
	RParam
	RGlobal
	RFreeVar
	RUnknown
)

func (k RootKind) String() string {
	return [...]string{"local", "fresh", "param", "global", "freevar", "unknown"}[k]
}

// Root is an owner plus an access path below it.
type Root struct {
	Kind RootKind
	Idx  int    // parameter index for RParam
	Name string // global / freevar / parameter name, or reason for unknown
	Path string
	Fn   *ssa.Function // RFreeVar: the closure that captured the variable
}

func (r Root) String() string {
	switch r.Kind {
	case RParam:
		return fmt.Sprintf("param#%d(%s)%s", r.Idx, r.Name, r.Path)
	case RGlobal, RFreeVar:
		return r.Kind.String() + " " + r.Name + r.Path
	case RUnknown:
		return "unknown(" + r.Name + ")" + r.Path
	}
	return r.Kind.String() + r.Path
}

func (r Root) with(path string) Root {
	r.Path += path
	if len(r.Path) > 60 {
		r.Path = r.Path[:60]
	}
	return r
}

func (r Root) key() string { return fmt.Sprintf("%d|%d|%s|%s", r.Kind, r.Idx, r.Name, r.Path) }

// Effect is one (possibly inherited) write.
type Effect struct {
	Root  Root
	What  string          // description of the writing construct
	Instr ssa.Instruction // the instruction in the function being summarised (store or call site)
	Via   string          // call chain for inherited effects
}

// Eff holds the analysis state for a program.
type Eff struct {
	P       *Program
	Summary map[*ssa.Function][]Effect // non-local effects of each module function
	Direct  map[*ssa.Function][]Effect // all direct writes (including local/fresh), for inventories
	fresh   map[*ssa.Function]int      // 0 unknown, 1 returns fresh, 2 not
	// fieldWrites: stores a function makes directly into a field of the pointee
	// of a pointer parameter (local object of the caller), with the roots of the
	// stored value when it is a reference
	fieldWrites map[*ssa.Function][]fieldWrite
	Unknown     map[*ssa.Function][]string // calls whose effects are not modelled
}

var (
	effCache = map[*Program]*Eff{}
	effMu    sync.Mutex
)

// GetEff computes (once) the effect summaries of the program.
func GetEff(p *Program) *Eff {
	effMu.Lock()
	e0, ok := effCache[p]
	effMu.Unlock()
	if ok {
		return e0
	}
	e := &Eff{P: p, Summary: map[*ssa.Function][]Effect{}, Direct: map[*ssa.Function][]Effect{},
		fresh: map[*ssa.Function]int{}, Unknown: map[*ssa.Function][]string{},
		fieldWrites: map[*ssa.Function][]fieldWrite{}}
	funcs := p.ModuleFuncs()
	// returns-fresh fixpoint (optimistic start, iterate down)
	for _, fn := range funcs {
		e.fresh[fn] = 1
	}
	for changed := true; changed; {
		changed = false
		for _, fn := range funcs {
			if e.fresh[fn] == 1 && !e.computeReturnsFresh(fn) {
				e.fresh[fn] = 2
				changed = true
			}
		}
	}
	e.computeFieldWrites(funcs)
	for iter := 0; iter < 12; iter++ {
		changed := false
		for _, fn := range funcs {
			effs, direct, unk := e.effectsOf(fn)
			if len(effs) != len(e.Summary[fn]) {
				changed = true
			}
			e.Summary[fn] = effs
			e.Direct[fn] = direct
			e.Unknown[fn] = unk
		}
		if !changed {
			break
		}
	}
	effMu.Lock()
	effCache[p] = e
	effMu.Unlock()
	return e
}

// computeFieldWrites records, per function, the fields of pointer-parameter
// pointees it (transitively) stores into.
func (e *Eff) computeFieldWrites(funcs []*ssa.Function) {
	has := func(f *ssa.Function, w fieldWrite) bool {
		for _, x := range e.fieldWrites[f] {
			if x == w {
				return true
			}
		}
		return false
	}
	for changed := true; changed; {
		changed = false
		for _, fn := range funcs {
			for i, prm := range fn.Params {
				if !isParamPtr(prm) {
					continue
				}
				for _, ref := range Referrers(prm) {
					switch r := ref.(type) {
					case *ssa.FieldAddr:
						for _, rr := range Referrers(r) {
							if st, ok := rr.(*ssa.Store); ok && st.Addr == r {
								w := fieldWrite{i, FieldName(r)}
								if !has(fn, w) {
									e.fieldWrites[fn] = append(e.fieldWrites[fn], w)
									changed = true
								}
							}
						}
					case *ssa.Store:
						if r.Addr == prm {
							w := fieldWrite{i, ""}
							if !has(fn, w) {
								e.fieldWrites[fn] = append(e.fieldWrites[fn], w)
								changed = true
							}
						}
					case ssa.CallInstruction:
						for j, a := range r.Common().Args {
							if a != ssa.Value(prm) {
								continue
							}
							for _, g := range e.P.Callees(r) {
								for _, gw := range e.fieldWrites[g] {
									if gw.idx == j {
										w := fieldWrite{i, gw.field}
										if !has(fn, w) {
											e.fieldWrites[fn] = append(e.fieldWrites[fn], w)
											changed = true
										}
									}
								}
							}
						}
					}
				}
			}
		}
	}
}

type fieldWrite struct {
	idx   int
	field string
}

// ReturnsFresh reports whether every reference returned by fn is fresh memory.
func (e *Eff) ReturnsFresh(fn *ssa.Function) bool { return e.fresh[fn] == 1 }

func (e *Eff) computeReturnsFresh(fn *ssa.Function) bool {
	for _, ret := range Returns(fn) {
		for _, v := range ret.Results {
			if !isRefType(v.Type()) {
				continue
			}
			for _, r := range e.MemRoots(v) {
				if r.Kind != RFresh && r.Kind != RLocal {
					return false
				}
			}
		}
	}
	return true
}

func isRefType(t types.Type) bool {
	switch u := t.Underlying().(type) {
	case *types.Pointer, *types.Slice, *types.Map, *types.Chan, *types.Interface, *types.Signature:
		return true
	case *types.Struct:
		for i := 0; i < u.NumFields(); i++ {
			if isRefType(u.Field(i).Type()) {
				return true
			}
		}
	case *types.Array:
		return isRefType(u.Elem())
	case *types.Tuple:
		for i := 0; i < u.Len(); i++ {
			if isRefType(u.At(i).Type()) {
				return true
			}
		}
	}
	return false
}

// externalFresh lists non-module callees whose reference results are new memory.
var externalFresh = map[string]bool{
	"strings.Split": true, "strings.Fields": true, "strings.SplitN": true, "strings.Join": true, "strings.Title": true,
	"strings.Replace": true, "strings.ToLower": true, "strings.ToUpper": true, "strings.Repeat": true,
	"fmt.Sprintf": true, "fmt.Errorf": true, "fmt.Sprint": true, "errors.New": true,
	"github.com/deckarep/golang-set.NewSet": true, "github.com/deckarep/golang-set.NewSetWith": true,
	"github.com/deckarep/golang-set.NewSetFromSlice": true, "github.com/deckarep/golang-set.NewThreadUnsafeSet": true,
	"math/big.NewInt": true, "math/big.NewFloat": true, "io/ioutil.ReadFile": true, "os.ReadFile": true,
	"flag.NewFlagSet": true,
}

const setIface = "github.com/deckarep/golang-set.Set"

// setFreshMethods are golang-set methods returning a new object.
var setFreshMethods = map[string]bool{"Difference": true, "Union": true, "Intersect": true, "SymmetricDifference": true,
	"Clone": true, "PowerSet": true, "CartesianProduct": true, "Iter": true, "Iterator": true, "ToSlice": true, "String": true}

// setMutators are golang-set methods that modify the receiver.
var setMutators = map[string]bool{"Add": true, "Remove": true, "Clear": true, "Pop": true}

// MemRoots returns the possible owners of the memory referenced by v.
func (e *Eff) MemRoots(v ssa.Value) []Root {
	out := map[string]Root{}
	e.memRoots(v, "", out, map[ssa.Value]bool{})
	var keys []string
	for k := range out {
		keys = append(keys, k)
	}
	sort.Strings(keys)
	var res []Root
	for _, k := range keys {
		res = append(res, out[k])
	}
	return res
}

func add(out map[string]Root, r Root) { out[r.key()] = r }

func (e *Eff) memRoots(v ssa.Value, suffix string, out map[string]Root, seen map[ssa.Value]bool) {
	if v == nil {
		return
	}
	if seen[v] {
		return
	}
	seen[v] = true
	defer delete(seen, v)
	switch x := v.(type) {
	case *ssa.Const:
		add(out, Root{Kind: RFresh}.with(suffix)) // nil / constants own nothing
	case *ssa.Alloc:
		if x.Heap {
			add(out, Root{Kind: RFresh}.with(suffix))
		} else {
			add(out, Root{Kind: RLocal}.with(suffix))
		}
	case *ssa.MakeSlice, *ssa.MakeMap, *ssa.MakeChan, *ssa.MakeClosure, *ssa.Function:
		add(out, Root{Kind: RFresh}.with(suffix))
	case *ssa.Global:
		add(out, Root{Kind: RGlobal, Name: x.Name()}.with(suffix))
	case *ssa.Parameter:
		idx := -1
		for i, p := range x.Parent().Params {
			if p == x {
				idx = i
			}
		}
		add(out, Root{Kind: RParam, Idx: idx, Name: x.Name()}.with(suffix))
	case *ssa.FreeVar:
		add(out, Root{Kind: RFreeVar, Name: x.Name(), Fn: x.Parent()}.with(suffix))
	case *ssa.ChangeType:
		e.memRoots(x.X, suffix, out, seen)
	case *ssa.ChangeInterface:
		e.memRoots(x.X, suffix, out, seen)
	case *ssa.MakeInterface:
		e.memRoots(x.X, suffix, out, seen)
	case *ssa.Convert:
		if isRefType(x.X.Type()) {
			e.memRoots(x.X, suffix, out, seen)
		} else {
			add(out, Root{Kind: RFresh}.with(suffix)) // string<->[]byte etc. copy
		}
	case *ssa.TypeAssert:
		e.memRoots(x.X, suffix, out, seen)
	case *ssa.Slice:
		e.memRoots(x.X, suffix, out, seen)
	case *ssa.Phi:
		for _, ed := range x.Edges {
			e.memRoots(ed, suffix, out, seen)
		}
	case *ssa.Extract:
		e.memRoots(x.Tuple, suffix, out, seen)
	case *ssa.Field:
		st, _ := x.X.Type().Underlying().(*types.Struct)
		name := "?"
		if st != nil {
			name = st.Field(x.Field).Name()
		}
		e.memRoots(x.X, "."+name+suffix, out, seen)
	case *ssa.FieldAddr:
		e.addrRoots(x, suffix, out, seen)
	case *ssa.IndexAddr:
		e.addrRoots(x, suffix, out, seen)
	case *ssa.Index:
		e.memRoots(x.X, "[*]"+suffix, out, seen)
	case *ssa.Lookup:
		e.memRoots(x.X, "[*]"+suffix, out, seen)
	case *ssa.Next:
		if rg, ok := x.Iter.(*ssa.Range); ok {
			e.memRoots(rg.X, "[*]"+suffix, out, seen)
		}
	case *ssa.UnOp:
		switch x.Op {
		case token.MUL:
			e.loadRoots(x, suffix, out, seen)
		case token.ARROW:
			e.memRoots(x.X, "<-"+suffix, out, seen)
		default:
			add(out, Root{Kind: RFresh}.with(suffix))
		}
	case *ssa.BinOp:
		add(out, Root{Kind: RFresh}.with(suffix)) // string concatenation etc.
	case *ssa.Call:
		e.callRoots(x, suffix, out, seen)
	default:
		add(out, Root{Kind: RUnknown, Name: fmt.Sprintf("%T", v)}.with(suffix))
	}
}

// addrRoots: the owner of the memory an address points into.
func (e *Eff) addrRoots(a ssa.Value, suffix string, out map[string]Root, seen map[ssa.Value]bool) {
	switch x := a.(type) {
	case *ssa.FieldAddr:
		e.memRoots(x.X, derefStep(x.X)+"."+FieldName(x)+suffix, out, seen)
	case *ssa.IndexAddr:
		if _, isPtr := x.X.Type().Underlying().(*types.Pointer); isPtr {
			// element of an array addressed through a pointer: same object as the array
			e.memRoots(x.X, derefStep(x.X)+"[i]"+suffix, out, seen)
		} else {
			e.memRoots(x.X, "[*]"+suffix, out, seen)
		}
	default:
		e.memRoots(a, derefStep(a)+suffix, out, seen)
	}
}

// derefStep is the path step for going from pointer value v to its pointee:
// none when v denotes the object itself (a local or heap Alloc, a package
// variable, the address of a field/element), a crossing "->" when v is a
// pointer stored somewhere (parameter, loaded field, call result, phi).
func derefStep(v ssa.Value) string {
	switch v.(type) {
	case *ssa.Alloc, *ssa.Global, *ssa.FieldAddr, *ssa.IndexAddr:
		return ""
	}
	return "->"
}

// Crossings are the path steps that leave an object for memory it references.
var crossings = []string{"->", "[*]", "[k]", "[cap]", ".{elems}", ".{value}", "<-"}

// SplitCrossing splits path at its first crossing step.
func SplitCrossing(path string) (pre, marker, post string, ok bool) {
	best := -1
	for _, m := range crossings {
		if i := strings.Index(path, m); i >= 0 && (best < 0 || i < best) {
			best, marker = i, m
		}
	}
	if best < 0 {
		return path, "", "", false
	}
	return path[:best], marker, path[best+len(marker):], true
}

// Shared reports whether an effect root denotes memory that outlives the call
// and is visible to others.
func (r Root) Shared() bool {
	switch r.Kind {
	case RGlobal, RFreeVar, RUnknown:
		return true
	case RParam:
		_, _, _, ok := SplitCrossing(r.Path)
		return ok
	}
	return false
}

// loadRoots: roots of a reference value loaded from memory (*addr).
func (e *Eff) loadRoots(ld *ssa.UnOp, suffix string, out map[string]Root, seen map[ssa.Value]bool) {
	addr := ld.X
	switch a := addr.(type) {
	case *ssa.FieldAddr:
		switch a.X.(type) {
		case *ssa.Alloc, *ssa.Parameter:
			e.fieldRoots(a.X, FieldName(a), ld, suffix, out, seen)
		default:
			e.addrRoots(addr, suffix, out, seen)
		}
	case *ssa.Alloc:
		e.fieldRoots(a, "", ld, suffix, out, seen)
	case *ssa.Global:
		add(out, Root{Kind: RGlobal, Name: a.Name()}.with(suffix))
	case *ssa.FreeVar:
		// captured variable: its content belongs to the enclosing function's variable
		add(out, Root{Kind: RFreeVar, Name: a.Name(), Fn: a.Parent()}.with(suffix))
	default:
		e.addrRoots(addr, suffix, out, seen)
	}
}

// fieldRoots: roots of the value held, at instruction at, by field `field` of
// the object `base` (a local Alloc or a pointer parameter); field == "" means
// the whole object. Flow-insensitive union over the stores defining it, with
// one refinement: the initial contents / whole-object stores are dropped when
// a store to the field dominates `at` after them.
func (e *Eff) fieldRoots(base ssa.Value, field string, at ssa.Instruction, suffix string, out map[string]Root, seen map[ssa.Value]bool) {
	var defs []fieldDef
	for _, ref := range Referrers(base) {
		switch r := ref.(type) {
		case *ssa.Store:
			if r.Addr == base {
				defs = append(defs, fieldDef{r, true})
			}
		case *ssa.FieldAddr:
			if r.X == base && field != "" && FieldName(r) == field {
				for _, rr := range Referrers(r) {
					if st, ok := rr.(*ssa.Store); ok && st.Addr == r {
						defs = append(defs, fieldDef{st, false})
					}
				}
			}
		}
	}
	dominated := false
	for _, d := range defs {
		if !d.whole && instrDominates(d.st, at) {
			dominated = true
		}
	}
	path := ""
	if field != "" {
		path = "." + field
	}
	contributed := false
	for _, d := range defs {
		if d.whole {
			if dominated && anyFieldStoreAfter(d.st, defs2stores(defs), at) {
				continue // overwritten before `at` on every path
			}
			e.memRoots(d.st.Val, path+suffix, out, seen)
			contributed = true
		} else {
			e.memRoots(d.st.Val, suffix, out, seen)
			contributed = true
		}
	}
	if isParamPtr(base) {
		if !dominated {
			// initial contents belong to the caller
			e.memRoots(base, "->"+path+suffix, out, seen)
		}
		return
	}
	if al, ok := base.(*ssa.Alloc); ok {
		// a callee that received the address may have stored into the field
		if w := e.calleeMayWriteField(al, field); w != "" {
			add(out, Root{Kind: RUnknown, Name: "field written by callee " + w}.with(path+suffix))
		} else if !contributed {
			add(out, Root{Kind: RFresh}.with(suffix)) // zero value
		}
	}
}

// calleeMayWriteField reports a callee that receives the address of al and
// whose summary stores into al's field (non-crossing effect path ".field").
func (e *Eff) calleeMayWriteField(al *ssa.Alloc, field string) string {
	for _, ref := range Referrers(al) {
		c, ok := ref.(ssa.CallInstruction)
		if !ok {
			continue
		}
		for i, a := range c.Common().Args {
			if a != ssa.Value(al) {
				continue
			}
			for _, f := range e.P.Callees(c) {
				if !e.P.InModule(f) {
					return f.String()
				}
				for _, w := range e.fieldWrites[f] {
					if w.idx == i && (field == "" || w.field == field) {
						return FuncName(f)
					}
				}
			}
		}
	}
	return ""
}

type fieldDef struct {
	st    *ssa.Store
	whole bool
}

func defs2stores(defs []fieldDef) []*ssa.Store {
	var out []*ssa.Store
	for _, d := range defs {
		if !d.whole {
			out = append(out, d.st)
		}
	}
	return out
}

// anyFieldStoreAfter: some field store both is dominated by the whole-struct
// store and dominates the load.
func anyFieldStoreAfter(whole *ssa.Store, fieldStores []*ssa.Store, ld ssa.Instruction) bool {
	for _, fs := range fieldStores {
		if instrDominates(whole, fs) && instrDominates(fs, ld) {
			return true
		}
	}
	return false
}

func isParamPtr(v ssa.Value) bool {
	p, ok := v.(*ssa.Parameter)
	if !ok {
		return false
	}
	_, isPtr := p.Type().Underlying().(*types.Pointer)
	return isPtr
}

func allocEscapes(al *ssa.Alloc) bool {
	for _, ref := range Referrers(al) {
		switch r := ref.(type) {
		case *ssa.Call, *ssa.Go, *ssa.Defer, *ssa.MakeClosure, *ssa.Return, *ssa.MakeInterface:
			return true
		case *ssa.Store:
			if r.Val == al {
				return true
			}
		}
	}
	return false
}

// instrDominates reports whether a executes before b on every path to b.
func instrDominates(a, b ssa.Instruction) bool {
	if a.Block() == b.Block() {
		for _, in := range a.Block().Instrs {
			if in == a {
				return true
			}
			if in == b {
				return false
			}
		}
		return false
	}
	return a.Block().Dominates(b.Block())
}

// InstrDominates is the exported form.
func InstrDominates(a, b ssa.Instruction) bool { return instrDominates(a, b) }

func (e *Eff) callRoots(c *ssa.Call, suffix string, out map[string]Root, seen map[ssa.Value]bool) {
	com := c.Common()
	if b, ok := com.Value.(*ssa.Builtin); ok {
		switch b.Name() {
		case "append":
			e.memRoots(com.Args[0], suffix, out, seen)
			add(out, Root{Kind: RFresh}.with(suffix))
		default:
			add(out, Root{Kind: RFresh}.with(suffix))
		}
		return
	}
	if com.IsInvoke() {
		if NamedOf(com.Value.Type()) == setIface && setFreshMethods[com.Method.Name()] {
			add(out, Root{Kind: RFresh}.with(suffix))
			return
		}
		if com.Method.Name() == "Error" || com.Method.Name() == "String" {
			add(out, Root{Kind: RFresh}.with(suffix))
			return
		}
	}
	callees := e.P.Callees(c)
	if len(callees) == 0 {
		add(out, Root{Kind: RUnknown, Name: "result of unresolved call"}.with(suffix))
		return
	}
	for _, f := range callees {
		if e.P.InModule(f) && f.Blocks != nil {
			if e.fresh[f] == 1 {
				add(out, Root{Kind: RFresh}.with(suffix))
				continue
			}
			// not fresh: the result may alias any reference argument or a global
			for _, ret := range Returns(f) {
				for _, rv := range ret.Results {
					if !isRefType(rv.Type()) {
						continue
					}
					for _, r := range e.MemRoots(rv) {
						switch r.Kind {
						case RFresh, RLocal:
							add(out, Root{Kind: RFresh}.with(suffix))
						case RParam:
							if r.Idx >= 0 && r.Idx < len(com.Args) {
								e.memRoots(com.Args[r.Idx], r.Path+suffix, out, seen)
							}
						case RFreeVar:
							add(out, Root{Kind: RUnknown, Name: "captured " + r.Name}.with(suffix))
						default:
							add(out, r.with(suffix))
						}
					}
				}
			}
			continue
		}
		name := f.String()
		if externalFresh[name] || strings.HasPrefix(name, "strings.") || strings.HasPrefix(name, "fmt.") ||
			strings.HasPrefix(name, "math.") || strings.HasPrefix(name, "strconv.") {
			add(out, Root{Kind: RFresh}.with(suffix))
			continue
		}
		if strings.HasPrefix(name, "(*math/big.") {
			// big.Int/Float methods return their receiver
			if len(com.Args) > 0 {
				e.memRoots(com.Args[0], suffix, out, seen)
			}
			continue
		}
		if strings.HasPrefix(name, "(*flag.FlagSet).") || strings.HasPrefix(name, "flag.") {
			add(out, Root{Kind: RFresh}.with(suffix))
			continue
		}
		add(out, Root{Kind: RUnknown, Name: "result of " + name}.with(suffix))
	}
}

// mapParamEffect re-roots a callee effect with path P (relative to the
// callee's parameter) at the actual argument of call site `at`.
func (e *Eff) mapParamEffect(actual ssa.Value, P string, at ssa.Instruction) []Root {
	pre, marker, post, ok := SplitCrossing(P)
	if !ok {
		return nil // write inside the callee's own copy
	}
	out := map[string]Root{}
	seen := map[ssa.Value]bool{}
	firstField := func(p string) (string, string) {
		p = strings.TrimPrefix(p, ".")
		if i := strings.IndexAny(p, ".["); i >= 0 {
			return p[:i], p[i:]
		}
		return p, ""
	}
	a := StripType(actual)
	if pre == "" && marker == "->" {
		// pointer parameter: the pointee is the object the actual points to
		switch obj := a.(type) {
		case *ssa.Alloc:
			pre2, m2, post2, ok2 := SplitCrossing(post)
			if !ok2 {
				if obj.Heap {
					add(out, Root{Kind: RFresh}.with(post))
				} else {
					add(out, Root{Kind: RLocal}.with(post))
				}
				return rootList(out)
			}
			f, rest := firstField(pre2)
			e.fieldRoots(obj, f, at, rest+m2+post2, out, seen)
			return rootList(out)
		case *ssa.FieldAddr, *ssa.IndexAddr, *ssa.Global:
			e.addrRoots(a, post, out, seen)
			return rootList(out)
		}
		e.memRoots(a, P, out, seen)
		return rootList(out)
	}
	if pre != "" {
		// struct passed by value: the effect goes through a reference held in a field of the copy
		if ld, ok := a.(*ssa.UnOp); ok && ld.Op == token.MUL {
			if al, ok := ld.X.(*ssa.Alloc); ok {
				f, rest := firstField(pre)
				e.fieldRoots(al, f, ld, rest+marker+post, out, seen)
				return rootList(out)
			}
		}
	}
	e.memRoots(a, P, out, seen)
	return rootList(out)
}

// externalMutators: non-module callees that modify memory reachable from an
// argument: name -> argument index.
var externalMutators = map[string]int{
	"sort.Strings": 0, "sort.Ints": 0, "sort.Float64s": 0, "sort.Sort": 0, "sort.Stable": 0, "sort.Slice": 0, "sort.SliceStable": 0,
	"math/rand.Shuffle": -1, "io.ReadFull": 1, "crypto/rand.Read": 0, "io.ReadAtLeast": 1,
	"encoding/json.Unmarshal": 1,
}

// externalReadOnly: package prefixes whose functions do not modify their
// reference arguments (other than as listed in externalMutators).
var externalReadOnly = []string{"strings.", "fmt.", "math.", "strconv.", "errors.", "log.", "unicode.", "unicode/utf8.",
	"os.", "io/ioutil.", "flag.", "(*flag.FlagSet).", "(*log.Logger).", "(encoding/binary.", "github.com/deckarep/golang-set.New",
	"math/big.New", "(*strings.Builder).", "(*bytes.Buffer).", "bytes.", "time.", "(time.", "path/filepath.", "sort.SearchStrings", "sort.StringsAreSorted",
	"(*os.File).", "bufio."}

// effectsOf computes the summary of fn from its direct writes and its callees' summaries.
func (e *Eff) effectsOf(fn *ssa.Function) (summary []Effect, direct []Effect, unknown []string) {
	seenKey := map[string]bool{}
	emit := func(roots []Root, what string, in ssa.Instruction, via string) {
		for _, r := range roots {
			ef := Effect{Root: r, What: what, Instr: in, Via: via}
			if via == "" {
				direct = append(direct, ef)
			}
			if !r.Shared() && what != callsParam {
				continue
			}
			k := r.key() + "|" + what + "|" + fmt.Sprint(in.Pos()) + "|" + via
			if seenKey[k] {
				continue
			}
			seenKey[k] = true
			summary = append(summary, ef)
		}
	}
	isInit := fn.Name() == "init" && fn.Synthetic != ""
	for _, b := range fn.Blocks {
		for _, in := range b.Instrs {
			switch x := in.(type) {
			case *ssa.Store:
				if g, ok := x.Addr.(*ssa.Global); ok {
					if isInit {
						continue
					}
					emit([]Root{{Kind: RGlobal, Name: g.Name()}}, "store to package variable", x, "")
					continue
				}
				if al, ok := x.Addr.(*ssa.Alloc); ok {
					_ = al
					continue // assignment to a local variable cell
				}
				if fv, ok := x.Addr.(*ssa.FreeVar); ok {
					emit([]Root{{Kind: RFreeVar, Name: fv.Name(), Fn: fv.Parent()}}, "assignment to captured variable", x, "")
					continue
				}
				out := map[string]Root{}
				e.addrRoots(x.Addr, "", out, map[ssa.Value]bool{})
				if isInit {
					for k, r := range out {
						if r.Kind == RGlobal {
							delete(out, k)
						}
					}
				}
				emit(rootList(out), "store", x, "")
			case *ssa.MapUpdate:
				emit(prefixAll(e.MemRoots(x.Map), "[k]"), "map update", x, "")
			case *ssa.Send:
				// channel send: synchronisation, not a data write
			case ssa.CallInstruction:
				e.callEffects(fn, x, emit, &unknown)
			}
		}
	}
	return
}

func rootList(m map[string]Root) []Root {
	var keys []string
	for k := range m {
		keys = append(keys, k)
	}
	sort.Strings(keys)
	var out []Root
	for _, k := range keys {
		out = append(out, m[k])
	}
	return out
}

func prefixAll(rs []Root, p string) []Root {
	var out []Root
	for _, r := range rs {
		out = append(out, r.with(p))
	}
	return out
}

func (e *Eff) callEffects(fn *ssa.Function, c ssa.CallInstruction, emit func([]Root, string, ssa.Instruction, string), unknown *[]string) {
	com := c.Common()
	if b, ok := com.Value.(*ssa.Builtin); ok {
		switch b.Name() {
		case "delete":
			emit(prefixAll(e.MemRoots(com.Args[0]), "[k]"), "delete from map", c, "")
		case "copy":
			emit(prefixAll(e.MemRoots(com.Args[0]), "[*]"), "copy into slice", c, "")
		case "append":
			// append writes into the spare capacity of its base
			emit(prefixAll(e.MemRoots(com.Args[0]), "[cap]"), "append to non-fresh slice", c, "")
		case "clear":
			emit(prefixAll(e.MemRoots(com.Args[0]), "[*]"), "clear", c, "")
		}
		return
	}
	if com.IsInvoke() {
		if NamedOf(com.Value.Type()) == setIface {
			if setMutators[com.Method.Name()] {
				emit(prefixAll(e.MemRoots(com.Value), ".{elems}"), "set."+com.Method.Name()+" (in-place mutator)", c, "")
			}
			return
		}
		if com.Method.Name() == "Error" || com.Method.Name() == "String" {
			// fallthrough to call-graph callees below (module String methods)
		}
		if com.Method.Name() == "Read" && len(com.Args) == 1 {
			// io.Reader.Read(p): fills p
			emit(prefixAll(e.MemRoots(com.Args[0]), "[*]"), "Reader.Read (fills its buffer)", c, "")
			return
		}
	}
	if pa, isParam := com.Value.(*ssa.Parameter); isParam && !com.IsInvoke() && pa.Parent() == fn {
		// calling a function received as a parameter: what that does is decided at the call
		// sites of fn, where the argument is known (see the "()" case below)
		for i, q := range fn.Params {
			if q == pa {
				emit([]Root{{Kind: RParam, Idx: i, Name: pa.Name(), Path: "()"}}, callsParam, c, "")
			}
		}
		return
	}
	callees := e.P.Callees(c)
	if len(callees) == 0 {
		if !com.IsInvoke() {
			*unknown = append(*unknown, e.P.InstrPos(c)+": unresolved dynamic call "+c.String())
		}
		return
	}
	args := com.Args
	if com.IsInvoke() {
		args = append([]ssa.Value{com.Value}, com.Args...)
	}
	for _, f := range callees {
		if e.P.InModule(f) {
			if f.Blocks == nil {
				continue
			}
			for _, ef := range e.Summary[f] {
				via := FuncName(f)
				if ef.Via != "" {
					via += " -> " + ef.Via
				}
				what := ef.What + " in " + FuncName(ef.Instr.Parent()) + " at " + e.P.InstrPos(ef.Instr)
				if strings.Contains(ef.What, " in ") {
					what = ef.What
				}
				switch ef.Root.Kind {
				case RParam:
					if ef.Root.Idx < 0 || ef.Root.Idx >= len(args) {
						emit([]Root{{Kind: RUnknown, Name: "argument mapping"}}, what, c, via)
						continue
					}
					actual := args[ef.Root.Idx]
					if ef.Root.Path == "()" && ef.What == callsParam {
						e.applyFunctionValue(actual, ef, c, emit, via)
						continue
					}
					emit(e.mapParamEffect(actual, ef.Root.Path, c), what, c, via)
				case RFreeVar:
					// effect on a variable captured by a closure: owned by whoever created the
					// closure. When that is the function being summarised (it made the closure and
					// the effect happens during a call it makes — directly, or through a helper or
					// library function that calls the closure back), the write goes to the variable
					// the closure was bound to here.
					if roots, ok := e.rebindFreeVar(c.Parent(), ef.Root); ok {
						emit(roots, what, c, via)
						continue
					}
					emit([]Root{ef.Root}, what, c, via)
				default:
					emit([]Root{ef.Root}, what, c, via)
				}
			}
			continue
		}
		name := f.String()
		if com.IsInvoke() && (com.Method.Name() == "Error" || com.Method.Name() == "String") {
			continue // Stringer/error methods of foreign types: read-only by convention
		}
		if idx, ok := externalMutators[name]; ok {
			if idx >= 0 && idx < len(args) {
				emit(prefixAll(e.MemRoots(args[idx]), "[*]"), name+" (in-place mutator)", c, "")
			}
			// reading advances the reader: a stateful reader that outlives the call (a buffered
			// reader in a package variable) is shared state; crypto/rand.Reader itself is
			// documented as safe for concurrent use
			if (name == "io.ReadFull" || name == "io.ReadAtLeast") && len(args) > 0 && !isCryptoRandReader(args[0]) {
				emit(prefixAll(e.MemRoots(args[0]), ".{state}"), name+" (advances its reader)", c, "")
			}
			continue
		}
		statefulRecv := false
		for _, pfx := range []string{"(*bufio.Reader).", "(*bufio.Writer).", "(*bufio.Scanner).", "(*bytes.Buffer).", "(*bytes.Reader).", "(*strings.Builder).", "(*strings.Reader)."} {
			if strings.HasPrefix(name, pfx) {
				statefulRecv = true
			}
		}
		if statefulRecv && len(args) > 0 {
			switch {
			case strings.HasSuffix(name, ").String"), strings.HasSuffix(name, ").Len"), strings.HasSuffix(name, ").Cap"), strings.HasSuffix(name, ").Bytes"), strings.HasSuffix(name, ").Size"), strings.HasSuffix(name, ").Buffered"):
			default:
				emit(prefixAll(e.MemRoots(args[0]), ".{state}"), name+" (receiver mutated)", c, "")
			}
			continue
		}
		if strings.HasPrefix(name, "(*math/big.") {
			// receiver is modified by the arithmetic methods that return it
			sig := f.Signature
			if sig.Results().Len() == 1 && sig.Recv() != nil && types.Identical(sig.Results().At(0).Type(), sig.Recv().Type()) && len(args) > 0 {
				emit(prefixAll(e.MemRoots(args[0]), ".{value}"), name+" (receiver mutated)", c, "")
			}
			continue
		}
		ro := false
		for _, p := range externalReadOnly {
			if strings.HasPrefix(name, p) {
				ro = true
			}
		}
		if ro {
			continue
		}
		// unknown external callee: only a concern when it receives references
		hasRef := false
		for _, a := range args {
			if isRefType(a.Type()) {
				if _, isC := a.(*ssa.Const); !isC {
					hasRef = true
				}
			}
		}
		if hasRef {
			*unknown = append(*unknown, e.P.InstrPos(c)+": effects of "+name+" are not modelled")
		}
	}
}

// ResetCaches drops per-program caches (used between control variants).
func ResetCaches() {
	effMu.Lock()
	effCache = map[*Program]*Eff{}
	effMu.Unlock()
}

// Forget drops the caches of one program.
func Forget(p *Program) {
	effMu.Lock()
	delete(effCache, p)
	effMu.Unlock()
}

// rebindFreeVar: root is a variable captured by closure root.Fn; if fn created
// every instance of that closure it can have (all MakeClosure instructions of
// root.Fn are in fn), the root is re-rooted at what fn bound the variable to.
func (e *Eff) rebindFreeVar(fn *ssa.Function, root Root) ([]Root, bool) {
	if root.Fn == nil || fn == nil || root.Fn.Parent() != fn {
		return nil, false
	}
	idx := -1
	for i, fv := range root.Fn.FreeVars {
		if fv.Name() == root.Name {
			idx = i
		}
	}
	if idx < 0 {
		return nil, false
	}
	var out []Root
	n := 0
	Instrs(fn, func(in ssa.Instruction) {
		mc, ok := in.(*ssa.MakeClosure)
		if !ok || mc.Fn != ssa.Value(root.Fn) || idx >= len(mc.Bindings) {
			return
		}
		n++
		b := mc.Bindings[idx]
		// the binding is the address of the captured variable (an Alloc of fn, or fn's own
		// free variable when closures nest)
		switch x := b.(type) {
		case *ssa.Alloc:
			if root.Path == "" {
				// the variable cell itself: a local of this call (even when it lives on the heap)
				out = append(out, Root{Kind: RLocal})
				break
			}
			// something reachable from the variable's content: owned by whatever was stored into it
			stored := 0
			var scan func(g *ssa.Function)
			scan = func(g *ssa.Function) {
				Instrs(g, func(in2 ssa.Instruction) {
					st, isSt := in2.(*ssa.Store)
					if !isSt {
						return
					}
					target := false
					if st.Addr == ssa.Value(x) {
						target = true
					}
					if fv, isFV := st.Addr.(*ssa.FreeVar); isFV && fv.Name() == root.Name && g != fn {
						target = true
					}
					if !target {
						return
					}
					stored++
					for _, r := range e.MemRoots(st.Val) {
						if g != fn && (r.Kind == RLocal || r.Kind == RParam) {
							// stored by a sibling closure from its own frame: give up precision
							out = append(out, Root{Kind: RUnknown, Name: "captured " + root.Name}.with(root.Path))
							continue
						}
						out = append(out, r.with(root.Path))
					}
				})
				for _, a := range g.AnonFuncs {
					scan(a)
				}
			}
			scan(fn)
			if stored == 0 {
				out = append(out, Root{Kind: RFresh}.with(root.Path))
			}
		case *ssa.FreeVar:
			out = append(out, Root{Kind: RFreeVar, Name: x.Name(), Fn: x.Parent()}.with(root.Path))
		default:
			for _, r := range e.MemRoots(b) {
				out = append(out, r.with(root.Path))
			}
		}
	})
	if n == 0 {
		return nil, false
	}
	return out, true
}

// isCryptoRandReader: a load of the package variable crypto/rand.Reader.
func isCryptoRandReader(v ssa.Value) bool {
	for {
		switch x := v.(type) {
		case *ssa.ChangeInterface:
			v = x.X
			continue
		case *ssa.MakeInterface:
			v = x.X
			continue
		}
		break
	}
	ld, ok := v.(*ssa.UnOp)
	if !ok || ld.Op != token.MUL {
		return false
	}
	g, ok := ld.X.(*ssa.Global)
	return ok && g.Pkg != nil && g.Pkg.Pkg.Path() == "crypto/rand" && g.Name() == "Reader"
}

// callsParam marks the higher-order effect "calls the function it was given as
// parameter #i" (Root{RParam, i, "()"}).
const callsParam = "calls its parameter"

// IsHigherOrder reports whether ef is the "calls its parameter" marker (not a write).
func (ef Effect) IsHigherOrder() bool { return ef.What == callsParam && ef.Root.Path == "()" }

// applyFunctionValue resolves a "calls its parameter" effect at a call site c whose
// corresponding argument is v: a closure made here contributes its own summary with
// its captured variables re-rooted at this function's bindings; a named function its
// summary; a parameter of the calling function passes the obligation on; anything
// else falls back to the call graph's callees of the original dynamic call.
func (e *Eff) applyFunctionValue(v ssa.Value, ef Effect, c ssa.CallInstruction, emit func([]Root, string, ssa.Instruction, string), via string) {
	for {
		if ct, ok := v.(*ssa.ChangeType); ok {
			v = ct.X
			continue
		}
		break
	}
	var target *ssa.Function
	switch x := v.(type) {
	case *ssa.MakeClosure:
		target, _ = x.Fn.(*ssa.Function)
	case *ssa.Function:
		target = x
	case *ssa.Parameter:
		if x.Parent() == c.Parent() {
			for i, q := range c.Parent().Params {
				if q == x {
					emit([]Root{{Kind: RParam, Idx: i, Name: x.Name(), Path: "()"}}, callsParam, c, "")
				}
			}
			return
		}
	}
	var targets []*ssa.Function
	if target != nil {
		targets = []*ssa.Function{target}
	} else {
		targets = e.P.Callees(ef.Instr.(ssa.CallInstruction))
	}
	for _, g := range targets {
		if !e.P.InModule(g) || g.Blocks == nil {
			continue
		}
		for _, ge := range e.Summary[g] {
			what := ge.What
			if !strings.Contains(what, " in ") {
				what = ge.What + " in " + FuncName(ge.Instr.Parent()) + " at " + e.P.InstrPos(ge.Instr)
			}
			v2 := via
			if v2 == "" {
				v2 = FuncName(g)
			} else {
				v2 += " -> " + FuncName(g)
			}
			switch ge.Root.Kind {
			case RFreeVar:
				if roots, ok := e.rebindFreeVar(c.Parent(), ge.Root); ok && target != nil {
					emit(roots, what, c, v2)
				} else {
					emit([]Root{ge.Root}, what, c, v2)
				}
			case RParam:
				if ge.IsHigherOrder() {
					continue
				}
				emit([]Root{Root{Kind: RUnknown, Name: "argument of a callback"}.with(ge.Root.Path)}, what, c, v2)
			default:
				emit([]Root{ge.Root}, what, c, v2)
			}
		}
	}
}

// Writes returns the summary of fn without the higher-order markers.
func (e *Eff) Writes(fn *ssa.Function) []Effect {
	var out []Effect
	for _, ef := range e.Summary[fn] {
		if !ef.IsHigherOrder() {
			out = append(out, ef)
		}
	}
	return out
}
