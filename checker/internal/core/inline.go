package core

import (
	"os"
	"strings"
	"bytes"
	"fmt"
	"go/ast"
	"go/constant"
	"go/printer"
	"go/token"
	"go/types"
	"sort"
	"strconv"
	"sync/atomic"

	"golang.org/x/tools/go/ast/astutil"
	"golang.org/x/tools/go/packages"
)

// Helper-inlining normalisation.
//
// A behaviour-preserving "extract function" refactoring moves a loop or a
// block out of the function a rule reads. To keep such edits from upsetting
// shape rules, a check that reports violations on the tree as written is
// re-run on a *normal form* of the same source in which every call of a
// non-anchor helper (an unexported, non-recursive function of the same package
// without defer/go/recover/named results, chosen by the caller through `keep`)
// is expanded in place at the source level. Inline expansion preserves
// semantics:
//
//   x, y := f(a, b)   ==>   var r0 T0; var r1 T1
//                           { p, q := a, b            // parameters bound in one parallel assignment
//                             L: for { <body, `return u, v` rewritten to `r0, r1 = u, v; break L`>; break L } }
//                           x, y := r0, r1
//
// Expression-bodied helpers called inside an expression are substituted when
// their arguments are side-effect free. Anything the inliner is not sure about
// is left as a call. The result is type-checked again; if that fails the
// normal form is discarded and the original verdict stands.

// inlineSeq numbers expansion sites across rounds (labels and temporaries must stay unique).
var inlineSeq int64

type inliner struct {
	opts     NormaliseOpts
	p        *Program
	keep     func(*types.Func) bool
	counter  int
	inlined  map[string]int
	expanded map[*types.Func]int
	bodies   map[*types.Func]*ast.FuncDecl
	pkgOf    map[*types.Func]*packages.Package
	changed  map[*ast.File]bool
	filePkg  map[*ast.File]*packages.Package
}

// NormaliseOverlay returns overlay contents (file name -> source) in which
// eligible helper calls have been expanded, and the list of expanded helpers.
// NormaliseOpts tunes the normal form for the property being decided.
type NormaliseOpts struct {
	// StripRecoverAlways: drop a fail-closed recover wrapper even when a caller swallows the
	// error it produces. Sound for every property that does not distinguish "aborts" from
	// "returns an error that a caller may ignore" — all but the fail-closed property C09.
	StripRecoverAlways bool
}

func NormaliseOverlay(p *Program, keep func(*types.Func) bool, opts NormaliseOpts) (map[string][]byte, []string) {
	in := &inliner{p: p, keep: keep, opts: opts, inlined: map[string]int{}, expanded: map[*types.Func]int{}, bodies: map[*types.Func]*ast.FuncDecl{},
		pkgOf: map[*types.Func]*packages.Package{}, changed: map[*ast.File]bool{}, filePkg: map[*ast.File]*packages.Package{}}
	for _, pk := range p.Pkgs {
		for _, f := range pk.Syntax {
			in.filePkg[f] = pk
			for _, d := range f.Decls {
				fd, ok := d.(*ast.FuncDecl)
				if !ok || fd.Body == nil {
					continue
				}
				if obj, ok := pk.TypesInfo.Defs[fd.Name].(*types.Func); ok {
					in.bodies[obj] = fd
					in.pkgOf[obj] = pk
				}
			}
		}
	}
	sroa := false
	for _, pk := range p.Pkgs {
		for _, f := range pk.Syntax {
			for _, d := range f.Decls {
				if fd, ok := d.(*ast.FuncDecl); ok && fd.Body != nil && (in.sroaFunc(pk, f, fd) || in.splitCases(pk, f, fd)) {
					sroa = true
				}
			}
		}
	}
	for _, pk := range p.Pkgs {
		if sroa {
			break // the rewritten selectors carry no type information: expand helpers in the next round
		}
		for _, f := range pk.Syntax {
			for _, d := range f.Decls {
				fd, ok := d.(*ast.FuncDecl)
				if !ok || fd.Body == nil {
					continue
				}
				in.stripFailClosedRecover(pk, f, fd)
				in.rewriteBlock(pk, f, fd, fd.Body)
				simplifyAddrDeref(fd.Body)
				if in.changed[f] {
					simplifyBoolConsts(fd.Body)
				}
			}
		}
	}
	for _, pk := range p.Pkgs {
		for _, f := range pk.Syntax {
			for _, d := range f.Decls {
				gd, ok := d.(*ast.GenDecl)
				if !ok || gd.Tok != token.VAR {
					continue
				}
				for _, sp := range gd.Specs {
					vs := sp.(*ast.ValueSpec)
					for i := range vs.Values {
						es := &ast.ExprStmt{X: vs.Values[i]}
						in.substituteExprCalls(pk, f, nil, es)
						vs.Values[i] = es.X
					}
				}
			}
		}
	}
	if len(in.changed) == 0 {
		return nil, nil
	}
	// a helper all of whose uses were expanded is dead: drop its declaration
	uses := map[*types.Func]int{}
	for _, pk := range p.Pkgs {
		for _, obj := range pk.TypesInfo.Uses {
			if fn, ok := obj.(*types.Func); ok {
				uses[fn]++
			}
		}
	}
	// expanded bodies are clones without type information: a helper is dead only
	// if, in addition, no identifier with its name is left outside its declaration
	nameLeft := map[string]int{}
	for _, pk := range p.Pkgs {
		for _, f := range pk.Syntax {
			ast.Inspect(f, func(n ast.Node) bool {
				if id, ok := n.(*ast.Ident); ok {
					nameLeft[id.Name]++
				}
				return true
			})
		}
	}
	for fn, fd := range in.bodies {
		own := 0
		ast.Inspect(fd, func(n ast.Node) bool {
			if id, ok := n.(*ast.Ident); ok && id.Name == fn.Name() {
				own++
			}
			return true
		})
		if n := in.expanded[fn]; n > 0 && n == uses[fn] && nameLeft[fn.Name()] == own {
			for f, pk := range in.filePkg {
				if pk != in.pkgOf[fn] {
					continue
				}
				for i, d := range f.Decls {
					if d == ast.Decl(fd) {
						f.Decls = append(f.Decls[:i:i], f.Decls[i+1:]...)
						in.changed[f] = true
						break
					}
				}
			}
		}
	}
	out := map[string][]byte{}
	for f := range in.changed {
		var buf bytes.Buffer
		// positions of spliced nodes are meaningless: print without them
		b := printOverlayFile(p, f)
		if b == nil {
			return nil, nil
		}
		buf.Write(b)
		out[p.Fset.Position(f.Pos()).Filename] = buf.Bytes()
	}
	var names []string
	for n, c := range in.inlined {
		names = append(names, fmt.Sprintf("%s×%d", n, c))
	}
	sort.Strings(names)
	return out, names
}

// stripPos returns the file itself: go/printer copes with mixed positions well
// enough when given a fresh FileSet (it then ignores line information).
func stripPos(f *ast.File) *ast.File {
	f.Comments = nil // comments would be misplaced
	return f
}

// eligible reports whether calls of fn may be expanded.
func (in *inliner) eligible(fn *types.Func, from *packages.Package) (*ast.FuncDecl, bool) {
	if fn == nil || fn.Exported() || fn.Pkg() == nil || in.pkgOf[fn] != from {
		return nil, false
	}
	if in.keep != nil && in.keep(fn) {
		return nil, false
	}
	fd := in.bodies[fn]
	if fd == nil {
		return nil, false
	}
	sig := fn.Type().(*types.Signature)
	if sig.Variadic() || sig.TypeParams() != nil {
		return nil, false
	}
	// defer/go/recover, recursion, goto (named results are handled: they become locals)
	bad := false
	n := 0
	ast.Inspect(fd.Body, func(x ast.Node) bool {
		switch y := x.(type) {
		case *ast.DeferStmt, *ast.GoStmt, *ast.SelectStmt:
			bad = true
		case *ast.BranchStmt:
			if y.Tok == token.GOTO {
				bad = true
			}
		case *ast.CallExpr:
			if id, ok := y.Fun.(*ast.Ident); ok && id.Name == "recover" {
				bad = true
			}
			if callee := calleeOf(in.pkgOf[fn].TypesInfo, y); callee == fn {
				bad = true
			}
		case ast.Stmt:
			n++
		}
		return true
	})
	if bad || n > 80 {
		return nil, false
	}
	return fd, true
}

func calleeOf(info *types.Info, call *ast.CallExpr) *types.Func {
	var id *ast.Ident
	switch f := call.Fun.(type) {
	case *ast.Ident:
		id = f
	case *ast.SelectorExpr:
		id = f.Sel
	default:
		return nil
	}
	fn, _ := info.Uses[id].(*types.Func)
	return fn
}

// rewriteBlock expands eligible calls in statement contexts of a block (recursively).
func (in *inliner) rewriteBlock(pk *packages.Package, file *ast.File, encl *ast.FuncDecl, blk *ast.BlockStmt) {
	blk.List = in.rewriteList(pk, file, encl, blk.List)
}

func (in *inliner) rewriteList(pk *packages.Package, file *ast.File, encl *ast.FuncDecl, list []ast.Stmt) []ast.Stmt {
	var out []ast.Stmt
	for _, st := range list {
		// recurse into nested blocks first
		switch s := st.(type) {
		case *ast.BlockStmt:
			in.rewriteBlock(pk, file, encl, s)
		case *ast.IfStmt:
			in.rewriteIf(pk, file, encl, s)
		case *ast.ForStmt:
			in.rewriteBlock(pk, file, encl, s.Body)
		case *ast.RangeStmt:
			in.rewriteBlock(pk, file, encl, s.Body)
		case *ast.SwitchStmt:
			for _, c := range s.Body.List {
				cc := c.(*ast.CaseClause)
				cc.Body = in.rewriteList(pk, file, encl, cc.Body)
			}
		case *ast.TypeSwitchStmt:
			for _, c := range s.Body.List {
				cc := c.(*ast.CaseClause)
				cc.Body = in.rewriteList(pk, file, encl, cc.Body)
			}
		case *ast.LabeledStmt:
			if b, ok := s.Stmt.(*ast.BlockStmt); ok {
				in.rewriteBlock(pk, file, encl, b)
			}
			if f, ok := s.Stmt.(*ast.ForStmt); ok {
				in.rewriteBlock(pk, file, encl, f.Body)
			}
			if f, ok := s.Stmt.(*ast.RangeStmt); ok {
				in.rewriteBlock(pk, file, encl, f.Body)
			}
		}
		// `x := f(a)` with f an expression-bodied helper and pure arguments: substitute the expression
		if as, isAs := st.(*ast.AssignStmt); isAs && len(as.Rhs) == 1 && len(as.Lhs) == 1 {
			if call, isCall := as.Rhs[0].(*ast.CallExpr); isCall {
				if fd, elig := in.eligible(calleeOf(pk.TypesInfo, call), pk); elig && len(fd.Body.List) == 1 {
					if ret, isRet := fd.Body.List[0].(*ast.ReturnStmt); isRet && len(ret.Results) == 1 {
						in.substituteExprCalls(pk, file, encl, st)
						if as.Rhs[0] != ast.Expr(call) {
							out = append(out, st)
							continue
						}
					}
				}
			}
		}
		// `for … := range f(a) {` / `switch f(a) {`: the ranged (switched) expression is evaluated once, before the
		// statement — a helper call there moves into a temporary in front of it
		{
			var slot *ast.Expr
			switch x := st.(type) {
			case *ast.RangeStmt:
				slot = &x.X
			case *ast.SwitchStmt:
				if x.Init == nil && x.Tag != nil {
					slot = &x.Tag
				}
			}
			if slot != nil {
				if call, isCall := (*slot).(*ast.CallExpr); isCall {
					if fn := calleeOf(pk.TypesInfo, call); fn != nil {
						if fd, elig := in.eligible(fn, pk); elig && fd != nil && fn.Type().(*types.Signature).Results().Len() == 1 {
							in.counter = int(atomic.AddInt64(&inlineSeq, 1))
							tmp := "inlr" + strconv.Itoa(in.counter)
							asg := &ast.AssignStmt{Lhs: []ast.Expr{ast.NewIdent(tmp)}, Tok: token.DEFINE, Rhs: []ast.Expr{call}}
							if repl, ok := in.expandStmt(pk, file, encl, asg); ok {
								*slot = ast.NewIdent(tmp)
								out = append(out, repl...)
								out = append(out, st)
								continue
							}
						}
					}
				}
			}
		}
		// `if x := f(a); cond {…}` with f an eligible helper: the init statement moves in front of the
		// if, both inside a block of their own (same scope for x, same order of evaluation)
		if ifs, isIf := st.(*ast.IfStmt); isIf && ifs.Init != nil {
			if as, isAs := ifs.Init.(*ast.AssignStmt); isAs && len(as.Rhs) == 1 && as.Tok == token.DEFINE {
				if call, isCall := as.Rhs[0].(*ast.CallExpr); isCall {
					if fd, elig := in.eligible(calleeOf(pk.TypesInfo, call), pk); elig && fd != nil {
						init := ifs.Init
						ifs.Init = nil
						blk := &ast.BlockStmt{List: []ast.Stmt{init, ifs}}
						in.rewriteBlock(pk, file, encl, blk)
						out = append(out, blk)
						continue
					}
				}
			}
		}
		if repl, ok := in.expandStmt(pk, file, encl, st); ok {
			out = append(out, repl...)
			continue
		}
		// a helper call nested in a return/assignment/expression statement: hoist the lexically
		// first call of the statement into a temporary when it is an eligible helper (calls are
		// evaluated in lexical order, so nothing that runs before it is reordered)
		if hoisted, ok := in.hoistFirstCall(pk, file, encl, st); ok {
			// re-process the rewritten statements (there may be more to expand)
			out = append(out, in.rewriteList(pk, file, encl, hoisted)...)
			continue
		}
		// `if f(x) {` / `if !f(x) {` without init: hoist the call into a temporary first (same evaluation order)
		if ifs, isIf := st.(*ast.IfStmt); isIf && ifs.Init == nil {
			cond := ifs.Cond
			neg := false
			if u, isU := cond.(*ast.UnaryExpr); isU && u.Op == token.NOT {
				cond, neg = u.X, true
			}
			if call, isCall := cond.(*ast.CallExpr); isCall {
				if fd, elig := in.eligible(calleeOf(pk.TypesInfo, call), pk); elig && fd != nil && len(fd.Body.List) != 1 {
					in.counter = int(atomic.AddInt64(&inlineSeq, 1))
					tmp := ast.NewIdent("inlc" + strconv.Itoa(in.counter))
					asg := &ast.AssignStmt{Lhs: []ast.Expr{tmp}, Tok: token.DEFINE, Rhs: []ast.Expr{call}}
					if repl, ok := in.expandStmt(pk, file, encl, asg); ok {
						out = append(out, repl...)
						var c ast.Expr = ast.NewIdent(tmp.Name)
						if neg {
							c = &ast.UnaryExpr{Op: token.NOT, X: c}
						}
						ifs.Cond = c
						out = append(out, ifs)
						continue
					}
				}
			}
		}
		// expression-level substitution of expression-bodied helpers
		in.substituteExprCalls(pk, file, encl, st)
		out = append(out, st)
	}
	return out
}

func (in *inliner) rewriteIf(pk *packages.Package, file *ast.File, encl *ast.FuncDecl, s *ast.IfStmt) {
	in.rewriteBlock(pk, file, encl, s.Body)
	switch e := s.Else.(type) {
	case *ast.BlockStmt:
		in.rewriteBlock(pk, file, encl, e)
	case *ast.IfStmt:
		in.rewriteIf(pk, file, encl, e)
	}
}

// expandStmt handles `f(...)`, `x, y := f(...)`, `x = f(...)`, `var x = f(...)`, `return f(...)`.
func (in *inliner) expandStmt(pk *packages.Package, file *ast.File, encl *ast.FuncDecl, st ast.Stmt) ([]ast.Stmt, bool) {
	info := pk.TypesInfo
	var call *ast.CallExpr
	var lhs []ast.Expr
	tok := token.ILLEGAL
	isReturn := false
	switch s := st.(type) {
	case *ast.ExprStmt:
		call, _ = s.X.(*ast.CallExpr)
	case *ast.AssignStmt:
		if len(s.Rhs) == 1 && (s.Tok == token.DEFINE || s.Tok == token.ASSIGN) {
			call, _ = s.Rhs[0].(*ast.CallExpr)
			lhs, tok = s.Lhs, s.Tok
		}
	case *ast.DeclStmt:
		gd, ok := s.Decl.(*ast.GenDecl)
		if ok && gd.Tok == token.VAR && len(gd.Specs) == 1 {
			vs := gd.Specs[0].(*ast.ValueSpec)
			if vs.Type == nil && len(vs.Values) == 1 {
				call, _ = vs.Values[0].(*ast.CallExpr)
				for _, n := range vs.Names {
					lhs = append(lhs, n)
				}
				tok = token.DEFINE
			}
		}
	case *ast.ReturnStmt:
		if len(s.Results) == 1 {
			call, _ = s.Results[0].(*ast.CallExpr)
			isReturn = true
		}
	}
	if call == nil {
		return nil, false
	}
	fn := calleeOf(info, call)
	fd, ok := in.eligible(fn, pk)
	if !ok {
		return nil, false
	}
	sig := fn.Type().(*types.Signature)
	nres := sig.Results().Len()
	if !isReturn && lhs != nil && len(lhs) != nres {
		return nil, false
	}
	if isReturn && encl.Type.Results != nil {
		// the enclosing function must return exactly the callee's results
		n := 0
		for _, r := range encl.Type.Results.List {
			if len(r.Names) == 0 {
				n++
			} else {
				n += len(r.Names)
			}
		}
		if n != nres {
			return nil, false
		}
	}
	// arguments: one per parameter (no f(g()) spreading)
	if len(call.Args) != sig.Params().Len() {
		return nil, false
	}
	// free identifiers of the callee body must resolve to the same objects at the call site
	if !in.sameBindings(pk, fd, call) {
		return nil, false
	}
	in.counter = int(atomic.AddInt64(&inlineSeq, 1))
	id := in.counter
	label := ast.NewIdent("inl" + strconv.Itoa(id))
	var pre []ast.Stmt
	// result temporaries
	var results []*ast.Ident
	qual := func(other *types.Package) string {
		if other == pk.Types {
			return ""
		}
		// ensure the file imports it
		astutil.AddImport(in.p.Fset, file, other.Path())
		return other.Name()
	}
	for i := 0; i < nres; i++ {
		name := ast.NewIdent(fmt.Sprintf("inl%dr%d", id, i))
		results = append(results, name)
		texpr, err := typeExpr(types.TypeString(sig.Results().At(i).Type(), qual))
		if err != nil {
			return nil, false
		}
		pre = append(pre, &ast.DeclStmt{Decl: &ast.GenDecl{Tok: token.VAR, Specs: []ast.Spec{&ast.ValueSpec{Names: []*ast.Ident{name}, Type: texpr}}}})
	}
	// parameter (and receiver) binding. A parameter that the helper only reads and
	// whose argument is a plain identifier or literal is substituted instead of
	// bound (no extra copy of a struct receiver is introduced).
	var names, vals []ast.Expr
	subst := map[types.Object]ast.Expr{}
	calleeInfo := in.pkgOf[fn].TypesInfo
	bind := func(param *ast.Ident, arg ast.Expr) {
		if param == nil || param.Name == "_" {
			names = append(names, ast.NewIdent("_"))
			vals = append(vals, arg)
			return
		}
		obj := calleeInfo.Defs[param]
		if simpleArg(arg) && obj != nil && readOnlyParam(calleeInfo, fd.Body, obj) && !declaresName(calleeInfo, fd.Body, arg) {
			subst[obj] = arg
			return
		}
		// a pointer parameter that is never re-pointed, bound to a local pointer
		// variable or to &local: the callee works on the caller's variable either
		// way, so the parameter is substituted rather than aliased (this is what
		// lets a cursor/accumulator struct be split into scalars afterwards)
		if obj != nil {
			if _, isPtr := obj.Type().Underlying().(*types.Pointer); isPtr && stablePointerParam(calleeInfo, fd.Body, obj) {
				switch a := arg.(type) {
				case *ast.Ident:
					if a.Name != "_" && !declaresName(calleeInfo, fd.Body, a) && in.localNeverReassigned(info, encl, a) {
						subst[obj] = a
						return
					}
				case *ast.UnaryExpr:
					if id, isID := a.X.(*ast.Ident); isID && a.Op == token.AND && !declaresName(calleeInfo, fd.Body, id) && isLocalVar(info, id) {
						subst[obj] = &ast.ParenExpr{X: a}
						return
					}
				}
			}
		}
		names = append(names, ast.NewIdent(param.Name))
		vals = append(vals, arg)
	}
	if sig.Recv() != nil {
		sel, ok := call.Fun.(*ast.SelectorExpr)
		if !ok {
			return nil, false
		}
		var recvIdent *ast.Ident
		if fd.Recv != nil && len(fd.Recv.List) == 1 && len(fd.Recv.List[0].Names) == 1 {
			recvIdent = fd.Recv.List[0].Names[0]
		}
		var rexpr ast.Expr = sel.X
		selInfo := info.Selections[sel]
		if selInfo == nil {
			return nil, false
		}
		_, wantPtr := sig.Recv().Type().(*types.Pointer)
		_, havePtr := info.TypeOf(sel.X).Underlying().(*types.Pointer)
		if len(selInfo.Index()) != 1 {
			return nil, false // promoted through embedding: not handled
		}
		switch {
		case wantPtr && !havePtr:
			rexpr = &ast.UnaryExpr{Op: token.AND, X: sel.X}
		case !wantPtr && havePtr:
			rexpr = &ast.StarExpr{X: sel.X}
		}
		bind(recvIdent, rexpr)
	}
	pi := 0
	for _, f := range fd.Type.Params.List {
		if len(f.Names) == 0 {
			bind(nil, call.Args[pi])
			pi++
			continue
		}
		for _, n := range f.Names {
			bind(n, call.Args[pi])
			pi++
		}
	}
	body := cloneBlock(fd.Body)
	relabel(body) // the helper's body may already hold labels of expansions made in it: every copy gets its own
	// named results are ordinary locals of the expanded block
	var namedResults []string
	if fd.Type.Results != nil {
		for _, f := range fd.Type.Results.List {
			for _, n := range f.Names {
				namedResults = append(namedResults, n.Name)
			}
		}
	}
	if len(namedResults) > 0 && len(namedResults) != nres {
		return nil, false
	}
	if len(subst) > 0 {
		if !substituteIdents(calleeInfo, fd.Body, body, subst) {
			return nil, false
		}
	}
	// `return f(x)`: the callee's returns become the caller's returns (no temporaries, no
	// run-once loop), so each outcome keeps its own return statement
	tail := isReturn && encl != nil && enclHasNoNamedResults(encl)
	// `return a, b` -> `r0, r1 = a, b; break L`
	okRet := true
	rewriteReturns(body, func(r *ast.ReturnStmt) []ast.Stmt {
		var out []ast.Stmt
		if tail {
			switch {
			case len(r.Results) == nres:
				return []ast.Stmt{&ast.ReturnStmt{Results: r.Results}}
			case len(r.Results) == 0 && len(namedResults) == nres && nres > 0:
				var rr []ast.Expr
				for _, n := range namedResults {
					rr = append(rr, ast.NewIdent(n))
				}
				return []ast.Stmt{&ast.ReturnStmt{Results: rr}}
			default:
				okRet = false
				return []ast.Stmt{r}
			}
		}
		if len(r.Results) == nres && nres > 0 {
			var l []ast.Expr
			for _, n := range results {
				l = append(l, ast.NewIdent(n.Name))
			}
			out = append(out, &ast.AssignStmt{Lhs: l, Tok: token.ASSIGN, Rhs: r.Results})
		} else if len(r.Results) == 0 && nres > 0 && len(namedResults) == nres {
			var l, rr []ast.Expr
			for i, n := range results {
				l = append(l, ast.NewIdent(n.Name))
				rr = append(rr, ast.NewIdent(namedResults[i]))
			}
			out = append(out, &ast.AssignStmt{Lhs: l, Tok: token.ASSIGN, Rhs: rr})
		} else if len(r.Results) != 0 || nres != 0 {
			okRet = false // e.g. `return g()` spreading
		}
		out = append(out, &ast.BranchStmt{Tok: token.BREAK, Label: ast.NewIdent(label.Name)})
		return out
	})
	if !okRet {
		return nil, false
	}
	if !tail {
		body.List = append(body.List, &ast.BranchStmt{Tok: token.BREAK, Label: ast.NewIdent(label.Name)})
	}
	inner := &ast.BlockStmt{}
	for i, n := range namedResults {
		if n == "_" {
			continue
		}
		texpr, err := typeExpr(types.TypeString(sig.Results().At(i).Type(), qual))
		if err != nil {
			return nil, false
		}
		inner.List = append(inner.List, &ast.DeclStmt{Decl: &ast.GenDecl{Tok: token.VAR, Specs: []ast.Spec{&ast.ValueSpec{Names: []*ast.Ident{ast.NewIdent(n)}, Type: texpr}}}},
			&ast.AssignStmt{Lhs: []ast.Expr{ast.NewIdent("_")}, Tok: token.ASSIGN, Rhs: []ast.Expr{ast.NewIdent(n)}})
	}
	if len(names) > 0 {
		// all-blank left sides cannot use := ; use = for those
		allBlank := true
		for _, n := range names {
			if n.(*ast.Ident).Name != "_" {
				allBlank = false
			}
		}
		t := token.DEFINE
		if allBlank {
			t = token.ASSIGN
		}
		inner.List = append(inner.List, &ast.AssignStmt{Lhs: names, Tok: t, Rhs: vals})
		// silence "declared and not used" for parameters the body ignores
		for _, n := range names {
			if n.(*ast.Ident).Name != "_" {
				inner.List = append(inner.List, &ast.AssignStmt{Lhs: []ast.Expr{ast.NewIdent("_")}, Tok: token.ASSIGN, Rhs: []ast.Expr{ast.NewIdent(n.(*ast.Ident).Name)}})
			}
		}
	}
	if tail {
		inner.List = append(inner.List, body.List...)
		if nres == 0 {
			inner.List = append(inner.List, &ast.ReturnStmt{})
		}
		in.inlined[fn.FullName()]++
		in.expanded[fn]++
		in.changed[file] = true
		return []ast.Stmt{inner}, true
	}
	inner.List = append(inner.List, &ast.LabeledStmt{Label: label, Stmt: &ast.ForStmt{Body: body}})
	pre = append(pre, inner)
	// use of the results
	switch {
	case isReturn:
		var rs []ast.Expr
		for _, n := range results {
			rs = append(rs, ast.NewIdent(n.Name))
		}
		pre = append(pre, &ast.ReturnStmt{Results: rs})
	case lhs != nil:
		var rs []ast.Expr
		for _, n := range results {
			rs = append(rs, ast.NewIdent(n.Name))
		}
		pre = append(pre, &ast.AssignStmt{Lhs: lhs, Tok: tok, Rhs: rs})
	default:
		for _, n := range results {
			pre = append(pre, &ast.AssignStmt{Lhs: []ast.Expr{ast.NewIdent("_")}, Tok: token.ASSIGN, Rhs: []ast.Expr{ast.NewIdent(n.Name)}})
		}
	}
	in.inlined[fn.FullName()]++
	in.expanded[fn]++
	in.changed[file] = true
	return pre, true
}

// hoistFirstCall: see rewriteList.
func (in *inliner) hoistFirstCall(pk *packages.Package, file *ast.File, encl *ast.FuncDecl, st ast.Stmt) ([]ast.Stmt, bool) {
	var exprs []*ast.Expr
	switch s := st.(type) {
	case *ast.ReturnStmt:
		for i := range s.Results {
			exprs = append(exprs, &s.Results[i])
		}
	case *ast.AssignStmt:
		for i := range s.Rhs {
			exprs = append(exprs, &s.Rhs[i])
		}
	case *ast.ExprStmt:
		exprs = append(exprs, &s.X)
	case *ast.IfStmt:
		// the condition of an `if` that stands in a statement list (callers only pass such statements)
		if s.Init != nil {
			return nil, false
		}
		exprs = append(exprs, &s.Cond)
	default:
		return nil, false
	}
	// the statement itself being a plain call is handled by expandStmt
	info := pk.TypesInfo
	// calls in the order they are evaluated (operands before the call, left to right), not looking
	// into function literals or into the right operand of && and || (evaluated conditionally:
	// nothing may be hoisted out of it)
	var calls []*ast.CallExpr
	enter := map[*ast.CallExpr]int{}
	var walk func(n ast.Node)
	walk = func(n ast.Node) {
		switch x := n.(type) {
		case nil:
			return
		case *ast.FuncLit:
			return
		case *ast.BinaryExpr:
			walk(x.X)
			if x.Op != token.LAND && x.Op != token.LOR {
				walk(x.Y)
			}
			return
		case *ast.CallExpr:
			isCall := true
			if tv, ok := info.Types[x.Fun]; ok && (tv.IsType() || tv.IsBuiltin()) {
				isCall = false // conversions and builtins are not calls in the evaluation-order sense
			}
			at := len(calls)
			walk(x.Fun)
			for _, a := range x.Args {
				walk(a)
			}
			if isCall {
				enter[x] = at
				calls = append(calls, x)
			}
			return
		}
		ast.Inspect(n, func(c ast.Node) bool {
			if c == n {
				return true
			}
			if c != nil {
				walk(c)
			}
			return false
		})
	}
	for _, e := range exprs {
		walk(*e)
	}
	var first *ast.CallExpr
	for _, c := range calls {
		fn := calleeOf(info, c)
		fd, ok := in.eligible(fn, pk)
		if !ok || fn.Type().(*types.Signature).Results().Len() != 1 {
			continue
		}
		if len(fd.Body.List) == 1 {
			if _, isRet := fd.Body.List[0].(*ast.ReturnStmt); isRet {
				continue // expression-bodied: substituteExprCalls handles it
			}
		}
		first = c
		break
	}
	if first == nil {
		return nil, false
	}
	// skip when the statement is exactly that call in a form expandStmt handles
	switch s := st.(type) {
	case *ast.ReturnStmt:
		if len(s.Results) == 1 && s.Results[0] == ast.Expr(first) {
			return nil, false
		}
	case *ast.AssignStmt:
		if len(s.Rhs) == 1 && s.Rhs[0] == ast.Expr(first) {
			return nil, false
		}
	case *ast.ExprStmt:
		if s.X == ast.Expr(first) {
			return nil, false
		}
	}
	// everything evaluated before the helper call stays before it: the outermost calls that are
	// complete by then move into temporaries of their own, in order
	var hoist []*ast.CallExpr
	for i := enter[first] - 1; i >= 0; i = enter[calls[i]] - 1 {
		if sig, ok := info.TypeOf(calls[i]).(*types.Tuple); ok && sig.Len() != 1 {
			return nil, false // a multi-valued call feeding another call: leave the statement alone
		}
		hoist = append([]*ast.CallExpr{calls[i]}, hoist...)
	}
	hoist = append(hoist, first)
	var pre []ast.Stmt
	for _, c := range hoist {
		in.counter = int(atomic.AddInt64(&inlineSeq, 1))
		tmp := "inlh" + strconv.Itoa(in.counter)
		pre = append(pre, &ast.AssignStmt{Lhs: []ast.Expr{ast.NewIdent(tmp)}, Tok: token.DEFINE, Rhs: []ast.Expr{c}})
		replaced := false
		target := c
		for _, e := range exprs {
			*e = astutil.Apply(*e, nil, func(cur *astutil.Cursor) bool {
				if cur.Node() == ast.Node(target) && !replaced {
					cur.Replace(ast.NewIdent(tmp))
					replaced = true
				}
				return true
			}).(ast.Expr)
		}
		if !replaced {
			return nil, false
		}
	}
	in.changed[file] = true
	return append(pre, st), true
}

// sameBindings: every identifier of the callee body that refers to a
// package-level or universe object resolves to the same object at the call site.
func (in *inliner) sameBindings(pk *packages.Package, fd *ast.FuncDecl, call *ast.CallExpr) bool {
	info := pk.TypesInfo
	ok := true
	scope := pk.Types.Scope().Innermost(call.Pos())
	ast.Inspect(fd.Body, func(n ast.Node) bool {
		id, isID := n.(*ast.Ident)
		if !isID {
			return true
		}
		obj := info.Uses[id]
		if obj == nil {
			return true
		}
		if obj.Parent() == pk.Types.Scope() || obj.Parent() == types.Universe {
			if scope != nil {
				_, found := scope.LookupParent(id.Name, call.Pos())
				if found != obj {
					ok = false
				}
			}
		}
		if pn, isPkg := obj.(*types.PkgName); isPkg {
			// imported package used by the helper: the caller's file must see the same package under that name
			if scope != nil {
				_, found := scope.LookupParent(id.Name, call.Pos())
				if fp, isP := found.(*types.PkgName); !isP || fp.Imported() != pn.Imported() {
					ok = false
				}
			}
		}
		return true
	})
	return ok
}

// substituteExprCalls replaces calls of expression-bodied helpers nested in
// expressions of st by the helper's expression when all arguments are pure.
func (in *inliner) substituteExprCalls(pk *packages.Package, file *ast.File, encl *ast.FuncDecl, st ast.Stmt) {
	info := pk.TypesInfo
	astutil.Apply(st, func(c *astutil.Cursor) bool {
		switch c.Node().(type) {
		case *ast.FuncLit, *ast.BlockStmt:
			if c.Node() != ast.Node(st) {
				// nested statement lists are handled by rewriteList
				if _, isBlk := c.Node().(*ast.BlockStmt); isBlk {
					return false
				}
			}
		}
		return true
	}, func(c *astutil.Cursor) bool {
		call, ok := c.Node().(*ast.CallExpr)
		if !ok {
			return true
		}
		fn := calleeOf(info, call)
		fd, ok := in.eligible(fn, pk)
		if !ok || len(fd.Body.List) != 1 {
			return true
		}
		ret, ok := fd.Body.List[0].(*ast.ReturnStmt)
		if !ok || len(ret.Results) != 1 {
			return true
		}
		sig := fn.Type().(*types.Signature)
		if len(call.Args) != sig.Params().Len() || !in.sameBindings(pk, fd, call) {
			return true
		}
		subst := map[types.Object]ast.Expr{}
		if sig.Recv() != nil {
			sel, ok := call.Fun.(*ast.SelectorExpr)
			if !ok || !pureExpr(sel.X) {
				return true
			}
			if fd.Recv != nil && len(fd.Recv.List) == 1 && len(fd.Recv.List[0].Names) == 1 {
				robj := info.Defs[fd.Recv.List[0].Names[0]]
				_, wantPtr := sig.Recv().Type().(*types.Pointer)
				_, havePtr := info.TypeOf(sel.X).Underlying().(*types.Pointer)
				var rexpr ast.Expr = sel.X
				switch {
				case wantPtr && !havePtr:
					rexpr = &ast.UnaryExpr{Op: token.AND, X: sel.X}
				case !wantPtr && havePtr:
					rexpr = &ast.StarExpr{X: sel.X}
				}
				subst[robj] = &ast.ParenExpr{X: rexpr}
			}
		}
		pi := 0
		for _, f := range fd.Type.Params.List {
			for _, n := range f.Names {
				if !pureExpr(call.Args[pi]) {
					return true
				}
				subst[info.Defs[n]] = &ast.ParenExpr{X: call.Args[pi]}
				pi++
			}
			if len(f.Names) == 0 {
				pi++
			}
		}
		// parameters must not be assigned or have their address taken in the expression
		expr := cloneExpr(ret.Results[0])
		bad := false
		mapping := map[*ast.Ident]ast.Expr{}
		// walk the ORIGINAL expression to find uses (info is keyed by original idents), mirrored onto the clone
		var origIDs, cloneIDs []*ast.Ident
		ast.Inspect(ret.Results[0], func(n ast.Node) bool {
			if id, ok := n.(*ast.Ident); ok {
				origIDs = append(origIDs, id)
			}
			if u, ok := n.(*ast.UnaryExpr); ok && u.Op == token.AND {
				if _, isLit := u.X.(*ast.CompositeLit); !isLit {
					bad = true
				}
			}
			if _, ok := n.(*ast.FuncLit); ok {
				bad = true
			}
			return true
		})
		ast.Inspect(expr, func(n ast.Node) bool {
			if id, ok := n.(*ast.Ident); ok {
				cloneIDs = append(cloneIDs, id)
			}
			return true
		})
		if bad || len(origIDs) != len(cloneIDs) {
			return true
		}
		for i, id := range origIDs {
			if e, ok := subst[info.Uses[id]]; ok && info.Uses[id] != nil {
				mapping[cloneIDs[i]] = e
			}
		}
		expr = astutil.Apply(expr, nil, func(cc *astutil.Cursor) bool {
			if id, ok := cc.Node().(*ast.Ident); ok {
				if e, ok := mapping[id]; ok {
					cc.Replace(e)
				}
			}
			return true
		}).(ast.Expr)
		// keep the static type of the call: convert when the helper's result type is a named type
		c.Replace(&ast.ParenExpr{X: expr})
		in.inlined[fn.FullName()]++
		in.expanded[fn]++
		in.changed[file] = true
		return true
	})
}

// simpleArg: an identifier or a basic literal (safe to evaluate any number of times).
func simpleArg(e ast.Expr) bool {
	switch x := e.(type) {
	case *ast.Ident:
		return x.Name != "_"
	case *ast.BasicLit:
		return true
	}
	return false
}

// readOnlyParam: the helper never assigns to the parameter (or a field/element
// of it), never takes its address and never calls a pointer-receiver method on it.
func readOnlyParam(info *types.Info, body *ast.BlockStmt, param types.Object) bool {
	ok := true
	rooted := func(e ast.Expr) bool {
		for {
			switch x := e.(type) {
			case *ast.Ident:
				return info.Uses[x] == param
			case *ast.SelectorExpr:
				e = x.X
			case *ast.IndexExpr:
				// writing an element of a slice/map parameter modifies shared memory either way; of an array, the copy
				e = x.X
			case *ast.ParenExpr:
				e = x.X
			case *ast.StarExpr:
				return false
			default:
				return false
			}
		}
	}
	ast.Inspect(body, func(n ast.Node) bool {
		switch x := n.(type) {
		case *ast.AssignStmt:
			for _, l := range x.Lhs {
				if rooted(l) {
					ok = false
				}
			}
		case *ast.IncDecStmt:
			if rooted(x.X) {
				ok = false
			}
		case *ast.UnaryExpr:
			if x.Op == token.AND && rooted(x.X) {
				ok = false
			}
		case *ast.RangeStmt:
			if x.Key != nil && rooted(x.Key) || x.Value != nil && rooted(x.Value) {
				ok = false
			}
		case *ast.CallExpr:
			if sel, isSel := x.Fun.(*ast.SelectorExpr); isSel && rooted(sel.X) {
				if s := info.Selections[sel]; s != nil && s.Kind() == types.MethodVal {
					if msig, isSig := s.Obj().Type().(*types.Signature); isSig && msig.Recv() != nil {
						if _, ptr := msig.Recv().Type().(*types.Pointer); ptr {
							if _, argPtr := info.TypeOf(sel.X).Underlying().(*types.Pointer); !argPtr {
								ok = false // implicit &param
							}
						}
					}
				}
			}
		case *ast.FuncLit:
			// captured by a closure: keep a private binding
			ast.Inspect(x, func(m ast.Node) bool {
				if id, isID := m.(*ast.Ident); isID && info.Uses[id] == param {
					ok = false
				}
				return true
			})
		}
		return true
	})
	return ok
}

// substituteIdents replaces, in clone (a print/parse copy of orig), every
// identifier whose original refers to an object in subst.
func substituteIdents(info *types.Info, orig, clone ast.Node, subst map[types.Object]ast.Expr) bool {
	var origIDs, cloneIDs []*ast.Ident
	ast.Inspect(orig, func(n ast.Node) bool {
		if id, ok := n.(*ast.Ident); ok {
			origIDs = append(origIDs, id)
		}
		return true
	})
	ast.Inspect(clone, func(n ast.Node) bool {
		if id, ok := n.(*ast.Ident); ok {
			cloneIDs = append(cloneIDs, id)
		}
		return true
	})
	if len(origIDs) != len(cloneIDs) {
		return false
	}
	mapping := map[*ast.Ident]ast.Expr{}
	for i, id := range origIDs {
		if id.Name != cloneIDs[i].Name {
			return false
		}
		if obj := info.Uses[id]; obj != nil {
			if e, ok := subst[obj]; ok {
				mapping[cloneIDs[i]] = e
			}
		}
	}
	astutil.Apply(clone, nil, func(c *astutil.Cursor) bool {
		if id, ok := c.Node().(*ast.Ident); ok {
			if e, ok := mapping[id]; ok {
				// selector field names and composite-literal keys are not uses of the parameter
				if sel, isSel := c.Parent().(*ast.SelectorExpr); isSel && sel.Sel == id {
					return true
				}
				c.Replace(cloneExpr(e))
			}
		}
		return true
	})
	return true
}

// pureExpr: identifiers, selectors, literals, conversions/len of those, indexing.
func pureExpr(e ast.Expr) bool {
	switch x := e.(type) {
	case *ast.Ident, *ast.BasicLit:
		return true
	case *ast.SelectorExpr:
		return pureExpr(x.X)
	case *ast.ParenExpr:
		return pureExpr(x.X)
	case *ast.StarExpr:
		return pureExpr(x.X)
	case *ast.UnaryExpr:
		return x.Op != token.ARROW && pureExpr(x.X)
	case *ast.BinaryExpr:
		return pureExpr(x.X) && pureExpr(x.Y)
	case *ast.IndexExpr:
		return pureExpr(x.X) && pureExpr(x.Index)
	case *ast.CallExpr:
		if id, ok := x.Fun.(*ast.Ident); ok && (id.Name == "len" || id.Name == "cap" || id.Name == "uint32" || id.Name == "int" || id.Name == "uint64" || id.Name == "float64") && len(x.Args) == 1 {
			return pureExpr(x.Args[0])
		}
	}
	return false
}

// rewriteReturns replaces every return statement of the block (not inside
// function literals) by the statements f produces.
func rewriteReturns(b *ast.BlockStmt, f func(*ast.ReturnStmt) []ast.Stmt) {
	var doList func(list []ast.Stmt) []ast.Stmt
	var doStmt func(s ast.Stmt)
	doList = func(list []ast.Stmt) []ast.Stmt {
		var out []ast.Stmt
		for _, s := range list {
			if r, ok := s.(*ast.ReturnStmt); ok {
				out = append(out, &ast.BlockStmt{List: f(r)})
				continue
			}
			doStmt(s)
			out = append(out, s)
		}
		return out
	}
	doStmt = func(s ast.Stmt) {
		switch x := s.(type) {
		case *ast.BlockStmt:
			x.List = doList(x.List)
		case *ast.IfStmt:
			x.Body.List = doList(x.Body.List)
			switch e := x.Else.(type) {
			case *ast.BlockStmt:
				e.List = doList(e.List)
			case *ast.IfStmt:
				doStmt(e)
			}
		case *ast.ForStmt:
			x.Body.List = doList(x.Body.List)
		case *ast.RangeStmt:
			x.Body.List = doList(x.Body.List)
		case *ast.SwitchStmt:
			for _, c := range x.Body.List {
				cc := c.(*ast.CaseClause)
				cc.Body = doList(cc.Body)
			}
		case *ast.TypeSwitchStmt:
			for _, c := range x.Body.List {
				cc := c.(*ast.CaseClause)
				cc.Body = doList(cc.Body)
			}
		case *ast.LabeledStmt:
			doStmt(x.Stmt)
		}
	}
	b.List = doList(b.List)
}

// typeExpr parses a type string into an expression.
func typeExpr(s string) (ast.Expr, error) {
	return parseExpr(s)
}

// cloneBlock deep-copies a block by printing and re-parsing it.
func cloneBlock(b *ast.BlockStmt) *ast.BlockStmt {
	var buf bytes.Buffer
	buf.WriteString("package p\nfunc _() ")
	if err := printer.Fprint(&buf, token.NewFileSet(), b); err != nil {
		return &ast.BlockStmt{}
	}
	f, err := parseFile(buf.String())
	if err != nil {
		return &ast.BlockStmt{}
	}
	return f.Decls[0].(*ast.FuncDecl).Body
}

// cloneExpr deep-copies an expression by printing and re-parsing it.
func cloneExpr(e ast.Expr) ast.Expr {
	var buf bytes.Buffer
	if err := printer.Fprint(&buf, token.NewFileSet(), e); err != nil {
		return e
	}
	x, err := parseExpr(buf.String())
	if err != nil {
		return e
	}
	return x
}

// stripFailClosedRecover removes, from the normal form, a leading
//
//	defer func() { if x := recover(); x != nil { <results> = <zero…>, <fresh error> } }()
//
// of a function with named results whose last result is an error. Such a
// wrapper maps the outcome "panic" to the outcome "(zero value, non-nil
// error)" and changes nothing else; every property of this code base treats
// the two abort outcomes alike, provided the callers look at the error. The
// wrapper is therefore dropped only when every in-module caller propagates the
// error: it tests `err != nil` and in that branch returns the error (or something
// built from it) or ends the process, or it returns the call directly. A caller
// that looks at the error and carries on (sfWrap returns an empty separator)
// swallows the failure, and the wrapper stays.
func (in *inliner) stripFailClosedRecover(pk *packages.Package, file *ast.File, fd *ast.FuncDecl) bool {
	if fd.Body == nil || len(fd.Body.List) == 0 || fd.Type.Results == nil {
		return false
	}
	info := pk.TypesInfo
	var results []types.Object
	for _, fld := range fd.Type.Results.List {
		if len(fld.Names) == 0 {
			return false
		}
		for _, n := range fld.Names {
			o := info.Defs[n]
			if o == nil {
				return false
			}
			results = append(results, o)
		}
	}
	if len(results) < 2 {
		return false
	}
	errObj := results[len(results)-1]
	if !types.Identical(errObj.Type(), types.Universe.Lookup("error").Type()) {
		return false
	}
	ds, ok := fd.Body.List[0].(*ast.DeferStmt)
	if !ok || len(ds.Call.Args) != 0 {
		return false
	}
	lit, ok := ds.Call.Fun.(*ast.FuncLit)
	if !ok || lit.Type.Params != nil && len(lit.Type.Params.List) != 0 {
		return false
	}
	isRecover := func(e ast.Expr) bool {
		c, ok := e.(*ast.CallExpr)
		if !ok || len(c.Args) != 0 {
			return false
		}
		id, ok := c.Fun.(*ast.Ident)
		if !ok {
			return false
		}
		b, isB := info.Uses[id].(*types.Builtin)
		return isB && b.Name() == "recover"
	}
	recDefine := func(s ast.Stmt) types.Object {
		as, ok := s.(*ast.AssignStmt)
		if !ok || as.Tok != token.DEFINE || len(as.Lhs) != 1 || len(as.Rhs) != 1 || !isRecover(as.Rhs[0]) {
			return nil
		}
		id, ok := as.Lhs[0].(*ast.Ident)
		if !ok {
			return nil
		}
		return info.Defs[id]
	}
	var ifs *ast.IfStmt
	var recVar types.Object
	switch len(lit.Body.List) {
	case 1:
		ifs, _ = lit.Body.List[0].(*ast.IfStmt)
		if ifs == nil || ifs.Init == nil {
			return false
		}
		recVar = recDefine(ifs.Init)
	case 2:
		recVar = recDefine(lit.Body.List[0])
		ifs, _ = lit.Body.List[1].(*ast.IfStmt)
		if ifs == nil || ifs.Init != nil {
			return false
		}
	default:
		return false
	}
	if recVar == nil || ifs.Else != nil {
		return false
	}
	cond, ok := ifs.Cond.(*ast.BinaryExpr)
	if !ok || cond.Op != token.NEQ {
		return false
	}
	isRec := func(e ast.Expr) bool { id, ok := e.(*ast.Ident); return ok && info.Uses[id] == recVar }
	isNil := func(e ast.Expr) bool {
		id, ok := e.(*ast.Ident)
		if !ok {
			return false
		}
		_, n := info.Uses[id].(*types.Nil)
		return n
	}
	if !(isRec(cond.X) && isNil(cond.Y) || isRec(cond.Y) && isNil(cond.X)) {
		return false
	}
	freshErr := func(e ast.Expr) bool {
		c, ok := e.(*ast.CallExpr)
		if !ok {
			return false
		}
		fn := calleeOf(info, c)
		if fn == nil || fn.Pkg() == nil {
			return false
		}
		switch fn.Pkg().Path() + "." + fn.Name() {
		case "fmt.Errorf", "errors.New":
			return true
		}
		return false
	}
	zero := func(e ast.Expr) bool {
		if isNil(e) {
			return true
		}
		if tv, ok := info.Types[e]; ok && tv.Value != nil {
			switch tv.Value.Kind() {
			case constant.Bool:
				return !constant.BoolVal(tv.Value)
			case constant.String:
				return constant.StringVal(tv.Value) == ""
			case constant.Int, constant.Float:
				return constant.Sign(tv.Value) == 0
			}
			return false
		}
		cl, ok := e.(*ast.CompositeLit)
		return ok && len(cl.Elts) == 0
	}
	assigned := map[types.Object]bool{}
	for _, st := range ifs.Body.List {
		as, ok := st.(*ast.AssignStmt)
		if !ok || as.Tok != token.ASSIGN || len(as.Lhs) != len(as.Rhs) {
			return false
		}
		for i, l := range as.Lhs {
			id, ok := l.(*ast.Ident)
			if !ok {
				return false
			}
			o := info.Uses[id]
			isRes := false
			for _, ro := range results {
				if ro == o {
					isRes = true
				}
			}
			if !isRes {
				return false
			}
			if o == errObj {
				if !freshErr(as.Rhs[i]) {
					return false
				}
			} else if !zero(as.Rhs[i]) {
				return false
			}
			assigned[o] = true
		}
	}
	for _, ro := range results {
		if !assigned[ro] {
			return false
		}
	}
	// callers: the error result is bound to a named variable or returned directly
	fnObj, _ := info.Defs[fd.Name].(*types.Func)
	if fnObj == nil {
		return false
	}
	okCalls, uses := 0, 0
	// propagates: the statement list, from position i on, tests `errName != nil` and in that
	// branch returns the error (or something built from it) or ends the process — a caller that
	// merely looks at the error and carries on (e.g. returns an empty value) swallows the failure
	mentions := func(e ast.Expr, name string) bool {
		found := false
		ast.Inspect(e, func(n ast.Node) bool {
			if id, ok := n.(*ast.Ident); ok && id.Name == name {
				found = true
			}
			return true
		})
		return found
	}
	bodyPropagates := func(body *ast.BlockStmt, errName string) bool {
		ok := false
		ast.Inspect(body, func(n ast.Node) bool {
			switch x := n.(type) {
			case *ast.FuncLit:
				return false
			case *ast.ReturnStmt:
				if len(x.Results) > 0 && mentions(x.Results[len(x.Results)-1], errName) {
					ok = true
				}
			case *ast.CallExpr:
				switch f := x.Fun.(type) {
				case *ast.Ident:
					if f.Name == "panic" {
						ok = true
					}
				case *ast.SelectorExpr:
					if pk, isID := f.X.(*ast.Ident); isID && (pk.Name == "log" && strings.HasPrefix(f.Sel.Name, "Fatal") || pk.Name == "log" && strings.HasPrefix(f.Sel.Name, "Panic") || pk.Name == "os" && f.Sel.Name == "Exit") {
						ok = true
					}
				}
			}
			return true
		})
		return ok
	}
	isErrTest := func(cond ast.Expr, errName string) bool {
		b, ok := cond.(*ast.BinaryExpr)
		if !ok || b.Op != token.NEQ {
			return false
		}
		x, okx := b.X.(*ast.Ident)
		y, oky := b.Y.(*ast.Ident)
		return okx && oky && (x.Name == errName && y.Name == "nil" || y.Name == errName && x.Name == "nil")
	}
	callOf := func(q *packages.Package, st ast.Stmt) (errName string, ok bool) {
		as, isAs := st.(*ast.AssignStmt)
		if !isAs || len(as.Rhs) != 1 || len(as.Lhs) != len(results) {
			return "", false
		}
		c, isCall := as.Rhs[0].(*ast.CallExpr)
		if !isCall || calleeOf(q.TypesInfo, c) != fnObj {
			return "", false
		}
		id, isID := as.Lhs[len(as.Lhs)-1].(*ast.Ident)
		if !isID || id.Name == "_" {
			return "", false
		}
		return id.Name, true
	}
	for _, q := range in.p.Pkgs {
		for _, o := range q.TypesInfo.Uses {
			if o == types.Object(fnObj) {
				uses++
			}
		}
		q := q
		var doList func(list []ast.Stmt)
		doList = func(list []ast.Stmt) {
			for i, st := range list {
				if errName, isCall := callOf(q, st); isCall {
					for _, later := range list[i+1:] {
						if ifs, isIf := later.(*ast.IfStmt); isIf && ifs.Init == nil && isErrTest(ifs.Cond, errName) {
							if bodyPropagates(ifs.Body, errName) {
								okCalls++
							}
							break
						}
					}
				}
				if ifs, isIf := st.(*ast.IfStmt); isIf && ifs.Init != nil {
					if errName, isCall := callOf(q, ifs.Init); isCall && isErrTest(ifs.Cond, errName) && bodyPropagates(ifs.Body, errName) {
						okCalls++
					}
				}
				if ret, isRet := st.(*ast.ReturnStmt); isRet && len(ret.Results) == 1 {
					if c, ok := ret.Results[0].(*ast.CallExpr); ok && calleeOf(q.TypesInfo, c) == fnObj {
						okCalls++
					}
				}
			}
		}
		for _, f := range q.Syntax {
			ast.Inspect(f, func(n ast.Node) bool {
				switch x := n.(type) {
				case *ast.BlockStmt:
					doList(x.List)
				case *ast.CaseClause:
					doList(x.Body)
				case *ast.CommClause:
					doList(x.Body)
				}
				return true
			})
		}
	}
	if okCalls != uses && !in.opts.StripRecoverAlways {
		return false
	}
	fd.Body.List = fd.Body.List[1:]
	in.changed[file] = true
	in.inlined["fail-closed-recover-wrapper("+fd.Name.Name+")"]++
	return true
}

// declaresName: the body declares (or the callee's parameters include) an
// object with the same name as the identifier e, so substituting e into the
// body could be captured.
func declaresName(info *types.Info, body *ast.BlockStmt, e ast.Expr) bool {
	id, ok := e.(*ast.Ident)
	if !ok {
		return false
	}
	found := false
	ast.Inspect(body, func(n ast.Node) bool {
		if x, ok := n.(*ast.Ident); ok && x.Name == id.Name && info.Defs[x] != nil {
			found = true
		}
		return true
	})
	return found
}

// stablePointerParam: the pointer parameter is never assigned, its own address
// is never taken and it is not captured by a closure.
func stablePointerParam(info *types.Info, body *ast.BlockStmt, param types.Object) bool {
	ok := true
	is := func(e ast.Expr) bool {
		for {
			if p, isP := e.(*ast.ParenExpr); isP {
				e = p.X
				continue
			}
			break
		}
		id, isID := e.(*ast.Ident)
		return isID && info.Uses[id] == param
	}
	ast.Inspect(body, func(n ast.Node) bool {
		switch x := n.(type) {
		case *ast.AssignStmt:
			for _, l := range x.Lhs {
				if is(l) {
					ok = false
				}
			}
		case *ast.IncDecStmt:
			if is(x.X) {
				ok = false
			}
		case *ast.UnaryExpr:
			if x.Op == token.AND && is(x.X) {
				ok = false
			}
		case *ast.RangeStmt:
			if x.Key != nil && is(x.Key) || x.Value != nil && is(x.Value) {
				ok = false
			}
		case *ast.FuncLit:
			ast.Inspect(x, func(m ast.Node) bool {
				if id, isID := m.(*ast.Ident); isID && info.Uses[id] == param {
					ok = false
				}
				return true
			})
		}
		return true
	})
	return ok
}

func isLocalVar(info *types.Info, id *ast.Ident) bool {
	v, ok := info.Uses[id].(*types.Var)
	return ok && !v.IsField() && v.Parent() != nil && v.Pkg() != nil && v.Parent() != v.Pkg().Scope()
}

// localNeverReassigned: id is a local variable of encl that is defined once and never assigned again.
func (in *inliner) localNeverReassigned(info *types.Info, encl *ast.FuncDecl, id *ast.Ident) bool {
	if encl == nil || !isLocalVar(info, id) {
		return false
	}
	obj := info.Uses[id]
	ok := true
	ast.Inspect(encl.Body, func(n ast.Node) bool {
		switch x := n.(type) {
		case *ast.AssignStmt:
			if x.Tok != token.DEFINE {
				for _, l := range x.Lhs {
					if li, isID := l.(*ast.Ident); isID && info.Uses[li] == obj {
						ok = false
					}
				}
			}
		case *ast.IncDecStmt:
			if li, isID := x.X.(*ast.Ident); isID && info.Uses[li] == obj {
				ok = false
			}
		case *ast.UnaryExpr:
			if li, isID := x.X.(*ast.Ident); isID && x.Op == token.AND && info.Uses[li] == obj {
				ok = false
			}
		}
		return true
	})
	return ok
}

// ---------------------------------------------------------------------------
// Scalar replacement of local aggregates (source level).
//
// A local variable `x := T{...}`, `x := &T{...}` or `var x T` of a struct type
// all of whose uses in the function are direct field selections `x.f` (never
// the whole value, never a method call, never inside a function literal) is the
// same program as one local variable per field. After helper expansion this
// turns a cursor/accumulator/parameter-bundle struct back into the plain
// locals the shape rules read.

func (in *inliner) sroaFunc(pk *packages.Package, file *ast.File, fd *ast.FuncDecl) bool {
	info := pk.TypesInfo
	changed := false
	type cand struct {
		obj    *types.Var
		st     *types.Struct
		define ast.Stmt
		lit    *ast.CompositeLit // nil for `var x T`
		from   *ast.Ident        // `x := y`: the aggregate it is copied from
	}
	var cands []*cand
	litOf := func(e ast.Expr) *ast.CompositeLit {
		unparen := func(e ast.Expr) ast.Expr {
			for {
				p, ok := e.(*ast.ParenExpr)
				if !ok {
					return e
				}
				e = p.X
			}
		}
		e = unparen(e)
		if u, ok := e.(*ast.UnaryExpr); ok && u.Op == token.AND {
			e = unparen(u.X)
		}
		cl, _ := e.(*ast.CompositeLit)
		return cl
	}
	structOf := func(t types.Type) *types.Struct {
		if p, ok := t.Underlying().(*types.Pointer); ok {
			t = p.Elem()
		}
		n, ok := t.(*types.Named)
		if !ok || n.Obj().Pkg() == nil || !isModulePath(n.Obj().Pkg().Path()) {
			return nil
		}
		st, _ := n.Underlying().(*types.Struct)
		return st
	}
	inLit := 0
	ast.Inspect(fd.Body, func(n ast.Node) bool {
		switch x := n.(type) {
		case *ast.FuncLit:
			_ = x
			return false
		case *ast.AssignStmt:
			if x.Tok == token.DEFINE && len(x.Lhs) == 1 && len(x.Rhs) == 1 {
				id, ok := x.Lhs[0].(*ast.Ident)
				cl := litOf(x.Rhs[0])
				if ok && cl != nil {
					if v, isVar := info.Defs[id].(*types.Var); isVar {
						if st := structOf(v.Type()); st != nil && st.NumFields() > 0 {
							cands = append(cands, &cand{v, st, x, cl, nil})
						}
					}
				} else if src, isID := x.Rhs[0].(*ast.Ident); ok && isID {
					// `x := y`, y a local aggregate of the same (unexported) struct type: a copy, field by field
					if v, isVar := info.Defs[id].(*types.Var); isVar {
						if n, isNamed := v.Type().(*types.Named); !isNamed || n.Obj().Exported() {
							return true
						}
						if sv, isSV := info.Uses[src].(*types.Var); isSV && types.Identical(sv.Type(), v.Type()) {
							if _, isPtr := v.Type().Underlying().(*types.Pointer); !isPtr {
								if st := structOf(v.Type()); st != nil && st.NumFields() > 0 {
									cands = append(cands, &cand{v, st, x, nil, src})
								}
							}
						}
					}
				}
			}
		case *ast.DeclStmt:
			if gd, ok := x.Decl.(*ast.GenDecl); ok && gd.Tok == token.VAR && len(gd.Specs) == 1 {
				vs := gd.Specs[0].(*ast.ValueSpec)
				if len(vs.Names) == 1 && len(vs.Values) == 0 {
					if v, isVar := info.Defs[vs.Names[0]].(*types.Var); isVar {
						if _, isPtr := v.Type().Underlying().(*types.Pointer); !isPtr {
							if st := structOf(v.Type()); st != nil && st.NumFields() > 0 {
								cands = append(cands, &cand{v, st, x, nil, nil})
							}
						}
					}
				}
			}
		}
		return true
	})
	_ = inLit
	names := map[string]bool{}
	ast.Inspect(fd, func(n ast.Node) bool {
		if id, ok := n.(*ast.Ident); ok {
			names[id.Name] = true
		}
		return true
	})
	qual := func(other *types.Package) string {
		if other == pk.Types {
			return ""
		}
		astutil.AddImport(in.p.Fset, file, other.Path())
		return other.Name()
	}
	for _, c := range cands {
		// every use is x.f with f a direct field, outside function literals
		okUse := true
		uses := map[*ast.SelectorExpr]int{} // selector -> field index
		var walk func(n ast.Node, inFuncLit bool)
		parentSel := map[*ast.Ident]*ast.SelectorExpr{}
		parentAsg := map[*ast.Ident]*ast.AssignStmt{}
		ast.Inspect(fd.Body, func(n ast.Node) bool {
			if sel, ok := n.(*ast.SelectorExpr); ok {
				if id, isID := sel.X.(*ast.Ident); isID {
					parentSel[id] = sel
				}
			}
			if as, ok := n.(*ast.AssignStmt); ok && len(as.Lhs) == 1 && len(as.Rhs) == 1 {
				if id, isID := as.Lhs[0].(*ast.Ident); isID {
					parentAsg[id] = as
				}
				if id, isID := as.Rhs[0].(*ast.Ident); isID {
					parentAsg[id] = as
				}
			}
			return true
		})
		_, candIsPtr := c.obj.Type().Underlying().(*types.Pointer)
		// whole-value copies are followed only for unexported helper types (a `charSpec`, a `cursor`): a copy of an
		// exported API struct is a working copy whose methods get called — dissolving half of such a chain helps nobody
		if n, isNamed := c.obj.Type().(*types.Named); !isNamed || n.Obj().Exported() {
			candIsPtr = true
		}
		wholeRHS := map[*ast.AssignStmt]bool{} // z = x / z := x
		wholeLHS := map[*ast.AssignStmt]bool{} // x = y / x = T{...}
		completeLit := func(e ast.Expr) ([]ast.Expr, bool) {
			cl, ok := e.(*ast.CompositeLit)
			if !ok || len(cl.Elts) != c.st.NumFields() {
				return nil, false
			}
			vals := make([]ast.Expr, c.st.NumFields())
			for i, el := range cl.Elts {
				if kv, isKV := el.(*ast.KeyValueExpr); isKV {
					k, isID := kv.Key.(*ast.Ident)
					if !isID {
						return nil, false
					}
					idx := -1
					for fi := 0; fi < c.st.NumFields(); fi++ {
						if c.st.Field(fi).Name() == k.Name {
							idx = fi
						}
					}
					if idx < 0 || vals[idx] != nil {
						return nil, false
					}
					vals[idx] = kv.Value
				} else {
					vals[i] = el
				}
			}
			for _, v := range vals {
				if v == nil {
					return nil, false
				}
			}
			return vals, true
		}
		walk = func(n ast.Node, inFuncLit bool) {
			ast.Inspect(n, func(m ast.Node) bool {
				switch x := m.(type) {
				case *ast.FuncLit:
					if !inFuncLit {
						walk(x.Body, true)
						return false
					}
				case *ast.Ident:
					if info.Uses[x] != types.Object(c.obj) {
						return true
					}
					sel := parentSel[x]
					if sel == nil && !inFuncLit && !candIsPtr {
						// the whole value copied to or from another aggregate of the same type
						if as := parentAsg[x]; as != nil && ast.Stmt(as) != c.define {
							if as.Rhs[0] == ast.Expr(x) {
								if lid, isID := as.Lhs[0].(*ast.Ident); isID {
									var lt types.Type
									if o := info.Defs[lid]; o != nil {
										lt = o.Type()
									} else if o := info.Uses[lid]; o != nil {
										lt = o.Type()
									}
									if lt != nil && types.Identical(lt, c.obj.Type()) {
										wholeRHS[as] = true
										return true
									}
								}
							} else if as.Lhs[0] == ast.Expr(x) && as.Tok == token.ASSIGN {
								if rid, isID := as.Rhs[0].(*ast.Ident); isID {
									if o, isV := info.Uses[rid].(*types.Var); isV && types.Identical(o.Type(), c.obj.Type()) {
										wholeLHS[as] = true
										return true
									}
								}
								if _, okL := completeLit(as.Rhs[0]); okL {
									if tv, okT := info.Types[as.Rhs[0]]; okT && types.Identical(tv.Type, c.obj.Type()) {
										wholeLHS[as] = true
										return true
									}
								}
							}
						}
					}
					if sel == nil || inFuncLit {
						okUse = false
						return true
					}
					s := info.Selections[sel]
					if s == nil || s.Kind() != types.FieldVal || len(s.Index()) != 1 {
						okUse = false
						return true
					}
					uses[sel] = s.Index()[0]
				}
				return true
			})
		}
		walk(fd.Body, false)
		if !okUse {
			continue
		}
		// the literal: keyed by field names, or positional and complete, or empty
		vals := make([]ast.Expr, c.st.NumFields())
		var order []int
		if c.lit != nil {
			bad := false
			for i, el := range c.lit.Elts {
				if kv, ok := el.(*ast.KeyValueExpr); ok {
					k, isID := kv.Key.(*ast.Ident)
					if !isID {
						bad = true
						break
					}
					idx := -1
					for fi := 0; fi < c.st.NumFields(); fi++ {
						if c.st.Field(fi).Name() == k.Name {
							idx = fi
						}
					}
					if idx < 0 || vals[idx] != nil {
						bad = true
						break
					}
					vals[idx] = kv.Value
					order = append(order, idx)
				} else {
					if len(c.lit.Elts) != c.st.NumFields() {
						bad = true
						break
					}
					vals[i] = el
					order = append(order, i)
				}
			}
			if bad {
				continue
			}
		}
		if c.from != nil {
			for fi := 0; fi < c.st.NumFields(); fi++ {
				vals[fi] = &ast.SelectorExpr{X: ast.NewIdent(c.from.Name), Sel: ast.NewIdent(c.st.Field(fi).Name())}
				order = append(order, fi)
			}
		}
		fname := make([]string, c.st.NumFields())
		okNames := true
		for fi := 0; fi < c.st.NumFields(); fi++ {
			if c.st.Field(fi).Embedded() {
				okNames = false
			}
			n := c.obj.Name() + "_" + c.st.Field(fi).Name()
			for names[n] {
				n += "_"
			}
			names[n] = true
			fname[fi] = n
		}
		if !okNames {
			continue
		}
		var repl []ast.Stmt
		done := map[int]bool{}
		okT := true
		for _, fi := range order {
			repl = append(repl, &ast.AssignStmt{Lhs: []ast.Expr{ast.NewIdent(fname[fi])}, Tok: token.DEFINE, Rhs: []ast.Expr{vals[fi]}})
			done[fi] = true
		}
		for fi := 0; fi < c.st.NumFields(); fi++ {
			if done[fi] {
				// an untyped constant in the literal takes the field's type, not its default type
				if tv, ok := info.Types[vals[fi]]; ok && tv.Value != nil || isNilIdent(info, vals[fi]) {
					texpr, err := typeExpr(types.TypeString(c.st.Field(fi).Type(), qual))
					if err != nil {
						okT = false
						break
					}
					for i, st := range repl {
						if as, isAs := st.(*ast.AssignStmt); isAs && as.Lhs[0].(*ast.Ident).Name == fname[fi] {
							repl[i] = &ast.DeclStmt{Decl: &ast.GenDecl{Tok: token.VAR, Specs: []ast.Spec{&ast.ValueSpec{Names: []*ast.Ident{ast.NewIdent(fname[fi])}, Type: texpr, Values: []ast.Expr{vals[fi]}}}}}
						}
					}
				}
				continue
			}
			texpr, err := typeExpr(types.TypeString(c.st.Field(fi).Type(), qual))
			if err != nil {
				okT = false
				break
			}
			repl = append(repl, &ast.DeclStmt{Decl: &ast.GenDecl{Tok: token.VAR, Specs: []ast.Spec{&ast.ValueSpec{Names: []*ast.Ident{ast.NewIdent(fname[fi])}, Type: texpr}}}})
		}
		if !okT {
			continue
		}
		for fi := 0; fi < c.st.NumFields(); fi++ {
			repl = append(repl, &ast.AssignStmt{Lhs: []ast.Expr{ast.NewIdent("_")}, Tok: token.ASSIGN, Rhs: []ast.Expr{ast.NewIdent(fname[fi])}})
		}
		replaced := false
		astutil.Apply(fd.Body, func(cu *astutil.Cursor) bool {
			switch x := cu.Node().(type) {
			case *ast.SelectorExpr:
				if fi, ok := uses[x]; ok {
					cu.Replace(ast.NewIdent(fname[fi]))
					return false
				}
			case *ast.AssignStmt:
				if wholeRHS[x] {
					texpr, err := typeExpr(types.TypeString(c.obj.Type(), qual))
					if err == nil {
						lit := &ast.CompositeLit{Type: texpr}
						for fi := 0; fi < c.st.NumFields(); fi++ {
							lit.Elts = append(lit.Elts, &ast.KeyValueExpr{Key: ast.NewIdent(c.st.Field(fi).Name()), Value: ast.NewIdent(fname[fi])})
						}
						x.Rhs[0] = lit
					}
					return false
				}
				if wholeLHS[x] {
					na := &ast.AssignStmt{Tok: token.ASSIGN}
					if rid, isID := x.Rhs[0].(*ast.Ident); isID {
						for fi := 0; fi < c.st.NumFields(); fi++ {
							na.Lhs = append(na.Lhs, ast.NewIdent(fname[fi]))
							na.Rhs = append(na.Rhs, &ast.SelectorExpr{X: ast.NewIdent(rid.Name), Sel: ast.NewIdent(c.st.Field(fi).Name())})
						}
					} else if vs, okL := completeLit(x.Rhs[0]); okL {
						for fi := 0; fi < c.st.NumFields(); fi++ {
							na.Lhs = append(na.Lhs, ast.NewIdent(fname[fi]))
							na.Rhs = append(na.Rhs, vs[fi])
						}
					}
					if len(na.Lhs) > 0 && cu.Index() >= 0 {
						cu.Replace(na)
					}
					return false
				}
				if ast.Stmt(x) == c.define && cu.Index() >= 0 {
					cu.Replace(repl[0])
					for i := len(repl) - 1; i >= 1; i-- {
						cu.InsertAfter(repl[i])
					}
					replaced = true
					return false
				}
			case ast.Stmt:
				if x == c.define && cu.Index() >= 0 {
					cu.Replace(repl[0])
					for i := len(repl) - 1; i >= 1; i-- {
						cu.InsertAfter(repl[i])
					}
					replaced = true
					return false
				}
			}
			return true
		}, nil)
		if !replaced {
			// the definition is not an element of a statement list (e.g. an init clause): give up on the whole file
			return false
		}
		changed = true
		in.inlined["scalar-replacement("+fd.Name.Name+"."+c.obj.Name()+")"]++
		// one aggregate per function per round: selector bookkeeping refers to the old tree
		break
	}
	if changed {
		in.changed[file] = true
	}
	return changed
}

func isNilIdent(info *types.Info, e ast.Expr) bool {
	id, ok := e.(*ast.Ident)
	if !ok {
		return false
	}
	_, isNil := info.Uses[id].(*types.Nil)
	return isNil
}

// simplifyAddrDeref rewrites (&x).f -> x.f and *(&x) -> x (left behind by pointer-parameter substitution).
func simplifyAddrDeref(n ast.Node) {
	strip := func(e ast.Expr) ast.Expr {
		for {
			p, ok := e.(*ast.ParenExpr)
			if !ok {
				return e
			}
			e = p.X
		}
	}
	astutil.Apply(n, nil, func(c *astutil.Cursor) bool {
		switch x := c.Node().(type) {
		case *ast.SelectorExpr:
			if u, ok := strip(x.X).(*ast.UnaryExpr); ok && u.Op == token.AND {
				if id, isID := u.X.(*ast.Ident); isID {
					x.X = id
				}
			}
		case *ast.StarExpr:
			if u, ok := strip(x.X).(*ast.UnaryExpr); ok && u.Op == token.AND {
				if id, isID := u.X.(*ast.Ident); isID {
					c.Replace(id)
				}
			}
		}
		return true
	})
}

func enclHasNoNamedResults(fd *ast.FuncDecl) bool {
	if fd.Type.Results == nil {
		return true
	}
	for _, f := range fd.Type.Results.List {
		if len(f.Names) > 0 {
			return false
		}
	}
	return true
}

// TailDupOverlay is the last step of the normal form, tried only when open obligations remain: a
// function written in single-exit style
//
//	switch … { case A: x, err = f() … default: return …, fmt.Errorf(…) }
//	if err != nil { return …, err }
//	…; return …, nil
//
// gets the statements that follow the switch (or if/else chain) copied to the end of every clause that
// can run off its end, so that every branch has its own returns again — the shape the per-branch
// rules (guards dominating a return, one success return per kind) are written for. The copy is exact:
// the tail ends in a return, so control never leaves a copy; the original tail stays where it is for
// the paths that skip every clause. A clause is left alone when a name it declares is used by the tail
// (the copy would bind to the wrong variable); a tail with labels or goto is not copied.
func TailDupOverlay(p *Program) (map[string][]byte, []string) {
	changed := map[*ast.File]bool{}
	var names []string
	for _, pk := range p.Pkgs {
		for _, f := range pk.Syntax {
			for _, d := range f.Decls {
				fd, ok := d.(*ast.FuncDecl)
				if !ok || fd.Body == nil {
					continue
				}
				if n := tailDup(fd.Body); n > 0 {
					changed[f] = true
					names = append(names, fmt.Sprintf("tail-duplication(%s)×%d", fd.Name.Name, n))
				}
			}
		}
	}
	if len(changed) == 0 {
		return nil, nil
	}
	out := map[string][]byte{}
	for f := range changed {
		var buf bytes.Buffer
		b := printOverlayFile(p, f)
		if b == nil {
			return nil, nil
		}
		buf.Write(b)
		out[p.Fset.Position(f.Pos()).Filename] = buf.Bytes()
	}
	sort.Strings(names)
	return out, names
}

func terminates(st ast.Stmt) bool {
	switch s := st.(type) {
	case *ast.ReturnStmt:
		return true
	case *ast.BranchStmt:
		return true
	case *ast.ExprStmt:
		if c, ok := s.X.(*ast.CallExpr); ok {
			if id, ok := c.Fun.(*ast.Ident); ok && id.Name == "panic" {
				return true
			}
			if se, ok := c.Fun.(*ast.SelectorExpr); ok {
				if x, ok := se.X.(*ast.Ident); ok && (x.Name == "os" && se.Sel.Name == "Exit" || x.Name == "log" && strings.HasPrefix(se.Sel.Name, "Fatal")) {
					return true
				}
			}
		}
	case *ast.BlockStmt:
		return len(s.List) > 0 && terminates(s.List[len(s.List)-1])
	case *ast.IfStmt:
		return s.Else != nil && terminates(s.Body) && terminates(s.Else)
	}
	return false
}

func declaredNames(list []ast.Stmt, into map[string]bool) {
	for _, st := range list {
		switch s := st.(type) {
		case *ast.AssignStmt:
			if s.Tok == token.DEFINE {
				for _, l := range s.Lhs {
					if id, ok := l.(*ast.Ident); ok {
						into[id.Name] = true
					}
				}
			}
		case *ast.DeclStmt:
			if gd, ok := s.Decl.(*ast.GenDecl); ok {
				for _, sp := range gd.Specs {
					switch x := sp.(type) {
					case *ast.ValueSpec:
						for _, id := range x.Names {
							into[id.Name] = true
						}
					case *ast.TypeSpec:
						into[x.Name.Name] = true
					}
				}
			}
		case *ast.LabeledStmt:
			declaredNames([]ast.Stmt{s.Stmt}, into)
		}
	}
}

func tailDup(body *ast.BlockStmt) int {
	n := 0
	for i := 0; i < len(body.List)-1; i++ {
		tail := body.List[i+1:]
		if len(tail) > 8 || !terminates(tail[len(tail)-1]) {
			continue
		}
		if _, isRet := tail[len(tail)-1].(*ast.ReturnStmt); !isRet {
			continue
		}
		used := map[string]bool{}
		bad := false
		size := 0
		for _, st := range tail {
			ast.Inspect(st, func(x ast.Node) bool {
				size++
				switch y := x.(type) {
				case *ast.Ident:
					used[y.Name] = true
				case *ast.LabeledStmt:
					bad = true
				case *ast.BranchStmt:
					if y.Tok == token.GOTO || y.Label != nil {
						bad = true
					}
				}
				return true
			})
		}
		if bad || size > 400 {
			continue
		}
		collides := func(lists ...[]ast.Stmt) bool {
			decl := map[string]bool{}
			for _, l := range lists {
				declaredNames(l, decl)
			}
			for nm := range decl {
				if used[nm] {
					return true
				}
			}
			return false
		}
		appendTail := func(list []ast.Stmt) []ast.Stmt {
			c := cloneBlock(&ast.BlockStmt{List: tail})
			relabel(c)
			return append(list, c.List...)
		}
		switch s := body.List[i].(type) {
		case *ast.SwitchStmt:
			var init []ast.Stmt
			if s.Init != nil {
				init = []ast.Stmt{s.Init}
			}
			for _, cl := range s.Body.List {
				cc := cl.(*ast.CaseClause)
				if len(cc.Body) > 0 && terminates(cc.Body[len(cc.Body)-1]) {
					continue
				}
				if collides(init, cc.Body) {
					continue
				}
				cc.Body = appendTail(cc.Body)
				n++
			}
		case *ast.IfStmt:
			var init []ast.Stmt // the init statements of the chain so far: their names are in scope in every later branch
			for cur := s; cur != nil; {
				if cur.Init != nil {
					init = append(init, cur.Init)
				}
				if !(len(cur.Body.List) > 0 && terminates(cur.Body.List[len(cur.Body.List)-1])) && !collides(init, cur.Body.List) {
					cur.Body.List = appendTail(cur.Body.List)
					n++
				}
				switch e := cur.Else.(type) {
				case *ast.IfStmt:
					cur = e
					continue
				case *ast.BlockStmt:
					if !(len(e.List) > 0 && terminates(e.List[len(e.List)-1])) && !collides(init, e.List) {
						e.List = appendTail(e.List)
						n++
					}
				}
				cur = nil
			}
		}
		if n > 0 {
			break // one statement per function and round: the tail has changed
		}
	}
	return n
}

// simplifyBoolConsts folds the boolean constants that parameter substitution leaves behind
// (`true && c` is `c`, `false && c` is `false`, `c && true` is `c`, likewise for `||`; an `if` on a
// literal constant is its taken branch). Operands with side effects are never dropped.
func simplifyBoolConsts(body *ast.BlockStmt) {
	isLit := func(e ast.Expr, name string) bool {
		for {
			p, ok := e.(*ast.ParenExpr)
			if !ok {
				break
			}
			e = p.X
		}
		id, ok := e.(*ast.Ident)
		return ok && id.Name == name
	}
	astutil.Apply(body, nil, func(c *astutil.Cursor) bool {
		switch x := c.Node().(type) {
		case *ast.BinaryExpr:
			switch x.Op {
			case token.EQL, token.NEQ:
				// `true == true` / `true == false`: what case splitting leaves of a test of the switch tag
				if (isLit(x.X, "true") || isLit(x.X, "false")) && (isLit(x.Y, "true") || isLit(x.Y, "false")) {
					same := isLit(x.X, "true") == isLit(x.Y, "true")
					if same == (x.Op == token.EQL) {
						c.Replace(ast.NewIdent("true"))
					} else {
						c.Replace(ast.NewIdent("false"))
					}
				}
			case token.LAND:
				switch {
				case isLit(x.X, "true"):
					c.Replace(x.Y)
				case isLit(x.X, "false"):
					c.Replace(ast.NewIdent("false"))
				case isLit(x.Y, "true"):
					c.Replace(x.X)
				}
			case token.LOR:
				switch {
				case isLit(x.X, "false"):
					c.Replace(x.Y)
				case isLit(x.X, "true"):
					c.Replace(ast.NewIdent("true"))
				case isLit(x.Y, "false"):
					c.Replace(x.X)
				}
			}
		case *ast.IfStmt:
			if x.Init != nil {
				return true
			}
			if _, inList := c.Parent().(*ast.BlockStmt); !inList {
				if _, inCase := c.Parent().(*ast.CaseClause); !inCase {
					return true
				}
			}
			switch {
			case isLit(x.Cond, "true"):
				c.Replace(x.Body)
			case isLit(x.Cond, "false"):
				if x.Else != nil {
					c.Replace(x.Else)
				} else {
					c.Replace(&ast.EmptyStmt{})
				}
			}
		}
		return true
	})
}

// printOverlayFile prints a rewritten file. Everything in front of the package clause — build
// constraints, or comment lines that merely look like one because no blank line follows — decides
// whether the compiler sees the file at all, and go/printer re-flows comments of a tree whose
// positions no longer mean anything. So that part is taken verbatim from the text the program was
// loaded from, and the comments in front of the package clause are dropped from the tree.
func printOverlayFile(p *Program, f *ast.File) []byte {
	name := p.Fset.Position(f.Pos()).Filename
	src, ok := p.Sources[name]
	if !ok {
		b, err := os.ReadFile(name)
		if err != nil {
			return nil
		}
		src = b
	}
	off := p.Fset.Position(f.Package).Offset
	if off < 0 || off > len(src) {
		return nil
	}
	header := src[:off]
	var kept []*ast.CommentGroup
	for _, cg := range f.Comments {
		if cg.End() <= f.Package {
			continue
		}
		kept = append(kept, cg)
	}
	f.Comments = kept
	f.Doc = nil
	var buf bytes.Buffer
	if err := printer.Fprint(&buf, token.NewFileSet(), stripPos(f)); err != nil {
		return nil
	}
	out := buf.Bytes()
	i := bytes.Index(out, []byte("package "))
	for i > 0 && out[i-1] != '\n' {
		j := bytes.Index(out[i+1:], []byte("package "))
		if j < 0 {
			return nil
		}
		i += 1 + j
	}
	if i < 0 {
		return nil
	}
	return append(append([]byte{}, header...), out[i:]...)
}

// splitCases: `switch tag { case A, B: body }` over a local tag that the switch does not assign becomes
// `case A: body; case B: body` (exactly the same behaviour), and inside the copy for A every comparison
// of the tag with a constant is replaced by its value — so arms that a clean-up merged ("the two kinds
// differ only in one test of the kind") read again like the separate arms the per-kind rules expect.
func (in *inliner) splitCases(pk *packages.Package, file *ast.File, fd *ast.FuncDecl) bool {
	info := pk.TypesInfo
	changed := false
	ast.Inspect(fd.Body, func(n ast.Node) bool {
		sw, ok := n.(*ast.SwitchStmt)
		if !ok || sw.Init != nil || sw.Tag == nil {
			return true
		}
		tag, ok := sw.Tag.(*ast.Ident)
		if !ok {
			return true
		}
		tagObj, ok := info.Uses[tag].(*types.Var)
		if !ok || tagObj.Parent() == nil || tagObj.Parent() == tagObj.Pkg().Scope() {
			return true
		}
		// the tag is not written inside the switch
		written := false
		ast.Inspect(sw.Body, func(m ast.Node) bool {
			switch x := m.(type) {
			case *ast.AssignStmt:
				for _, l := range x.Lhs {
					if id, ok := l.(*ast.Ident); ok && info.Uses[id] == types.Object(tagObj) {
						written = true
					}
				}
			case *ast.IncDecStmt:
				if id, ok := x.X.(*ast.Ident); ok && info.Uses[id] == types.Object(tagObj) {
					written = true
				}
			case *ast.UnaryExpr:
				if id, ok := x.X.(*ast.Ident); ok && x.Op == token.AND && info.Uses[id] == types.Object(tagObj) {
					written = true
				}
			case *ast.FuncLit:
				return false
			}
			return true
		})
		if written {
			return true
		}
		var out []ast.Stmt
		did := false
		for _, cl := range sw.Body.List {
			cc := cl.(*ast.CaseClause)
			splittable := len(cc.List) >= 2
			var vals []constant.Value
			for _, e := range cc.List {
				tv, ok := info.Types[e]
				if !ok || tv.Value == nil {
					splittable = false
					break
				}
				vals = append(vals, tv.Value)
			}
			if splittable {
				ast.Inspect(&ast.BlockStmt{List: cc.Body}, func(m ast.Node) bool {
					switch x := m.(type) {
					case *ast.BranchStmt:
						if x.Tok == token.FALLTHROUGH || x.Label != nil || x.Tok == token.GOTO {
							splittable = false
						}
					case *ast.LabeledStmt:
						splittable = false
					}
					return true
				})
			}
			if !splittable {
				out = append(out, cc)
				continue
			}
			// comparisons of the tag with constants inside the body
			type cmp struct {
				be  *ast.BinaryExpr
				old ast.BinaryExpr
				val constant.Value
			}
			var cmps []*cmp
			ast.Inspect(&ast.BlockStmt{List: cc.Body}, func(m ast.Node) bool {
				if _, isLit := m.(*ast.FuncLit); isLit {
					return false
				}
				be, ok := m.(*ast.BinaryExpr)
				if !ok || (be.Op != token.EQL && be.Op != token.NEQ) {
					return true
				}
				for _, pair := range [][2]ast.Expr{{be.X, be.Y}, {be.Y, be.X}} {
					if id, ok := pair[0].(*ast.Ident); ok && info.Uses[id] == types.Object(tagObj) {
						if tv, ok := info.Types[pair[1]]; ok && tv.Value != nil {
							cmps = append(cmps, &cmp{be, *be, tv.Value})
							return false
						}
					}
				}
				return true
			})
			for i, e := range cc.List {
				for _, c := range cmps {
					eq := constant.Compare(vals[i], token.EQL, c.val)
					res := "false"
					if eq == (c.old.Op == token.EQL) {
						res = "true"
					}
					c.be.X, c.be.Op, c.be.Y = ast.NewIdent("true"), token.EQL, ast.NewIdent(res)
				}
				body := cloneBlock(&ast.BlockStmt{List: cc.Body})
				relabel(body)
				for _, c := range cmps {
					*c.be = c.old
				}
				out = append(out, &ast.CaseClause{List: []ast.Expr{cloneExpr(e)}, Body: body.List})
			}
			did = true
		}
		if did {
			sw.Body.List = out
			changed = true
		}
		return true
	})
	if changed {
		simplifyBoolConsts(fd.Body)
		in.changed[file] = true
		in.inlined["case-splitting("+fd.Name.Name+")"]++
	}
	return changed
}

// relabel gives every label defined inside b a fresh name (and renames the branches to it), so that a block
// can be copied into a function more than once.
func relabel(b *ast.BlockStmt) {
	fresh := map[string]string{}
	ast.Inspect(b, func(n ast.Node) bool {
		if ls, ok := n.(*ast.LabeledStmt); ok {
			if _, done := fresh[ls.Label.Name]; !done {
				fresh[ls.Label.Name] = "inl" + strconv.Itoa(int(atomic.AddInt64(&inlineSeq, 1)))
			}
		}
		return true
	})
	if len(fresh) == 0 {
		return
	}
	ast.Inspect(b, func(n ast.Node) bool {
		switch x := n.(type) {
		case *ast.LabeledStmt:
			if nn, ok := fresh[x.Label.Name]; ok {
				x.Label = ast.NewIdent(nn)
			}
		case *ast.BranchStmt:
			if x.Label != nil {
				if nn, ok := fresh[x.Label.Name]; ok {
					x.Label = ast.NewIdent(nn)
				}
			}
		}
		return true
	})
}
