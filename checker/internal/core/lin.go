package core

import (
	"fmt"
	"go/token"
	"go/types"
	"sort"
	"strings"

	"golang.org/x/tools/go/ssa"
)

// LIN: a small prover for linear integer facts with parity, used to discharge
// bounds obligations (index in range, slice bounds, non-negative make).
//
// Terms are affine forms over atoms: len(x), cap(x) and opaque SSA values.
// Facts (form <= 0) come from the branch conditions dominating a block, from
// intrinsic properties of the atoms (len >= 0, unsigned >= 0, uint8 <= 255,
// len(make(T,n)) = n, len(s[a:b]) = b-a, counted-loop and monotone-accumulator
// phi invariants, k*(x/k) <= x <= k*(x/k)+k-1 for x >= 0, the post-condition
// 0 <= draw < bound of the bounded-draw routine) and parity facts (x%2 guards,
// phi(c0, phi+2c)). A goal is proven by refuting its negation with
// Fourier-Motzkin elimination over the integers (gcd and parity tightening).
// Integer overflow of int arithmetic on lengths is assumed away.

// Atom is a variable of the linear theory.
type Atom struct {
	Kind string // "v", "len", "cap"
	V    ssa.Value
}

func (a Atom) String() string {
	n := "?"
	if a.V != nil {
		n = a.V.Name()
		if c, ok := a.V.(*ssa.Const); ok {
			n = c.String()
		}
	}
	if a.Kind == "v" {
		return n
	}
	return a.Kind + "(" + n + ")"
}

// Lin is sum(T[a]*a) + C.
type Lin struct {
	T map[Atom]int64
	C int64
}

func linConst(c int64) Lin { return Lin{T: map[Atom]int64{}, C: c} }
func linAtom(a Atom) Lin   { return Lin{T: map[Atom]int64{a: 1}, C: 0} }

func (l Lin) clone() Lin {
	t := make(map[Atom]int64, len(l.T))
	for k, v := range l.T {
		t[k] = v
	}
	return Lin{T: t, C: l.C}
}

// Add returns l + k*m.
func (l Lin) Add(m Lin, k int64) Lin {
	r := l.clone()
	for a, c := range m.T {
		r.T[a] += k * c
		if r.T[a] == 0 {
			delete(r.T, a)
		}
	}
	r.C += k * m.C
	return r
}

// Scale returns k*l.
func (l Lin) Scale(k int64) Lin { return linConst(0).Add(l, k) }

// Plus returns l + c.
func (l Lin) Plus(c int64) Lin { r := l.clone(); r.C += c; return r }

func (l Lin) String() string {
	var parts []string
	var atoms []Atom
	for a := range l.T {
		atoms = append(atoms, a)
	}
	sort.Slice(atoms, func(i, j int) bool { return atoms[i].String() < atoms[j].String() })
	for _, a := range atoms {
		parts = append(parts, fmt.Sprintf("%+d*%s", l.T[a], a))
	}
	parts = append(parts, fmt.Sprintf("%+d", l.C))
	return strings.Join(parts, " ")
}

// Prover proves linear goals at points of one function.
type Prover struct {
	Fn    *ssa.Function
	loops []*Loop
	// DrawBound, when set, returns the bound argument n of a call that is a
	// bounded draw (post-condition 0 <= result < n).
	DrawBound func(v ssa.Value) (ssa.Value, bool)
	// NonNegResult, when set, reports calls whose integer result is >= 0 and
	// optionally an upper bound value (result <= upper).
	// Canon maps a load to the representative of its class of loads that
	// provably yield the same value (see StableLoads).
	Canon map[ssa.Value]ssa.Value
	// Equiv, when set, returns pairs of values known to be equal once the relation holds (for instance
	// the result of a guarded wrapper call and the call it forwards to when its result is not zero).
	Equiv func(rel Rel) [][2]ssa.Value
	depth int
	Trace []string
}

func (pv *Prover) canon(v ssa.Value) ssa.Value {
	if c, ok := pv.Canon[v]; ok {
		return c
	}
	return v
}

// NewProver creates a prover for fn.
func NewProver(fn *ssa.Function) *Prover {
	return &Prover{Fn: fn, loops: Loops(fn)}
}

func intInfo(t types.Type) (bits int, unsigned bool, ok bool) {
	b, isB := t.Underlying().(*types.Basic)
	if !isB || b.Info()&types.IsInteger == 0 {
		return 0, false, false
	}
	switch b.Kind() {
	case types.Int8:
		return 8, false, true
	case types.Int16:
		return 16, false, true
	case types.Int32:
		return 32, false, true
	case types.Int64:
		return 64, false, true
	case types.Int:
		return 63, false, true // 32 or 64: treated as "wide"; overflow assumed away
	case types.Uint8:
		return 8, true, true
	case types.Uint16:
		return 16, true, true
	case types.Uint32:
		return 32, true, true
	case types.Uint64, types.Uintptr:
		return 64, true, true
	case types.Uint:
		return 63, true, true
	}
	return 0, false, false
}

// Form linearises an integer SSA value.
func (pv *Prover) Form(v ssa.Value) Lin {
	v = pv.canon(v)
	switch x := v.(type) {
	case *ssa.Const:
		if c, ok := ConstInt(x); ok {
			return linConst(c)
		}
	case *ssa.BinOp:
		switch x.Op {
		case token.ADD:
			return pv.Form(x.X).Add(pv.Form(x.Y), 1)
		case token.SUB:
			// unsigned subtraction may wrap: only transparent for signed types
			if _, uns, ok := intInfo(x.Type()); ok && !uns {
				return pv.Form(x.X).Add(pv.Form(x.Y), -1)
			}
		case token.MUL:
			if c, ok := ConstInt(x.X); ok {
				return pv.Form(x.Y).Scale(c)
			}
			if c, ok := ConstInt(x.Y); ok {
				return pv.Form(x.X).Scale(c)
			}
		}
	case *ssa.UnOp:
		if x.Op == token.SUB {
			if _, uns, ok := intInfo(x.Type()); ok && !uns {
				return pv.Form(x.X).Scale(-1)
			}
		}
	case *ssa.ChangeType:
		return pv.Form(x.X)
	case *ssa.Convert:
		sb, su, ok1 := intInfo(x.X.Type())
		tb, tu, ok2 := intInfo(x.Type())
		if ok1 && ok2 {
			// value-preserving: widening with compatible sign
			if (su == tu && tb >= sb) || (su && !tu && tb > sb) {
				return pv.Form(x.X)
			}
		}
	case *ssa.Call:
		if IsBuiltin(x, "len") || IsBuiltin(x, "cap") {
			kind := "len"
			if IsBuiltin(x, "cap") {
				kind = "cap"
			}
			return pv.lenForm(kind, x.Call.Args[0])
		}
	}
	return linAtom(Atom{"v", v})
}

func (pv *Prover) lenForm(kind string, arg ssa.Value) Lin {
	arg = pv.canon(StripType(arg))
	switch s := arg.(type) {
	case *ssa.Slice:
		if kind == "len" {
			var hi Lin
			if s.High != nil {
				hi = pv.Form(s.High)
			} else {
				hi = pv.baseLen(s.X)
			}
			if s.Low != nil {
				return hi.Add(pv.Form(s.Low), -1)
			}
			return hi
		}
	case *ssa.MakeSlice:
		if kind == "len" {
			return pv.Form(s.Len)
		}
		return pv.Form(s.Cap)
	case *ssa.Const:
		if str, ok := ConstString(s); ok && kind == "len" {
			return linConst(int64(len(str)))
		}
	}
	return linAtom(Atom{kind, arg})
}

// LenForm is the linear form of len(x).
func (pv *Prover) LenForm(x ssa.Value) Lin { return pv.baseLen(x) }

// CapForm is the linear form of cap(x).
func (pv *Prover) CapForm(x ssa.Value) Lin { return pv.lenForm("cap", x) }

// baseLen is len(x) where x may be a pointer to an array.
func (pv *Prover) baseLen(x ssa.Value) Lin {
	if p, ok := x.Type().Underlying().(*types.Pointer); ok {
		if a, ok := p.Elem().Underlying().(*types.Array); ok {
			return linConst(a.Len())
		}
	}
	return pv.lenForm("len", x)
}

// constraint: L <= 0
type constraint struct{ L Lin }

type factSet struct {
	cons   []Lin          // each <= 0
	neq    []Lin          // each != 0
	parity map[Atom]int64 // atom ≡ p (mod 2)
	seen   map[Atom]bool
}

// relFacts converts a relation into constraints.
func (pv *Prover) relFacts(fs *factSet, rel Rel) {
	bx, _, okx := intInfo(rel.X.Type())
	_, _, oky := intInfo(rel.Y.Type())
	if !okx || !oky || bx == 0 {
		return
	}
	// parity guards: (x % 2) REL c, (x & 1) REL c
	if pv.parityGuard(fs, rel) {
		return
	}
	x, y := pv.Form(rel.X), pv.Form(rel.Y)
	d := x.Add(y, -1) // x - y
	switch rel.Op {
	case token.LSS:
		fs.cons = append(fs.cons, d.Plus(1))
	case token.LEQ:
		fs.cons = append(fs.cons, d)
	case token.GTR:
		fs.cons = append(fs.cons, d.Scale(-1).Plus(1))
	case token.GEQ:
		fs.cons = append(fs.cons, d.Scale(-1))
	case token.EQL:
		fs.cons = append(fs.cons, d, d.Scale(-1))
	case token.NEQ:
		fs.neq = append(fs.neq, d)
	}
}

func (pv *Prover) parityGuard(fs *factSet, rel Rel) bool {
	try := func(a, b ssa.Value, op token.Token) bool {
		bo, ok := a.(*ssa.BinOp)
		if !ok {
			return false
		}
		c, ok := ConstInt(b)
		if !ok {
			return false
		}
		isMod2 := false
		if bo.Op == token.REM {
			if k, ok := ConstInt(bo.Y); ok && k == 2 {
				isMod2 = true
			}
		}
		if bo.Op == token.AND {
			if k, ok := ConstInt(bo.Y); ok && k == 1 {
				isMod2 = true
			}
		}
		if !isMod2 {
			return false
		}
		var par int64 = -1
		switch {
		case op == token.EQL && c == 0, op == token.NEQ && c == 1 && bo.Op == token.AND:
			par = 0
		case op == token.EQL && c == 1, op == token.NEQ && c == 0:
			par = 1
		case op == token.EQL && c == -1:
			par = 1
		}
		if par < 0 {
			return false
		}
		// x ≡ par (mod 2): record on the form of x when it is a single atom with odd coefficient
		f := pv.Form(bo.X)
		pv.addParityOfForm(fs, f, par)
		return true
	}
	if try(rel.X, rel.Y, rel.Op) {
		return true
	}
	return try(rel.Y, rel.X, rel.Op)
}

// addParityOfForm records parity for a form that has exactly one atom with an
// odd coefficient and whose other atoms have known parity.
func (pv *Prover) addParityOfForm(fs *factSet, f Lin, par int64) {
	var unknown []Atom
	acc := f.C
	for a, c := range f.T {
		if c%2 == 0 {
			continue
		}
		if p, ok := fs.parity[a]; ok {
			acc += p
		} else {
			unknown = append(unknown, a)
		}
	}
	if len(unknown) == 1 {
		p := ((par-acc)%2 + 2) % 2
		fs.parity[unknown[0]] = p
	}
}

// intrinsic adds the facts that hold for atom a regardless of position.
func (pv *Prover) intrinsic(fs *factSet, a Atom) {
	if fs.seen[a] {
		return
	}
	fs.seen[a] = true
	switch a.Kind {
	case "len":
		fs.cons = append(fs.cons, linAtom(a).Scale(-1)) // -len <= 0
		return
	case "cap":
		l := Atom{"len", a.V}
		fs.cons = append(fs.cons, linAtom(l).Add(linAtom(a), -1)) // len - cap <= 0
		pv.intrinsic(fs, l)
		return
	}
	v := a.V
	if bits, uns, ok := intInfo(v.Type()); ok {
		if uns {
			fs.cons = append(fs.cons, linAtom(a).Scale(-1))
		}
		if bits <= 16 {
			max := int64(1)<<uint(bits) - 1
			min := int64(0)
			if !uns {
				max = int64(1)<<uint(bits-1) - 1
				min = -max - 1
			}
			fs.cons = append(fs.cons, linAtom(a).Plus(-max))          // a - max <= 0
			fs.cons = append(fs.cons, linAtom(a).Scale(-1).Plus(min)) // min - a <= 0
		}
	}
	switch x := v.(type) {
	case *ssa.Convert:
		// sign-changing or same-width conversion: equal to the operand when the
		// operand is provably non-negative (wrap-around assumed away for >=32 bits)
		_, _, ok1 := intInfo(x.X.Type())
		tb, _, ok2 := intInfo(x.Type())
		if ok1 && ok2 && tb >= 32 {
			src := pv.Form(x.X)
			if pv.proveWith(fs, src.Scale(-1)) { // -src <= 0
				d := linAtom(a).Add(src, -1)
				fs.cons = append(fs.cons, d, d.Scale(-1))
			}
		}
	case *ssa.Phi:
		pv.phiFacts(fs, a, x)
	case *ssa.BinOp:
		switch x.Op {
		case token.QUO, token.REM:
			k, ok := ConstInt(x.Y)
			if !ok || k <= 0 {
				return
			}
			src := pv.Form(x.X)
			if !pv.proveWith(fs, src.Scale(-1)) {
				return
			}
			if x.Op == token.QUO {
				// k*q - x <= 0 ; x - k*q - (k-1) <= 0
				fs.cons = append(fs.cons, linAtom(a).Scale(k).Add(src, -1))
				fs.cons = append(fs.cons, src.Add(linAtom(a), -k).Plus(-(k - 1)))
				// parity: x odd/even known and k == 2 gives x = 2q + p exactly
				if k == 2 {
					if p, ok := pv.parityOf(fs, src); ok {
						d := src.Add(linAtom(a), -2).Plus(-p)
						fs.cons = append(fs.cons, d, d.Scale(-1))
					}
				}
			} else {
				fs.cons = append(fs.cons, linAtom(a).Scale(-1))
				fs.cons = append(fs.cons, linAtom(a).Plus(-(k - 1)))
			}
		case token.SUB:
			// unsigned a = x - y with x >= y provable
			if _, uns, ok := intInfo(x.Type()); ok && uns {
				fx, fy := pv.Form(x.X), pv.Form(x.Y)
				if pv.proveWith(fs, fy.Add(fx, -1)) {
					d := linAtom(a).Add(fx, -1).Add(fy, 1)
					fs.cons = append(fs.cons, d, d.Scale(-1))
				}
			}
		}
	case *ssa.Call:
		if pv.DrawBound != nil {
			if n, ok := pv.DrawBound(x); ok && n != nil {
				fs.cons = append(fs.cons, linAtom(a).Scale(-1))
				fs.cons = append(fs.cons, linAtom(a).Add(pv.Form(n), -1).Plus(1))
			}
		}
	}
}

// phiFacts adds lower-bound and parity invariants for header phis and range
// bounds for plain merge phis of constants.
func (pv *Prover) phiFacts(fs *factSet, a Atom, phi *ssa.Phi) {
	var loop *Loop
	for _, l := range pv.loops {
		if l.Header == phi.Block() {
			loop = l
		}
	}
	if loop == nil {
		// merge phi: bounds from constant edges
		lo, hi, all := int64(0), int64(0), true
		for i, e := range phi.Edges {
			c, ok := ConstInt(e)
			if !ok {
				all = false
				break
			}
			if i == 0 || c < lo {
				lo = c
			}
			if i == 0 || c > hi {
				hi = c
			}
		}
		if all && len(phi.Edges) > 0 {
			fs.cons = append(fs.cons, linAtom(a).Plus(-hi), linAtom(a).Scale(-1).Plus(lo))
		}
		return
	}
	// lower bound: every outside edge is a constant >= L, every inside edge is phi + e with e >= 0
	var lows []int64
	okLow := true
	evenStep := true
	var initPar int64 = -1
	for i, e := range phi.Edges {
		pred := phi.Block().Preds[i]
		if !loop.Blocks[pred] {
			c, ok := ConstInt(e)
			if !ok {
				evenStep = false
				// a non-constant initial value that is >= 0 by the intrinsic facts of its atoms (lengths, sums of lengths)
				f := pv.Form(e)
				if _, self := f.T[a]; !self {
					sub := &factSet{parity: map[Atom]int64{}, seen: map[Atom]bool{a: true}}
					for b := range f.T {
						pv.intrinsic(sub, b)
					}
					if refute(append(append([]Lin{}, sub.cons...), f.Plus(1)), sub.parity) {
						// f <= -1 refuted: f >= 0
						lows = append(lows, 0)
						continue
					}
				}
				okLow = false
				continue
			}
			lows = append(lows, c)
			p := ((c % 2) + 2) % 2
			if initPar >= 0 && initPar != p {
				evenStep = false
			}
			initPar = p
			continue
		}
		// the value carried round the loop may itself be a merge (inside the loop) of
		// several candidates, e.g. phi(unchanged, advanced) after an expanded helper:
		// every leaf must be phi + d with d >= 0
		var leaves []ssa.Value
		seenPhi := map[*ssa.Phi]bool{phi: true}
		var expand func(v ssa.Value, depth int)
		expand = func(v ssa.Value, depth int) {
			if ip, isPhi := v.(*ssa.Phi); isPhi && ip != phi && loop.Blocks[ip.Block()] && depth < 6 {
				isHeader := false
				for _, l := range pv.loops {
					if l.Header == ip.Block() {
						isHeader = true
					}
				}
				if !isHeader {
					if seenPhi[ip] {
						return
					}
					seenPhi[ip] = true
					for _, ie := range ip.Edges {
						expand(ie, depth+1)
					}
					return
				}
			}
			leaves = append(leaves, v)
		}
		expand(e, 0)
		for _, leaf := range leaves {
			f := pv.Form(leaf)
			d := f.Add(linAtom(a), -1) // leaf - phi
			if _, still := d.T[a]; still {
				okLow, evenStep = false, false
				continue
			}
			// d must be >= 0
			if len(d.T) == 0 {
				if d.C < 0 {
					okLow = false
				}
				if d.C%2 != 0 {
					evenStep = false
				}
			} else {
				evenStep = false
				// prove -d <= 0 from intrinsic facts of its atoms only
				sub := &factSet{parity: map[Atom]int64{}, seen: map[Atom]bool{a: true}}
				for b := range d.T {
					pv.intrinsic(sub, b)
				}
				if !refute(append(append([]Lin{}, sub.cons...), d.Plus(1)), sub.parity) {
					okLow = false
				}
			}
		}
	}
	if okLow && len(lows) > 0 {
		L := lows[0]
		for _, c := range lows {
			if c < L {
				L = c
			}
		}
		fs.cons = append(fs.cons, linAtom(a).Scale(-1).Plus(L)) // L - phi <= 0
	}
	if evenStep && initPar >= 0 {
		fs.parity[a] = initPar
	}
}

func (pv *Prover) parityOf(fs *factSet, f Lin) (int64, bool) {
	acc := f.C
	for a, c := range f.T {
		if c%2 == 0 {
			continue
		}
		p, ok := fs.parity[a]
		if !ok {
			return 0, false
		}
		acc += p
	}
	return ((acc % 2) + 2) % 2, true
}

// proveWith proves goal <= 0 from the facts already in fs (no new guards).
func (pv *Prover) proveWith(fs *factSet, goal Lin) bool {
	if pv.depth > 4 {
		return false
	}
	pv.depth++
	defer func() { pv.depth-- }()
	for a := range goal.T {
		pv.intrinsic(fs, a)
	}
	cons := append(append([]Lin{}, fs.cons...), goal.Scale(-1).Plus(1))
	return refute(cons, fs.parity)
}

// Facts collects the constraints known at entry of block b.
func (pv *Prover) facts(b *ssa.BasicBlock) *factSet {
	fs := &factSet{parity: map[Atom]int64{}, seen: map[Atom]bool{}}
	guards := Guards(b)
	// outermost first so that parity facts of outer guards are available
	for i := len(guards) - 1; i >= 0; i-- {
		if rel, ok := AsRel(guards[i]); ok {
			pv.relFacts(fs, rel)
			if pv.Equiv != nil {
				for _, pr := range pv.Equiv(rel) {
					d := pv.Form(pr[0]).Add(pv.Form(pr[1]), -1)
					fs.cons = append(fs.cons, d, d.Scale(-1))
				}
			}
		}
		// a condition that fixes the edge by which a merge was entered fixes every phi of that merge:
		// integers are equal to, slices and strings as long as, their value on that edge
		if q, excluded := guardPhi(guards[i], 0); q != nil {
			k, n := -1, 0
			for j, e := range q.Edges {
				if !excluded(e, q.Block().Preds[j]) {
					k = j
					n++
				}
			}
			if n == 1 {
				for _, in := range q.Block().Instrs {
					ph, isPhi := in.(*ssa.Phi)
					if !isPhi {
						break
					}
					e := ph.Edges[k]
					switch ph.Type().Underlying().(type) {
					case *types.Slice:
						d := pv.lenForm("len", ph).Add(pv.lenForm("len", e), -1)
						fs.cons = append(fs.cons, d, d.Scale(-1))
					case *types.Basic:
						if _, _, isInt := intInfo(ph.Type()); isInt {
							d := pv.Form(ph).Add(pv.Form(e), -1)
							fs.cons = append(fs.cons, d, d.Scale(-1))
						} else if b := ph.Type().Underlying().(*types.Basic); b.Info()&types.IsString != 0 {
							d := pv.lenForm("len", ph).Add(pv.lenForm("len", e), -1)
							fs.cons = append(fs.cons, d, d.Scale(-1))
						}
					}
				}
			}
		}
	}
	return fs
}

// ProveLE proves goal <= 0 at entry of block b. It returns a description of
// the facts used on failure.
func (pv *Prover) ProveLE(b *ssa.BasicBlock, goal Lin) (bool, string) {
	fs := pv.facts(b)
	// close atoms: a few rounds because intrinsic facts introduce new atoms
	for round := 0; round < 4; round++ {
		atoms := map[Atom]bool{}
		for a := range goal.T {
			atoms[a] = true
		}
		for _, c := range fs.cons {
			for a := range c.T {
				atoms[a] = true
			}
		}
		for _, c := range fs.neq {
			for a := range c.T {
				atoms[a] = true
			}
		}
		n := len(fs.seen)
		var list []Atom
		for a := range atoms {
			list = append(list, a)
		}
		sort.Slice(list, func(i, j int) bool { return list[i].String() < list[j].String() })
		for _, a := range list {
			pv.intrinsic(fs, a)
		}
		if len(fs.seen) == n {
			break
		}
	}
	neg := goal.Scale(-1).Plus(1) // goal >= 1
	base := append(append([]Lin{}, fs.cons...), neg)
	// case split on disequalities (at most 4)
	neqs := fs.neq
	if len(neqs) > 4 {
		neqs = neqs[:4]
	}
	ok := true
	for mask := 0; mask < 1<<uint(len(neqs)); mask++ {
		cons := append([]Lin{}, base...)
		for i, d := range neqs {
			if mask&(1<<uint(i)) == 0 {
				cons = append(cons, d.Plus(1)) // d <= -1
			} else {
				cons = append(cons, d.Scale(-1).Plus(1)) // d >= 1
			}
		}
		if !refute(cons, fs.parity) {
			ok = false
			break
		}
	}
	if ok {
		return true, ""
	}
	var fsS []string
	for _, c := range fs.cons {
		fsS = append(fsS, c.String()+" <= 0")
	}
	for _, c := range fs.neq {
		fsS = append(fsS, c.String()+" != 0")
	}
	for a, p := range fs.parity {
		fsS = append(fsS, fmt.Sprintf("%s ≡ %d (mod 2)", a, p))
	}
	sort.Strings(fsS)
	if len(fsS) > 14 {
		fsS = fsS[:14]
	}
	return false, "cannot prove " + goal.String() + " <= 0 from {" + strings.Join(fsS, "; ") + "}"
}

func gcd(a, b int64) int64 {
	if a < 0 {
		a = -a
	}
	if b < 0 {
		b = -b
	}
	for b != 0 {
		a, b = b, a%b
	}
	return a
}

// tighten normalises c <= 0 over the integers: parity tightening, then divide
// by the gcd of the coefficients rounding the constant up.
func tighten(c Lin, parity map[Atom]int64) Lin {
	// parity: if every atom with odd coefficient has known parity, the value's
	// parity is known; an odd value <= 0 is <= -1
	acc := c.C
	known := true
	for a, k := range c.T {
		if k%2 == 0 {
			continue
		}
		p, ok := parity[a]
		if !ok {
			known = false
			break
		}
		acc += p
	}
	if known && len(c.T) > 0 && ((acc%2)+2)%2 == 1 {
		c = c.Plus(1)
	}
	var g int64
	for _, k := range c.T {
		g = gcd(g, k)
	}
	if g > 1 {
		r := Lin{T: map[Atom]int64{}}
		for a, k := range c.T {
			r.T[a] = k / g
		}
		// ceil(C/g)
		q := c.C / g
		if c.C%g != 0 && c.C > 0 {
			q++
		}
		r.C = q
		return r
	}
	return c
}

// refute reports whether the conjunction of (c <= 0) is unsatisfiable over the
// integers, by Fourier-Motzkin elimination with tightening (sound: only
// reports true when a contradiction constant > 0 <= 0 is derived).
func refute(cons []Lin, parity map[Atom]int64) bool {
	cur := make([]Lin, 0, len(cons))
	for _, c := range cons {
		cur = append(cur, tighten(c, parity))
	}
	for iter := 0; iter < 64; iter++ {
		// contradiction?
		for _, c := range cur {
			if len(c.T) == 0 && c.C > 0 {
				return true
			}
		}
		// choose the atom with the fewest pos*neg products
		counts := map[Atom][2]int{}
		for _, c := range cur {
			for a, k := range c.T {
				x := counts[a]
				if k > 0 {
					x[0]++
				} else {
					x[1]++
				}
				counts[a] = x
			}
		}
		if len(counts) == 0 {
			return false
		}
		var best Atom
		bestCost := -1
		var atoms []Atom
		for a := range counts {
			atoms = append(atoms, a)
		}
		sort.Slice(atoms, func(i, j int) bool { return atoms[i].String() < atoms[j].String() })
		for _, a := range atoms {
			x := counts[a]
			cost := x[0] * x[1]
			if bestCost < 0 || cost < bestCost {
				best, bestCost = a, cost
			}
		}
		var pos, neg, rest []Lin
		for _, c := range cur {
			k := c.T[best]
			switch {
			case k > 0:
				pos = append(pos, c)
			case k < 0:
				neg = append(neg, c)
			default:
				rest = append(rest, c)
			}
		}
		if len(pos)*len(neg) > 4000 {
			return false
		}
		for _, p := range pos {
			for _, n := range neg {
				kp, kn := p.T[best], -n.T[best]
				g := gcd(kp, kn)
				// (kn/g)*p + (kp/g)*n eliminates best
				c := p.Scale(kn/g).Add(n, kp/g)
				delete(c.T, best)
				c = tighten(c, parity)
				if len(c.T) == 0 && c.C <= 0 {
					continue
				}
				rest = append(rest, c)
			}
		}
		cur = dedupe(rest)
	}
	return false
}

func dedupe(cs []Lin) []Lin {
	seen := map[string]bool{}
	var out []Lin
	for _, c := range cs {
		k := c.String()
		if !seen[k] {
			seen[k] = true
			out = append(out, c)
		}
	}
	return out
}

// ParityAt returns the parity of form f at entry of block b when the facts
// (guards and phi invariants) determine it.
func (pv *Prover) ParityAt(b *ssa.BasicBlock, f Lin) (int64, bool) {
	fs := pv.facts(b)
	for a := range f.T {
		pv.intrinsic(fs, a)
	}
	return pv.parityOf(fs, f)
}
