package core

import (
	"go/token"
	"strings"

	"golang.org/x/tools/go/ssa"
)

// StableLoads groups the loads of fn that read the same field path of the
// same object (a local Alloc or a pointer parameter) and returns, for every
// load that provably yields the same value as an earlier one, that earlier
// representative. Two loads L1 (dominating) and L2 of root.path yield the same
// value when no write to that path can execute between them: no store to the
// field (or whole object), and no call that receives the object's address and
// may write the field (EFF field-write summaries), in any block reachable from
// L1 — except positions that precede L1 in its own block.
func StableLoads(fn *ssa.Function, eff *Eff) map[ssa.Value]ssa.Value {
	type key struct {
		root ssa.Value
		path string
	}
	groups := map[key][]*ssa.UnOp{}
	var order []key
	for _, b := range fn.DomPreorder() {
		for _, in := range b.Instrs {
			ld, ok := in.(*ssa.UnOp)
			if !ok || ld.Op != token.MUL {
				continue
			}
			fa, ok := ld.X.(*ssa.FieldAddr)
			if !ok {
				continue
			}
			ref, ok := AddrPath(fa)
			if !ok || strings.Contains(ref.Path, "[") {
				continue
			}
			switch ref.Root.(type) {
			case *ssa.Alloc, *ssa.Parameter:
			default:
				continue
			}
			k := key{ref.Root, ref.Path}
			if _, seen := groups[k]; !seen {
				order = append(order, k)
			}
			groups[k] = append(groups[k], ld)
		}
	}
	out := map[ssa.Value]ssa.Value{}
	for _, k := range order {
		lds := groups[k]
		if len(lds) < 2 {
			continue
		}
		first := strings.SplitN(strings.TrimPrefix(k.path, "."), ".", 2)[0]
		writers := fieldWriters(fn, eff, k.root, first)
		// a location nothing writes after the parameter was copied into it (the usual case for the fields
		// of a by-value receiver) holds one value throughout: every load equals the first, dominated or not
		// (a load inside an expanded helper's early-exit structure does not dominate the code after it)
		onlyParamCopy := true
		for _, w := range writers {
			st, isSt := w.(*ssa.Store)
			if !isSt || st.Addr != k.root {
				onlyParamCopy = false
				break
			}
			if _, isParam := st.Val.(*ssa.Parameter); !isParam || st.Block() != fn.Blocks[0] {
				onlyParamCopy = false
				break
			}
		}
		if onlyParamCopy {
			for i := 1; i < len(lds); i++ {
				out[lds[i]] = lds[0]
			}
			continue
		}
		for i := 1; i < len(lds); i++ {
			// representative: the earliest load that dominates lds[i] with no writer in between
			for j := 0; j < i; j++ {
				if _, isRep := out[lds[j]]; isRep {
					continue
				}
				if !instrDominates(lds[j], lds[i]) {
					continue
				}
				if !writerBetween(lds[j], lds[i], writers) {
					out[lds[i]] = lds[j]
					break
				}
			}
		}
	}
	return out
}

// fieldWriters lists the instructions of fn that may write field `field` of
// the object root.
func fieldWriters(fn *ssa.Function, eff *Eff, root ssa.Value, field string) []ssa.Instruction {
	var out []ssa.Instruction
	for _, ref := range Referrers(root) {
		switch x := ref.(type) {
		case *ssa.Store:
			if x.Addr == root {
				out = append(out, x)
			}
		case *ssa.FieldAddr:
			if FieldName(x) != field {
				continue
			}
			for _, rr := range Referrers(x) {
				switch y := rr.(type) {
				case *ssa.Store:
					if y.Addr == x {
						out = append(out, y)
					}
				case ssa.CallInstruction:
					out = append(out, y) // address of the field escapes to a call
				}
			}
		case ssa.CallInstruction:
			for i, a := range x.Common().Args {
				if a != root {
					continue
				}
				for _, g := range eff.P.Callees(x) {
					if !eff.P.InModule(g) {
						out = append(out, x)
						continue
					}
					for _, w := range eff.fieldWrites[g] {
						if w.idx == i && (w.field == field || w.field == "") {
							out = append(out, x)
						}
					}
				}
			}
		case *ssa.MakeClosure:
			// captured: a closure may write it when called; be conservative only if some closure writes a captured var
			for _, ef := range eff.Summary[x.Fn.(*ssa.Function)] {
				if ef.Root.Kind == RFreeVar {
					out = append(out, x)
				}
			}
		}
	}
	return out
}

// writerBetween: can a writer execute after a and before b (a dominates b)?
func writerBetween(a, b ssa.Instruction, writers []ssa.Instruction) bool {
	if len(writers) == 0 {
		return false
	}
	// blocks reachable from a's block without passing through... (over-approximation: any block reachable from a that can reach b)
	reachA := reach(a.Block(), true)
	reachB := reach(b.Block(), false)
	for _, w := range writers {
		wb := w.Block()
		if wb == a.Block() && wb == b.Block() {
			if posIn(wb, w) > posIn(wb, a) && posIn(wb, w) < posIn(wb, b) {
				return true
			}
			// in a loop the block may be re-entered: writer anywhere in the block matters if the block reaches itself
			if reachA[wb] && selfReach(wb) {
				return true
			}
			continue
		}
		if wb == a.Block() {
			if posIn(wb, w) > posIn(wb, a) || selfReach(wb) {
				return true
			}
			continue
		}
		if wb == b.Block() {
			if posIn(wb, w) < posIn(wb, b) || selfReach(wb) {
				return true
			}
			continue
		}
		if reachA[wb] && reachB[wb] {
			return true
		}
	}
	return false
}

func posIn(b *ssa.BasicBlock, in ssa.Instruction) int {
	for i, x := range b.Instrs {
		if x == in {
			return i
		}
	}
	return -1
}

func selfReach(b *ssa.BasicBlock) bool {
	for _, s := range b.Succs {
		if reach(s, true)[b] {
			return true
		}
	}
	return false
}

// reach returns the blocks reachable from b (forward) or that can reach b (backward), including b.
func reach(b *ssa.BasicBlock, forward bool) map[*ssa.BasicBlock]bool {
	seen := map[*ssa.BasicBlock]bool{}
	stack := []*ssa.BasicBlock{b}
	for len(stack) > 0 {
		x := stack[len(stack)-1]
		stack = stack[:len(stack)-1]
		if seen[x] {
			continue
		}
		seen[x] = true
		if forward {
			stack = append(stack, x.Succs...)
		} else {
			stack = append(stack, x.Preds...)
		}
	}
	return seen
}
