package core

import (
	"fmt"
	"go/constant"
	"go/token"
	"go/types"
	"strings"

	"golang.org/x/tools/go/ssa"
)

// StaticCallee returns the statically resolved callee of a call instruction
// (function, method, or closure literal called directly), or nil.
func StaticCallee(c ssa.CallInstruction) *ssa.Function {
	if c == nil {
		return nil
	}
	com := c.Common()
	if f := com.StaticCallee(); f != nil {
		return f
	}
	return nil
}

// QualName renders a function as "pkgpath.Name" or "(pkgpath.T).Name" /
// "(*pkgpath.T).Name".
func QualName(fn *ssa.Function) string {
	if fn == nil {
		return ""
	}
	return fn.String()
}

// CallName returns the qualified name of the static callee of a call, or for an
// interface invoke "invoke:<iface type>.<method>", or "" for dynamic calls.
func CallName(c ssa.CallInstruction) string {
	com := c.Common()
	if com.IsInvoke() {
		return "invoke:" + com.Value.Type().String() + "." + com.Method.Name()
	}
	if f := com.StaticCallee(); f != nil {
		return f.String()
	}
	if b, ok := com.Value.(*ssa.Builtin); ok {
		return "builtin:" + b.Name()
	}
	return ""
}

// IsCall reports whether v is a call whose static callee has the qualified name.
func IsCall(v ssa.Value, name string) (*ssa.Call, bool) {
	c, ok := v.(*ssa.Call)
	if !ok {
		return nil, false
	}
	if CallName(c) == name {
		return c, true
	}
	return nil, false
}

// IsBuiltin reports whether the call is to the named builtin.
func IsBuiltin(c ssa.CallInstruction, name string) bool {
	b, ok := c.Common().Value.(*ssa.Builtin)
	return ok && b.Name() == name
}

// LenOf returns x when v is len(x).
func LenOf(v ssa.Value) (ssa.Value, bool) {
	c, ok := v.(*ssa.Call)
	if !ok || !IsBuiltin(c, "len") {
		return nil, false
	}
	return c.Call.Args[0], true
}

// Strip removes value-preserving conversions (ChangeType, MakeInterface,
// ChangeInterface) and numeric Convert instructions.
func Strip(v ssa.Value) ssa.Value {
	for {
		switch x := v.(type) {
		case *ssa.ChangeType:
			v = x.X
		case *ssa.Convert:
			v = x.X
		case *ssa.MakeInterface:
			v = x.X
		case *ssa.ChangeInterface:
			v = x.X
		default:
			return v
		}
	}
}

// StripType removes ChangeType / ChangeInterface / MakeInterface only.
func StripType(v ssa.Value) ssa.Value {
	for {
		switch x := v.(type) {
		case *ssa.ChangeType:
			v = x.X
		case *ssa.MakeInterface:
			v = x.X
		case *ssa.ChangeInterface:
			v = x.X
		default:
			return v
		}
	}
}

// ConstInt returns the integer value of a constant.
func ConstInt(v ssa.Value) (int64, bool) {
	c, ok := v.(*ssa.Const)
	if !ok || c.Value == nil {
		return 0, false
	}
	if c.Value.Kind() != constant.Int {
		return 0, false
	}
	if i, ok := constant.Int64Val(c.Value); ok {
		return i, true
	}
	if u, ok := constant.Uint64Val(c.Value); ok {
		return int64(u), true
	}
	return 0, false
}

// ConstUint returns the unsigned integer value of a constant.
func ConstUint(v ssa.Value) (uint64, bool) {
	c, ok := v.(*ssa.Const)
	if !ok || c.Value == nil || c.Value.Kind() != constant.Int {
		return 0, false
	}
	if u, ok := constant.Uint64Val(c.Value); ok {
		return u, true
	}
	return 0, false
}

// ConstString returns the string value of a constant.
func ConstString(v ssa.Value) (string, bool) {
	c, ok := v.(*ssa.Const)
	if !ok || c.Value == nil || c.Value.Kind() != constant.String {
		return "", false
	}
	return constant.StringVal(c.Value), true
}

// IsNilConst reports whether v is the nil constant.
func IsNilConst(v ssa.Value) bool {
	c, ok := v.(*ssa.Const)
	return ok && c.Value == nil
}

// Guard is a branch condition known to hold on entry to a block.
type Guard struct {
	Cond ssa.Value
	Pos  bool // true: Cond holds; false: !Cond holds
	If   *ssa.If
}

// Guards returns the branch conditions that dominate block b: for every
// dominator D ending in an If, if exactly one successor S of D satisfies
// "S dominates b and S's only predecessor is D" the corresponding polarity is
// known on entry to b.
//
// In addition the conditions are threaded through merges (threadGuards): when a known
// condition fixes the value of a phi so that only one of its incoming edges can have been
// taken, the conditions known on that edge are known too.
func Guards(b *ssa.BasicBlock) []Guard {
	return threadGuards(domGuards(b), 0)
}

// threadGuards: for a known condition `phi == c`, `phi != c` (c nil or a constant) or a phi of
// constant booleans used as the condition itself, an incoming edge of the phi whose value
// contradicts the condition was not the edge taken. If exactly one edge remains, control came
// through that predecessor the last time the merge was executed, so the conditions dominating
// that predecessor — and the condition of the branch from it, if any — hold as well. (This is
// what makes `x, err := helper(); if err != nil { return } …` after an expanded helper as
// informative as the helper's own early returns were.)
// ThreadGuards applies the merge threading of Guards to a guard list computed elsewhere.
func ThreadGuards(gs []Guard) []Guard { return threadGuards(gs, 0) }

// SelectedEdge: v is a phi, and one of the known conditions gs fixes — through a phi of the same block — the
// edge by which that block was entered: the value v has on that edge (v itself otherwise).
func SelectedEdge(v ssa.Value, gs []Guard) ssa.Value {
	phi, ok := v.(*ssa.Phi)
	if !ok {
		return v
	}
	for _, g := range gs {
		q, excluded := guardPhi(g, 0)
		if q == nil || q.Block() != phi.Block() {
			continue
		}
		k, n := -1, 0
		for j, e := range q.Edges {
			if !excluded(e, q.Block().Preds[j]) {
				k = j
				n++
			}
		}
		if n == 1 {
			return phi.Edges[k]
		}
	}
	return v
}

// guardPhi: the phi a guard constrains and the predicate telling which incoming values the guard rules out.
func guardPhi(g Guard, depth int) (*ssa.Phi, func(e ssa.Value, pred *ssa.BasicBlock) bool) {
	if ph, ok := g.Cond.(*ssa.Phi); ok {
		want := g.Pos
		return ph, func(e ssa.Value, _ *ssa.BasicBlock) bool {
			c, ok := e.(*ssa.Const)
			return ok && c.Value != nil && c.Value.Kind() == constant.Bool && constant.BoolVal(c.Value) != want
		}
	}
	rel, ok := AsRel(g)
	if !ok || (rel.Op != token.EQL && rel.Op != token.NEQ) {
		return nil, nil
	}
	x, y := rel.X, rel.Y
	if _, isC := x.(*ssa.Const); isC {
		x, y = y, x
	}
	ph, isPhi := x.(*ssa.Phi)
	c, isC := y.(*ssa.Const)
	if !isPhi || !isC {
		return nil, nil
	}
	eq := rel.Op == token.EQL
	m0 := ph.Block()
	return ph, func(e ssa.Value, pred *ssa.BasicBlock) bool {
		if ec, ok := e.(*ssa.Const); ok {
			same := (ec.Value == nil) == (c.Value == nil) && (ec.Value == nil || constant.Compare(ec.Value, token.EQL, c.Value))
			return same != eq
		}
		if c.Value == nil && eq {
			return definitelyNonNil(e, pred, m0, depth)
		}
		return false
	}
}

func threadGuards(gs []Guard, depth int) []Guard {
	if depth > 3 {
		return gs
	}
	out := gs
	seen := map[*ssa.Phi]bool{}
	for i := 0; i < len(out) && i < 64; i++ {
		g := out[i]
		var phi *ssa.Phi
		var m0 *ssa.BasicBlock
		excluded := func(e ssa.Value, pred *ssa.BasicBlock) bool { return false }
		if ph, ok := g.Cond.(*ssa.Phi); ok {
			phi = ph
			want := g.Pos
			excluded = func(e ssa.Value, _ *ssa.BasicBlock) bool {
				c, ok := e.(*ssa.Const)
				return ok && c.Value != nil && c.Value.Kind() == constant.Bool && constant.BoolVal(c.Value) != want
			}
		} else if rel, ok := AsRel(g); ok && (rel.Op == token.EQL || rel.Op == token.NEQ) {
			x, y := rel.X, rel.Y
			if _, isC := x.(*ssa.Const); isC {
				x, y = y, x
			}
			ph, isPhi := x.(*ssa.Phi)
			c, isC := y.(*ssa.Const)
			if !isPhi || !isC {
				continue
			}
			phi = ph
			m0 = ph.Block()
			eq := rel.Op == token.EQL
			excluded = func(e ssa.Value, pred *ssa.BasicBlock) bool {
				if ec, ok := e.(*ssa.Const); ok {
					same := (ec.Value == nil) == (c.Value == nil) && (ec.Value == nil || constant.Compare(ec.Value, token.EQL, c.Value))
					return same != eq
				}
				if c.Value == nil && eq {
					return definitelyNonNil(e, pred, m0, depth)
				}
				return false
			}
		}
		if phi == nil || seen[phi] {
			continue
		}
		seen[phi] = true
		m := phi.Block()
		k := -1
		n := 0
		for j, e := range phi.Edges {
			if !excluded(e, m.Preds[j]) {
				k = j
				n++
			}
		}
		if n != 1 {
			continue
		}
		pred := m.Preds[k]
		extra := threadGuards(domGuards(pred), depth+1)
		// a boolean merge used as the condition itself has, on the one edge that remains, the value the condition has
		if ph, isCond := g.Cond.(*ssa.Phi); isCond && ph == phi {
			if _, isConst := phi.Edges[k].(*ssa.Const); !isConst {
				extra = append(extra, Guard{Cond: phi.Edges[k], Pos: g.Pos, If: g.If})
			}
		}
		if len(pred.Succs) == 2 && pred.Succs[0] != pred.Succs[1] {
			idx := 0
			if pred.Succs[1] == m {
				idx = 1
			}
			if eg, ok := EdgeCond(pred, idx); ok {
				extra = append(extra, eg)
			}
		}
		for _, e := range extra {
			dup := false
			for _, o := range out {
				if o.Cond == e.Cond && o.Pos == e.Pos {
					dup = true
				}
			}
			if !dup {
				out = append(out, e)
			}
		}
	}
	return out
}

// definitelyNonNil: a freshly constructed error, or a value tested != nil on the way to pred.
func definitelyNonNil(e ssa.Value, pred, to *ssa.BasicBlock, depth int) bool {
	if c, ok := e.(*ssa.Call); ok {
		if n := CallName(c); n == "errors.New" || n == "fmt.Errorf" {
			return true
		}
	}
	gs := domGuards(pred)
	if depth < 3 {
		gs = threadGuards(gs, depth+1)
	}
	if to != nil && len(pred.Succs) == 2 && pred.Succs[0] != pred.Succs[1] {
		idx := 0
		if pred.Succs[1] == to {
			idx = 1
		}
		if eg, ok := EdgeCond(pred, idx); ok {
			gs = append(gs, eg)
		}
	}
	for _, g := range gs {
		if rel, ok := AsRel(g); ok && rel.Op == token.NEQ && rel.X == e && IsNilConst(rel.Y) {
			return true
		}
	}
	if ph, ok := e.(*ssa.Phi); ok {
		for j, pe := range ph.Edges {
			if IsNilConst(pe) || !definitelyNonNilShallow(pe, ph.Block().Preds[j]) {
				return false
			}
		}
		return len(ph.Edges) > 0
	}
	return false
}

func definitelyNonNilShallow(e ssa.Value, pred *ssa.BasicBlock) bool {
	if c, ok := e.(*ssa.Call); ok {
		if n := CallName(c); n == "errors.New" || n == "fmt.Errorf" {
			return true
		}
	}
	for _, g := range domGuards(pred) {
		if rel, ok := AsRel(g); ok && rel.Op == token.NEQ && rel.X == e && IsNilConst(rel.Y) {
			return true
		}
	}
	return false
}

func domGuards(b *ssa.BasicBlock) []Guard {
	var out []Guard
	for d := b.Idom(); d != nil; d = d.Idom() {
		if len(d.Instrs) == 0 {
			continue
		}
		iff, ok := d.Instrs[len(d.Instrs)-1].(*ssa.If)
		if !ok {
			continue
		}
		t, f := d.Succs[0], d.Succs[1]
		if t == f {
			continue
		}
		td := len(t.Preds) == 1 && t.Dominates(b)
		fd := len(f.Preds) == 1 && f.Dominates(b)
		if td && !fd {
			out = append(out, Guard{iff.Cond, true, iff})
		} else if fd && !td {
			out = append(out, Guard{iff.Cond, false, iff})
		}
	}
	return out
}

// EdgeGuards returns Guards(b) plus, when b itself ends in an If, nothing
// more; for the condition on a particular outgoing edge use EdgeCond.
func EdgeCond(from *ssa.BasicBlock, succIdx int) (Guard, bool) {
	if len(from.Instrs) == 0 {
		return Guard{}, false
	}
	iff, ok := from.Instrs[len(from.Instrs)-1].(*ssa.If)
	if !ok {
		return Guard{}, false
	}
	return Guard{iff.Cond, succIdx == 0, iff}, true
}

// Rel is a normalised integer comparison lhs OP rhs.
type Rel struct {
	Op  token.Token // LSS, LEQ, GTR, GEQ, EQL, NEQ
	X   ssa.Value
	Y   ssa.Value
	Neg bool
}

// AsRel interprets a guard as a comparison, applying the polarity, and
// looking through boolean negation.
func AsRel(g Guard) (Rel, bool) {
	v := g.Cond
	pos := g.Pos
	for {
		if u, ok := v.(*ssa.UnOp); ok && u.Op == token.NOT {
			v = u.X
			pos = !pos
			continue
		}
		break
	}
	b, ok := v.(*ssa.BinOp)
	if !ok {
		return Rel{}, false
	}
	op := b.Op
	switch op {
	case token.LSS, token.LEQ, token.GTR, token.GEQ, token.EQL, token.NEQ:
	default:
		return Rel{}, false
	}
	if !pos {
		op = negate(op)
	}
	return Rel{Op: op, X: b.X, Y: b.Y}, true
}

func negate(op token.Token) token.Token {
	switch op {
	case token.LSS:
		return token.GEQ
	case token.LEQ:
		return token.GTR
	case token.GTR:
		return token.LEQ
	case token.GEQ:
		return token.LSS
	case token.EQL:
		return token.NEQ
	case token.NEQ:
		return token.EQL
	}
	return op
}

// Flip swaps the operands of a relation.
func (r Rel) Flip() Rel {
	op := r.Op
	switch r.Op {
	case token.LSS:
		op = token.GTR
	case token.LEQ:
		op = token.GEQ
	case token.GTR:
		op = token.LSS
	case token.GEQ:
		op = token.LEQ
	}
	return Rel{Op: op, X: r.Y, Y: r.X}
}

// Loop is a natural loop.
type Loop struct {
	Header *ssa.BasicBlock
	Blocks map[*ssa.BasicBlock]bool
	Latch  []*ssa.BasicBlock
}

// Loops returns the natural loops of fn (one per header, back edges merged).
func Loops(fn *ssa.Function) []*Loop {
	byHeader := map[*ssa.BasicBlock]*Loop{}
	var order []*ssa.BasicBlock
	for _, b := range fn.Blocks {
		for _, s := range b.Succs {
			if s.Dominates(b) { // back edge b -> s
				l := byHeader[s]
				if l == nil {
					l = &Loop{Header: s, Blocks: map[*ssa.BasicBlock]bool{s: true}}
					byHeader[s] = l
					order = append(order, s)
				}
				l.Latch = append(l.Latch, b)
				// collect body: nodes that reach b without passing s
				stack := []*ssa.BasicBlock{b}
				for len(stack) > 0 {
					n := stack[len(stack)-1]
					stack = stack[:len(stack)-1]
					if l.Blocks[n] {
						continue
					}
					l.Blocks[n] = true
					for _, p := range n.Preds {
						stack = append(stack, p)
					}
				}
			}
		}
	}
	var out []*Loop
	for _, h := range order {
		out = append(out, byHeader[h])
	}
	return out
}

// InnermostLoop returns the smallest loop containing b, or nil.
func InnermostLoop(loops []*Loop, b *ssa.BasicBlock) *Loop {
	var best *Loop
	for _, l := range loops {
		if l.Blocks[b] && (best == nil || len(l.Blocks) < len(best.Blocks)) {
			best = l
		}
	}
	return best
}

// LoopsContaining returns all loops containing b, innermost first.
func LoopsContaining(loops []*Loop, b *ssa.BasicBlock) []*Loop {
	var out []*Loop
	for _, l := range loops {
		if l.Blocks[b] {
			out = append(out, l)
		}
	}
	for i := 0; i < len(out); i++ {
		for j := i + 1; j < len(out); j++ {
			if len(out[j].Blocks) < len(out[i].Blocks) {
				out[i], out[j] = out[j], out[i]
			}
		}
	}
	return out
}

// Counted describes a counted loop i = phi(init, i+step) with exit test.
type Counted struct {
	Loop  *Loop
	Phi   *ssa.Phi
	Init  ssa.Value
	Step  int64
	Bound ssa.Value   // the value i is compared against in the header test
	Op    token.Token // relation (i Op Bound) that holds inside the body
	Body  *ssa.BasicBlock
	Exit  *ssa.BasicBlock
}

// AsCounted recognises a counted loop: header has a phi i with one incoming
// value from outside and the others equal to i+c (c const), and the header ends
// in If on a comparison between i and a bound, one successor inside the loop.
func AsCounted(l *Loop) (*Counted, bool) {
	h := l.Header
	if len(h.Instrs) == 0 {
		return nil, false
	}
	iff, ok := h.Instrs[len(h.Instrs)-1].(*ssa.If)
	if !ok {
		return nil, false
	}
	var body, exit *ssa.BasicBlock
	var pos bool
	switch {
	case l.Blocks[h.Succs[0]] && !l.Blocks[h.Succs[1]]:
		body, exit, pos = h.Succs[0], h.Succs[1], true
	case l.Blocks[h.Succs[1]] && !l.Blocks[h.Succs[0]]:
		body, exit, pos = h.Succs[1], h.Succs[0], false
	default:
		return nil, false
	}
	rel, ok := AsRel(Guard{iff.Cond, pos, iff})
	if !ok {
		return nil, false
	}
	try := func(r Rel) (*Counted, bool) {
		phi, ok := r.X.(*ssa.Phi)
		if !ok || phi.Block() != h {
			return nil, false
		}
		var init ssa.Value
		var step int64
		stepSet := false
		for i, e := range phi.Edges {
			pred := h.Preds[i]
			if !l.Blocks[pred] {
				if init != nil && init != e {
					return nil, false
				}
				init = e
				continue
			}
			bo, ok := e.(*ssa.BinOp)
			if !ok || (bo.Op != token.ADD && bo.Op != token.SUB) {
				return nil, false
			}
			var c int64
			if bo.X == phi {
				cc, ok := ConstInt(bo.Y)
				if !ok {
					return nil, false
				}
				c = cc
			} else if bo.Y == phi && bo.Op == token.ADD {
				cc, ok := ConstInt(bo.X)
				if !ok {
					return nil, false
				}
				c = cc
			} else {
				return nil, false
			}
			if bo.Op == token.SUB {
				c = -c
			}
			if stepSet && c != step {
				return nil, false
			}
			step, stepSet = c, true
		}
		if init == nil || !stepSet {
			return nil, false
		}
		return &Counted{Loop: l, Phi: phi, Init: init, Step: step, Bound: r.Y, Op: r.Op, Body: body, Exit: exit}, true
	}
	if c, ok := try(rel); ok {
		return c, true
	}
	return try(rel.Flip())
}

// RangeLoop describes a `for i, x := range slice` loop as go/ssa builds it
// (counted from -1 with pre-increment) or a range over map/string via Next.
type RangeInfo struct {
	Loop   *Loop
	Kind   string    // "slice", "map", "string", "chan"
	X      ssa.Value // the ranged value
	Index  ssa.Value // the index (slice) value inside the body
	Next   *ssa.Next
	RangeI *ssa.Range
	Body   *ssa.BasicBlock
	Exit   *ssa.BasicBlock
}

// AsRange recognises go/ssa's lowering of range loops.
func AsRange(l *Loop) (*RangeInfo, bool) {
	h := l.Header
	if len(h.Instrs) == 0 {
		return nil, false
	}
	iff, ok := h.Instrs[len(h.Instrs)-1].(*ssa.If)
	if !ok {
		return nil, false
	}
	var body, exit *ssa.BasicBlock
	switch {
	case l.Blocks[h.Succs[0]] && !l.Blocks[h.Succs[1]]:
		body, exit = h.Succs[0], h.Succs[1]
	default:
		return nil, false
	}
	// map/string: t = next it; ok = extract t #0; if ok
	if ex, ok := iff.Cond.(*ssa.Extract); ok && ex.Index == 0 {
		if nx, ok := ex.Tuple.(*ssa.Next); ok {
			if rg, ok := nx.Iter.(*ssa.Range); ok {
				kind := "map"
				if nx.IsString {
					kind = "string"
				}
				return &RangeInfo{Loop: l, Kind: kind, X: rg.X, Next: nx, RangeI: rg, Body: body, Exit: exit}, true
			}
		}
	}
	// slice: phi(-1, inc); inc = phi + 1; if inc < len(x)
	if bo, ok := iff.Cond.(*ssa.BinOp); ok && bo.Op == token.LSS {
		inc, ok := bo.X.(*ssa.BinOp)
		if ok && inc.Op == token.ADD {
			phi, ok := inc.X.(*ssa.Phi)
			if ok && phi.Block() == h {
				if c, ok := ConstInt(inc.Y); ok && c == 1 {
					initOK := false
					for i, e := range phi.Edges {
						if !l.Blocks[h.Preds[i]] {
							if c, ok := ConstInt(e); ok && c == -1 {
								initOK = true
							}
						} else if e != inc {
							return nil, false
						}
					}
					if initOK {
						if x, ok := LenOf(bo.Y); ok {
							return &RangeInfo{Loop: l, Kind: "slice", X: x, Index: inc, Body: body, Exit: exit}, true
						}
					}
				}
			}
		}
	}
	// chan: t = <-ch,ok
	if ex, ok := iff.Cond.(*ssa.Extract); ok && ex.Index == 1 {
		if u, ok := ex.Tuple.(*ssa.UnOp); ok && u.Op == token.ARROW && u.CommaOk {
			return &RangeInfo{Loop: l, Kind: "chan", X: u.X, Body: body, Exit: exit}, true
		}
	}
	return nil, false
}

// FieldRef describes an address or load that resolves to root.path.
type FieldRef struct {
	Root ssa.Value // the base pointer (Alloc, Parameter, ...)
	Path string    // ".f.g" or "[*]" components
}

// AddrPath resolves an address value to (root pointer, field path).
func AddrPath(v ssa.Value) (FieldRef, bool) {
	path := ""
	for {
		switch x := v.(type) {
		case *ssa.FieldAddr:
			st := derefStruct(x.X.Type())
			if st == nil {
				return FieldRef{}, false
			}
			path = "." + st.Field(x.Field).Name() + path
			v = x.X
		case *ssa.IndexAddr:
			path = "[*]" + path
			v = x.X
		default:
			return FieldRef{Root: v, Path: path}, true
		}
	}
}

// LoadPath resolves a load (*addr) to its root and path.
func LoadPath(v ssa.Value) (FieldRef, bool) {
	u, ok := v.(*ssa.UnOp)
	if !ok || u.Op != token.MUL {
		// value-level Field extraction
		if f, ok := v.(*ssa.Field); ok {
			st, _ := f.X.Type().Underlying().(*types.Struct)
			if st == nil {
				return FieldRef{}, false
			}
			inner, ok := LoadPath(f.X)
			if !ok {
				return FieldRef{Root: f.X, Path: "." + st.Field(f.Field).Name()}, true
			}
			inner.Path += "." + st.Field(f.Field).Name()
			return inner, true
		}
		return FieldRef{}, false
	}
	return AddrPath(u.X)
}

func derefStruct(t types.Type) *types.Struct {
	if p, ok := t.Underlying().(*types.Pointer); ok {
		t = p.Elem()
	}
	st, _ := t.Underlying().(*types.Struct)
	return st
}

// FieldName returns the name of the field addressed by a FieldAddr.
func FieldName(fa *ssa.FieldAddr) string {
	st := derefStruct(fa.X.Type())
	if st == nil {
		return "?"
	}
	return st.Field(fa.Field).Name()
}

// NamedOf returns the name of the (possibly pointer-to) named type of t, with
// package path: "pkgpath.Name".
func NamedOf(t types.Type) string {
	if p, ok := t.(*types.Pointer); ok {
		t = p.Elem()
	}
	if a, ok := t.(*types.Alias); ok {
		t = types.Unalias(a)
	}
	if n, ok := t.(*types.Named); ok {
		if n.Obj().Pkg() != nil {
			return n.Obj().Pkg().Path() + "." + n.Obj().Name()
		}
		return n.Obj().Name()
	}
	return ""
}

// Instrs iterates over every instruction of fn.
func Instrs(fn *ssa.Function, f func(ssa.Instruction)) {
	for _, b := range fn.Blocks {
		for _, in := range b.Instrs {
			f(in)
		}
	}
}

// Calls returns every call instruction (call, go, defer) of fn.
func Calls(fn *ssa.Function) []ssa.CallInstruction {
	var out []ssa.CallInstruction
	Instrs(fn, func(in ssa.Instruction) {
		if c, ok := in.(ssa.CallInstruction); ok {
			out = append(out, c)
		}
	})
	return out
}

// Returns returns every Return instruction of fn.
func Returns(fn *ssa.Function) []*ssa.Return {
	var out []*ssa.Return
	Instrs(fn, func(in ssa.Instruction) {
		if r, ok := in.(*ssa.Return); ok {
			out = append(out, r)
		}
	})
	return out
}

// Referrers returns the referrers of v (nil-safe).
func Referrers(v ssa.Value) []ssa.Instruction {
	if v == nil {
		return nil
	}
	r := v.Referrers()
	if r == nil {
		return nil
	}
	return *r
}

// Describe renders a value briefly for diagnostics.
func Describe(v ssa.Value) string {
	if v == nil {
		return "<nil>"
	}
	switch x := v.(type) {
	case *ssa.Const:
		return x.String()
	case *ssa.Parameter:
		return "param " + x.Name()
	case *ssa.Global:
		return "global " + x.Name()
	case *ssa.Function:
		return "func " + x.Name()
	case ssa.Instruction:
		s := x.String()
		if len(s) > 80 {
			s = s[:80] + "…"
		}
		return fmt.Sprintf("%s = %s", v.Name(), s)
	}
	return v.Name()
}

// SameValue reports whether a and b are the same SSA value modulo
// value-preserving conversions, or equal constants, or loads of the same
// local-struct field path with no intervening may-write (approximated: same
// root Alloc and path, see StableLoads).
func SameValue(a, b ssa.Value) bool {
	a, b = Strip(a), Strip(b)
	if a == b {
		return true
	}
	ca, ok1 := a.(*ssa.Const)
	cb, ok2 := b.(*ssa.Const)
	if ok1 && ok2 {
		if ca.Value == nil || cb.Value == nil {
			return ca.Value == cb.Value
		}
		return constant.Compare(ca.Value, token.EQL, cb.Value)
	}
	return false
}

// HasPrefixAny reports whether s has one of the prefixes.
func HasPrefixAny(s string, pre ...string) bool {
	for _, p := range pre {
		if strings.HasPrefix(s, p) {
			return true
		}
	}
	return false
}

// ReachableFrom returns the set of functions reachable from the roots in the
// VTA call graph (including the roots).
func (p *Program) ReachableFrom(roots ...*ssa.Function) map[*ssa.Function]bool {
	cg := p.CallGraph()
	seen := map[*ssa.Function]bool{}
	var stack []*ssa.Function
	for _, r := range roots {
		if r != nil {
			stack = append(stack, r)
		}
	}
	for len(stack) > 0 {
		f := stack[len(stack)-1]
		stack = stack[:len(stack)-1]
		if seen[f] {
			continue
		}
		seen[f] = true
		n := cg.Nodes[f]
		if n == nil {
			continue
		}
		for _, e := range n.Out {
			if !seen[e.Callee.Func] {
				stack = append(stack, e.Callee.Func)
			}
		}
		// anonymous functions created here are conservatively reachable
		for _, a := range f.AnonFuncs {
			if !seen[a] {
				stack = append(stack, a)
			}
		}
	}
	return seen
}

// Callees returns the call-graph callees of a call site.
func (p *Program) Callees(site ssa.CallInstruction) []*ssa.Function {
	if f := StaticCallee(site); f != nil {
		return []*ssa.Function{f}
	}
	n := p.CallGraph().Nodes[site.Parent()]
	if n == nil {
		return nil
	}
	var out []*ssa.Function
	for _, e := range n.Out {
		if e.Site == site {
			out = append(out, e.Callee.Func)
		}
	}
	return out
}

// Callers returns the call sites of fn in the call graph.
func (p *Program) Callers(fn *ssa.Function) []ssa.CallInstruction {
	n := p.CallGraph().Nodes[fn]
	if n == nil {
		return nil
	}
	var out []ssa.CallInstruction
	for _, e := range n.In {
		if e.Site != nil {
			out = append(out, e.Site)
		}
	}
	return out
}

// EmptinessTest interprets a guard as a test of a string (or slice) for emptiness, whichever way it
// is spelt: v != "" / v == "", len(v) > 0 / != 0 / >= 1, len(v) == 0 / < 1 / <= 0. nonEmpty tells
// which of the two is known to hold.
func EmptinessTest(g Guard) (v ssa.Value, nonEmpty bool, ok bool) {
	rel, isRel := AsRel(g)
	if !isRel {
		return nil, false, false
	}
	x, y, op := rel.X, rel.Y, rel.Op
	if _, isC := x.(*ssa.Const); isC {
		x, y = y, x
		switch op {
		case token.LSS:
			op = token.GTR
		case token.GTR:
			op = token.LSS
		case token.LEQ:
			op = token.GEQ
		case token.GEQ:
			op = token.LEQ
		}
	}
	if s, isS := ConstString(y); isS && s == "" {
		switch op {
		case token.NEQ:
			return x, true, true
		case token.EQL:
			return x, false, true
		}
		return nil, false, false
	}
	if lx, isLen := LenOf(x); isLen {
		if k, isC := ConstInt(y); isC {
			switch {
			case op == token.GTR && k == 0, op == token.NEQ && k == 0, op == token.GEQ && k == 1:
				return lx, true, true
			case op == token.EQL && k == 0, op == token.LSS && k == 1, op == token.LEQ && k == 0:
				return lx, false, true
			}
		}
	}
	return nil, false, false
}
