package core

import (
	"encoding/json"
	"fmt"
	"os"
	"path/filepath"
	"sort"
	"strings"
	"time"
)

// Status of an obligation.
const (
	Discharged = "discharged"
	Violated   = "violated"
	Undecided  = "undecided" // rule could not see / recognise its subject: counts as failure
	Known      = "known-finding"
)

// Obligation is one rule instance.
type Obligation struct {
	Key        string `json:"key"`
	Rule       string `json:"rule"`
	Func       string `json:"function,omitempty"`
	Construct  string `json:"construct"`
	Pos        string `json:"pos,omitempty"`
	Status     string `json:"status"`
	Detail     string `json:"detail,omitempty"`
	Nontrivial bool   `json:"nontrivial"`
	Config     string `json:"config,omitempty"`
}

// Report collects the obligations of one property on one configuration.
type Report struct {
	alias string // see Borrow
	Property string
	P        *Program
	Obs      []Obligation
	Counts   map[string]int
	Notes    []string
	seen     map[string]int
}

// NewReport creates an empty report.
func NewReport(prop string, p *Program) *Report {
	return &Report{Property: prop, P: p, Counts: map[string]int{}, seen: map[string]int{}}
}

// Note records free-text analysis information for the evidence.
func (r *Report) Note(format string, a ...interface{}) {
	r.Notes = append(r.Notes, fmt.Sprintf(format, a...))
}

// Count records an instance count (role instances, sites analysed...).
func (r *Report) Count(name string, n int) { r.Counts[name] += n }

// Borrow runs f with every rule id reported as `as` (and the original id kept in
// the construct text): a property whose argument rests on the rules of another
// re-runs them under its own id.
func (r *Report) Borrow(as string, f func()) {
	prev := r.alias
	r.alias = as
	defer func() { r.alias = prev }()
	f()
}

func (r *Report) add(rule, fn, construct, pos, status, detail string, nontrivial bool) {
	if r.alias != "" && rule != r.alias {
		construct = "[" + rule + "] " + construct
		rule = r.alias
	}
	key := r.Property + "/" + rule + "@" + fn + ":" + construct
	if n := r.seen[key]; n > 0 {
		r.seen[key] = n + 1
		key = fmt.Sprintf("%s#%d", key, n+1)
	} else {
		r.seen[key] = 1
	}
	cfg := ""
	if r.P != nil {
		cfg = r.P.Config.Name
	}
	r.Obs = append(r.Obs, Obligation{Key: key, Rule: rule, Func: fn, Construct: construct, Pos: pos,
		Status: status, Detail: detail, Nontrivial: nontrivial, Config: cfg})
}

// Check records an obligation as discharged or violated.
func (r *Report) Check(ok bool, rule, fn, construct, pos, detail string) bool {
	st := Discharged
	if !ok {
		st = Violated
	}
	r.add(rule, fn, construct, pos, st, detail, true)
	return ok
}

// Trivial records a discharged obligation over constants only.
func (r *Report) Trivial(ok bool, rule, fn, construct, pos, detail string) bool {
	st := Discharged
	if !ok {
		st = Violated
	}
	r.add(rule, fn, construct, pos, st, detail, false)
	return ok
}

// Fail records a violation.
func (r *Report) Fail(rule, fn, construct, pos, detail string) {
	r.add(rule, fn, construct, pos, Violated, detail, true)
}

// Pass records a discharged obligation.
func (r *Report) Pass(rule, fn, construct, pos, detail string) {
	r.add(rule, fn, construct, pos, Discharged, detail, true)
}

// Unrecognised records an obligation whose subject could not be resolved or
// whose shape is outside every table: it fails the check (no vacuous pass).
func (r *Report) Unrecognised(rule, fn, construct, pos, detail string) {
	r.add(rule, fn, construct, pos, Undecided, "UNRECOGNISED: "+detail, true)
}

// Floor fails when fewer than min instances of a role were found.
func (r *Report) Floor(rule, role string, got, min int) bool {
	r.Counts[role] = got
	ok := got >= min
	st := Discharged
	if !ok {
		st = Undecided
	}
	r.add(rule, "-", "floor "+role, "", st, fmt.Sprintf("found %d instance(s) of role %q, floor %d", got, role, min), false)
	return ok
}

// KnownFinding is an entry of /verif/known_findings.json.
type KnownFinding struct {
	Property string `json:"property"`
	Key      string `json:"key"`
	Status   string `json:"status"` // "known" | "fixed"
	Commit   string `json:"commit,omitempty"`
	What     string `json:"what"`
}

// LoadKnown reads the known findings file (missing file = none).
func LoadKnown(path string) ([]KnownFinding, error) {
	b, err := os.ReadFile(path)
	if err != nil {
		if os.IsNotExist(err) {
			return nil, nil
		}
		return nil, err
	}
	var doc struct {
		Findings []KnownFinding `json:"findings"`
	}
	if err := json.Unmarshal(b, &doc); err != nil {
		return nil, err
	}
	return doc.Findings, nil
}

// Evidence is the JSON document written per property.
type Evidence struct {
	PropertyID  string                 `json:"property_id"`
	Tier        string                 `json:"tier"`
	Seed        int                    `json:"seed"`
	Level       string                 `json:"level"`
	Coverage    map[string]interface{} `json:"coverage"`
	Assumptions []string               `json:"assumptions"`
	WallS       float64                `json:"wall_s"`
	Violations  int                    `json:"violations"`
}

// PropertyMeta is the static description of one property's check.
type PropertyMeta struct {
	ID          string
	Explanation string
	Rules       []string // rule id + one-line statement of the rule applied
	Trusted     []string
	Assumptions []string
	NotDecided  []string
}

// Outcome of finishing a run.
type Outcome struct {
	Violations int
	Known      int
	ExitCode   int
}

// Finish merges the reports of all configurations, applies the known-findings
// file, writes evidence and replay files, prints the VIOLATION / KNOWN-FINDING
// lines and returns the exit code.
func Finish(meta PropertyMeta, tier string, seed int, reports []*Report, extra map[string]interface{},
	verifDir string, start time.Time, fatal []string) Outcome {

	known, kerr := LoadKnown(filepath.Join(verifDir, "known_findings.json"))
	if kerr != nil {
		fatal = append(fatal, "known_findings.json unreadable: "+kerr.Error())
	}
	knownKeys := map[string]KnownFinding{}
	for _, k := range known {
		if k.Property == meta.ID && k.Status == "known" {
			knownKeys[k.Key] = k
		}
	}

	var all []Obligation
	counts := map[string]map[string]int{}
	var notes []string
	var configs []string
	var files []string
	nfuncs := 0
	for _, rp := range reports {
		cfg := "default"
		if rp.P != nil {
			cfg = rp.P.Config.Name
			files = rp.P.Files
			nfuncs = rp.P.NFuncs
		}
		configs = append(configs, cfg)
		counts[cfg] = rp.Counts
		for _, n := range rp.Notes {
			notes = append(notes, "["+cfg+"] "+n)
		}
		all = append(all, rp.Obs...)
	}

	var violated []Obligation
	printedKnown := map[string]bool{}
	nKnown := 0
	distinct := map[string]bool{}
	discharged := 0
	for i := range all {
		o := &all[i]
		if o.Status == Violated || o.Status == Undecided {
			if k, ok := knownKeys[o.Key]; ok && o.Status == Violated {
				o.Status = Known
				nKnown++
				if !printedKnown[o.Key] {
					printedKnown[o.Key] = true
					fmt.Printf("KNOWN-FINDING: property=%s %s [%s at %s]\n", meta.ID, k.What, o.Key, o.Pos)
				}
				continue
			}
			violated = append(violated, *o)
			continue
		}
		discharged++
		if o.Nontrivial {
			distinct[o.Key] = true
		}
	}

	// samples: all violated, then up to 40 obligations spread over rules.
	var samples []interface{}
	for _, o := range violated {
		samples = append(samples, o)
	}
	perRule := map[string]int{}
	for _, o := range all {
		if o.Status == Violated || o.Status == Undecided {
			continue
		}
		if perRule[o.Rule] >= 4 || len(samples) >= 60 {
			continue
		}
		perRule[o.Rule]++
		samples = append(samples, o)
	}

	cov := map[string]interface{}{
		"explanation":         meta.Explanation,
		"rules_applied":       meta.Rules,
		"not_decided":         meta.NotDecided,
		"obligations":         len(all),
		"discharged":          discharged,
		"known_findings":      nKnown,
		"evaluations":         len(all),
		"distinct_nontrivial": len(distinct),
		"rule": "one evaluation = one rule instance (obligation) keyed property/rule@function:construct, evaluated on the " +
			"type-checked SSA form of /repo's current working tree; non-trivial = the instance involves at least one non-constant " +
			"program construct (floors and constant-table rows are trivial); distinct = distinct keys",
		"samples":         samples,
		"trusted_base":    meta.Trusted,
		"checker_cmd":     "/verif/bin/spgcheck check -prop " + meta.ID + " -tier " + tier,
		"configurations":  configs,
		"instance_counts": counts,
		"analysed_files":  files,
		"ssa_functions":   nfuncs,
		"notes":           notes,
		"exhaustive":      false,
		"fatal":           fatal,
		"all_obligations": compact(all),
	}
	for k, v := range extra {
		cov[k] = v
	}

	nviol := len(violated) + len(fatal)
	ev := Evidence{PropertyID: meta.ID, Tier: tier, Seed: seed, Level: "other", Coverage: cov,
		Assumptions: append(append([]string{}, meta.Assumptions...), meta.Trusted...),
		WallS:       time.Since(start).Seconds(), Violations: nviol}
	evDir := filepath.Join(verifDir, "evidence")
	_ = os.MkdirAll(evDir, 0o755)
	evPath := filepath.Join(evDir, meta.ID+".json")
	writeJSON(evPath, ev)

	fmt.Printf("property=%s tier=%s configs=%s obligations=%d discharged=%d known=%d violated=%d wall=%.2fs\n",
		meta.ID, tier, strings.Join(configs, ","), len(all), discharged, nKnown, nviol, time.Since(start).Seconds())

	replay := filepath.Join(evDir, meta.ID+".violations.json")
	if nviol == 0 {
		_ = os.Remove(replay)
		return Outcome{0, nKnown, 0}
	}
	sort.SliceStable(violated, func(i, j int) bool { return violated[i].Key < violated[j].Key })
	for _, f := range fatal {
		fmt.Printf("  FATAL %s\n", f)
	}
	for _, o := range violated {
		fmt.Printf("  %s %s\n      at %s [%s] %s\n", strings.ToUpper(o.Status), o.Key, o.Pos, o.Config, o.Detail)
	}
	writeJSON(replay, map[string]interface{}{
		"property_id": meta.ID, "tier": tier, "violated": violated, "fatal": fatal,
		"replay": "spgcheck explain " + replay,
	})
	fmt.Printf("VIOLATION property=%s replay=%s\n", meta.ID, replay)
	return Outcome{nviol, nKnown, 1}
}

func compact(obs []Obligation) []string {
	out := make([]string, 0, len(obs))
	for _, o := range obs {
		out = append(out, fmt.Sprintf("%s | %s | %s | %s", o.Status, o.Key, o.Pos, o.Config))
	}
	return out
}

func writeJSON(path string, v interface{}) {
	b, err := json.MarshalIndent(v, "", " ")
	if err != nil {
		fmt.Fprintf(os.Stderr, "cannot marshal %s: %v\n", path, err)
		os.Exit(2)
	}
	tmp := path + ".tmp"
	if err := os.WriteFile(tmp, b, 0o644); err != nil {
		fmt.Fprintf(os.Stderr, "cannot write %s: %v\n", path, err)
		os.Exit(2)
	}
	_ = os.Rename(tmp, path)
}
