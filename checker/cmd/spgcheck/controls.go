package main

import (
	"bufio"
	"fmt"
	"go/types"
	"os"
	"os/exec"
	"path/filepath"
	"runtime"
	"sort"
	"strings"
	"sync"

	"spgverif/internal/core"
	"spgverif/internal/rules"
)

// controlResult is one sensitivity/specificity control of the thorough tier.
type controlResult struct {
	Name    string   `json:"name"`
	Expect  string   `json:"expect"`
	Note    string   `json:"note,omitempty"`
	Status  string   `json:"status"` // detected | silent-as-expected | CONTROL-MISS | FALSE-ALARM | skipped
	Why     string   `json:"why,omitempty"`
	Flagged []string `json:"flagged_obligations,omitempty"`
}

// runControls applies every control patch registered for the property to a
// scratch copy of the current working tree of repo (outside /repo and /verif,
// removed afterwards), type-checks the variant and runs the property's rules on
// it. Controls never change the exit status of the check: they document that
// the rules fire on seeded violations built from the tree as it is now and stay
// silent on behaviour-preserving edits.
func runControls(pr *rules.Property, repo, verif string, known map[string]bool) []controlResult {
	var files []string
	m, _ := filepath.Glob(filepath.Join(verif, "controls", pr.Meta.ID, "*.patch"))
	files = append(files, m...)
	// every behaviour-preserving control of any property must stay silent here too
	neg, _ := filepath.Glob(filepath.Join(verif, "controls", "*", "neg-*.patch"))
	res, _ := filepath.Glob(filepath.Join(verif, "controls", "*", "residual-*.patch"))
	neg = append(neg, res...)
	for _, f := range neg {
		dup := false
		for _, g := range files {
			if g == f {
				dup = true
			}
		}
		if !dup {
			files = append(files, f)
		}
	}
	seeded, _ := filepath.Glob(filepath.Join(verif, "seeded", "*", "patch.diff"))
	files = append(files, seeded...)
	sort.Strings(files)
	type job struct {
		f, kind, note string
	}
	var jobs []job
	for _, f := range files {
		kind, props, note := parseControlHeader(f)
		if kind == "" {
			continue
		}
		mine := len(props) == 0
		for _, p := range props {
			if p == pr.Meta.ID {
				mine = true
			}
		}
		if kind == "violation" && !mine {
			continue
		}
		if kind == "silent" && strings.HasPrefix(filepath.Base(f), "residual-") && !mine {
			continue // recorded residual false alarm of this property
		}
		jobs = append(jobs, job{f, kind, note})
	}
	out := make([]controlResult, len(jobs))
	sem := make(chan struct{}, 8)
	var wg sync.WaitGroup
	for i, j := range jobs {
		wg.Add(1)
		sem <- struct{}{}
		go func(i int, j job) {
			defer wg.Done()
			defer func() { <-sem }()
			out[i] = oneControl(pr, repo, verif, j.f, j.kind, j.note, known)
		}(i, j)
	}
	wg.Wait()
	runtime.GC()
	return out
}

func oneControl(pr *rules.Property, repo, verif, f, kind, note string, known map[string]bool) controlResult {
	{
		rel, _ := filepath.Rel(verif, f)
		res := controlResult{Name: rel, Expect: kind, Note: note}
		flagged, why := runOneControl(pr, repo, f, known)
		switch {
		case why != "":
			res.Status, res.Why = "skipped", why
		case kind == "violation" && len(flagged) > 0:
			res.Status = "detected"
		case kind == "violation":
			res.Status = "CONTROL-MISS"
		case len(flagged) > 0:
			res.Status = "FALSE-ALARM"
		default:
			res.Status = "silent-as-expected"
		}
		if len(flagged) > 6 {
			flagged = flagged[:6]
		}
		res.Flagged = flagged
		return res
	}
}

func parseControlHeader(path string) (kind string, props []string, note string) {
	fh, err := os.Open(path)
	if err != nil {
		return "", nil, ""
	}
	defer fh.Close()
	sc := bufio.NewScanner(fh)
	for i := 0; i < 6 && sc.Scan(); i++ {
		line := sc.Text()
		if strings.HasPrefix(line, "# expect:") {
			f := strings.Fields(strings.TrimPrefix(line, "# expect:"))
			if len(f) > 0 {
				kind, props = f[0], f[1:]
			}
		}
		if strings.HasPrefix(line, "# note:") {
			note = strings.TrimSpace(strings.TrimPrefix(line, "# note:"))
		}
	}
	return
}

func runOneControl(pr *rules.Property, repo, patch string, known map[string]bool) (flagged []string, skip string) {
	tmp, err := os.MkdirTemp("", "spgctl.")
	if err != nil {
		return nil, "no scratch directory: " + err.Error()
	}
	defer os.RemoveAll(tmp)
	dst := filepath.Join(tmp, "repo")
	cp := exec.Command("rsync", "-a", "--exclude", ".git", repo+"/", dst+"/")
	if b, err := cp.CombinedOutput(); err != nil {
		return nil, "copy failed: " + string(b)
	}
	ap := exec.Command("patch", "-p1", "-s", "--no-backup-if-mismatch", "-i", patch)
	ap.Dir = dst
	if b, err := ap.CombinedOutput(); err != nil {
		return nil, "patch does not apply to the current tree: " + firstLine(string(b))
	}
	defer func() {
		if x := recover(); x != nil {
			flagged = append(flagged, fmt.Sprintf("checker panic: %v", x))
		}
	}()
	p, err := core.Load(dst, core.Configs[0])
	if err != nil {
		return nil, "variant does not type-check: " + firstLine(err.Error())
	}
	defer rules.Forget(p)
	rp := core.NewReport(pr.Meta.ID, p)
	pr.RunLocked(p, rp)
	if nBad(rp) > 0 {
		for _, mode := range []func(*core.Program) func(*types.Func) bool{rules.Anchors, rules.AnchorsByName} {
			if rn := runNormalised(pr, dst, core.Configs[0], p, mode); rn != nil && nBad(rn) < nBad(rp) && coversRules(rn, rp) {
				rp = rn
			}
		}
	}
	for _, o := range rp.Obs {
		if (o.Status == core.Violated || o.Status == core.Undecided) && !known[o.Key] {
			flagged = append(flagged, o.Key+" @ "+o.Pos)
		}
	}
	return flagged, ""
}

func firstLine(s string) string {
	s = strings.TrimSpace(s)
	if i := strings.IndexByte(s, '\n'); i >= 0 {
		s = s[:i]
	}
	if len(s) > 200 {
		s = s[:200]
	}
	return s
}
