// Command spgcheck decides structural clauses of the spg properties by static
// analysis of /repo's current source (go/packages + go/ssa + VTA call graph).
package main

import (
	"encoding/json"
	"flag"
	"fmt"
	"go/build"
	"go/types"
	"os"
	"path/filepath"
	"runtime/debug"
	"strconv"
	"strings"
	"time"

	"spgverif/internal/core"
	"spgverif/internal/rules"
)

func main() {
	if len(os.Args) < 2 {
		usage()
	}
	switch os.Args[1] {
	case "check":
		os.Exit(cmdCheck(os.Args[2:]))
	case "explain":
		os.Exit(cmdExplain(os.Args[2:]))
	case "effects":
		repo := envOr("SPG_REPO", "/repo")
		if len(os.Args) > 2 {
			repo = os.Args[2]
		}
		p, err := core.Load(repo, core.Configs[0])
		if err != nil {
			fmt.Fprintln(os.Stderr, err)
			os.Exit(2)
		}
		eff := core.GetEff(p)
		for _, fn := range p.ModuleFuncs() {
			fmt.Printf("%s  returnsFresh=%v\n", core.FuncName(fn), eff.ReturnsFresh(fn))
			for _, ef := range eff.Direct[fn] {
				fmt.Printf("    direct  %-45s %-28s %s\n", ef.Root, ef.What, p.InstrPos(ef.Instr))
			}
			for _, ef := range eff.Summary[fn] {
				fmt.Printf("    SUMMARY %-45s %s @%s via[%s]\n", ef.Root, ef.What, p.InstrPos(ef.Instr), ef.Via)
			}
			for _, u := range eff.Unknown[fn] {
				fmt.Printf("    UNKNOWN %s\n", u)
			}
		}
	case "normalise":
		repo := os.Args[2]
		p, err := core.Load(repo, core.Configs[0])
		if err != nil {
			fmt.Fprintln(os.Stderr, err)
			os.Exit(2)
		}
		cur := p
		merged := map[string][]byte{}
		for round := 0; round < 8; round++ {
			ov, names := core.NormaliseOverlay(cur, rules.AnchorsByName(cur), core.NormaliseOpts{})
			if len(ov) == 0 {
				break
			}
			fmt.Println("round", round, "expanded:", names)
			for f, b := range ov {
				merged[f] = b
			}
			next, err := core.LoadOverlay(repo, core.Configs[0], merged)
			if err != nil {
				fmt.Println("normal form does not type-check:", err)
				break
			}
			cur = next
		}
		for f, b := range merged {
			if len(os.Args) > 3 {
				_ = os.WriteFile(os.Args[3]+"/"+strings.ReplaceAll(strings.TrimPrefix(f, repo+"/"), "/", "_"), b, 0o644)
			}
		}
	case "checkall":
		// checkall <repo>: every property's rules on one load of the tree as written (default
		// configuration, no normal form, no evidence) — used by tools/mutation.py only
		repo := os.Args[2]
		p, err := core.Load(repo, core.Configs[0])
		if err != nil {
			fmt.Println("LOAD-ERROR", firstLineOf(err.Error()))
			os.Exit(3)
		}
		loadKnownKeys(envOr("SPG_VERIF", "/verif"))
		for _, id := range rules.IDs() {
			pr := rules.Get(id)
			rp := core.NewReport(id, p)
			func() {
				defer func() {
					if x := recover(); x != nil {
						rp.Unrecognised("R0", "-", "checker panic", "", fmt.Sprint(x))
					}
				}()
				pr.RunLocked(p, rp)
			}()
			first := ""
			for _, o := range rp.Obs {
				if o.Status == core.Undecided || o.Status == core.Violated && !knownKeys[o.Key] {
					first = o.Status + " " + o.Key + " @ " + o.Pos
					break
				}
			}
			fmt.Printf("%s bad=%d %s\n", id, nBad(rp), first)
		}
	case "list":
		for _, id := range rules.IDs() {
			fmt.Println(id)
		}
	default:
		usage()
	}
}

func usage() {
	fmt.Fprintln(os.Stderr, "usage: spgcheck check -prop Cnn [-tier quick|thorough] [-repo DIR] [-verif DIR] | explain FILE | list")
	os.Exit(2)
}

func cmdCheck(args []string) int {
	fs := flag.NewFlagSet("check", flag.ExitOnError)
	prop := fs.String("prop", "", "property id")
	tier := fs.String("tier", envOr("VERIF_TIER", "quick"), "quick|thorough")
	repo := fs.String("repo", envOr("SPG_REPO", "/repo"), "repository root")
	verif := fs.String("verif", envOr("SPG_VERIF", "/verif"), "verif root (evidence, known findings)")
	fixtures := fs.String("fixtures", envOr("SPG_FIXTURES", "/verif/checker/fixtures"), "directory of seeded-positive fixture modules")
	_ = fs.Parse(args)
	seed, _ := strconv.Atoi(os.Getenv("VERIF_SEED"))
	if *tier != "quick" && *tier != "thorough" {
		*tier = "quick"
	}
	pr := rules.Get(*prop)
	if pr == nil {
		fmt.Fprintf(os.Stderr, "unknown property %q (have %s)\n", *prop, strings.Join(rules.IDs(), " "))
		return 2
	}
	start := time.Now()
	loadKnownKeys(*verif)
	cfgs := core.Configs[:1]
	if *tier == "thorough" {
		cfgs = core.Configs
	} else if ex := filesOutsideDefaultBuild(*repo); len(ex) > 0 {
		// "cover what the build covers": the quick tier analyses the default configuration only as long
		// as that is the whole module. A non-test source file the default build leaves out (a build
		// constraint, a _GOOS/_GOARCH suffix) is code some user builds: all configurations are analysed.
		fmt.Printf("quick tier: %d source file(s) outside the default build (%s): analysing every configuration\n", len(ex), strings.Join(ex, ", "))
		cfgs = core.Configs
	}
	var reports []*core.Report
	var fatal []string
	for _, cfg := range cfgs {
		rp, err := runOne(pr, *repo, cfg)
		if err != nil {
			fatal = append(fatal, fmt.Sprintf("[%s] %v", cfg.Name, err))
		}
		if rp != nil {
			reports = append(reports, rp)
		}
	}
	extra := map[string]interface{}{}
	if pr.Fixture != "" {
		fx, ferr := runFixture(pr, *fixtures)
		extra["fixture"] = fx
		if ferr != nil {
			fatal = append(fatal, "fixture: "+ferr.Error())
		}
	}
	if *tier == "thorough" && os.Getenv("SPG_NO_CONTROLS") == "" {
		known := map[string]bool{}
		if kf, err := core.LoadKnown(*verif + "/known_findings.json"); err == nil {
			for _, k := range kf {
				if k.Status == "known" && k.Property == pr.Meta.ID {
					known[k.Key] = true
				}
			}
		}
		ctl := runControls(pr, *repo, *verif, known)
		tally := map[string]int{}
		for _, c := range ctl {
			tally[c.Status]++
		}
		extra["controls"] = ctl
		extra["controls_summary"] = tally
		fmt.Printf("controls (informational, never affect the verdict): %v\n", tally)
	}
	out := core.Finish(pr.Meta, *tier, seed, reports, extra, *verif, start, fatal)
	return out.ExitCode
}

func runOne(pr *rules.Property, repo string, cfg core.Config) (rp *core.Report, err error) {
	defer func() {
		if x := recover(); x != nil {
			err = fmt.Errorf("checker panic: %v\n%s", x, debug.Stack())
		}
	}()
	p, err := core.Load(repo, cfg)
	if err != nil {
		return nil, err
	}
	if len(p.Pkgs) < 2 {
		return nil, fmt.Errorf("expected >=2 module packages, loaded %d", len(p.Pkgs))
	}
	rp = core.NewReport(pr.Meta.ID, p)
	rp.Count("module_packages", len(p.Pkgs))
	rp.Count("module_functions", len(p.ModuleFuncs()))
	pr.RunLocked(p, rp)
	if nBad(rp) == 0 || os.Getenv("SPG_NO_NORMALISE") != "" {
		return rp, nil
	}
	// Something is reported on the tree as written. Before believing it, decide the
	// same rules on the helper-inlined normal form of the same source (semantics
	// preserving; see core/inline.go): an "extract function" refactoring must not
	// upset a shape rule. The verdict is taken from whichever form discharges more.
	best := rp
	for _, mode := range []func(*core.Program) func(*types.Func) bool{rules.Anchors, rules.AnchorsByName} {
		if rn := runNormalised(pr, repo, cfg, p, mode); rn != nil && nBad(rn) < nBad(best) && coversRules(rn, rp) {
			rn.Note("decided on the helper-inlined normal form (expanded: %v); on the tree as written %d obligation(s) did not discharge — positions refer to the regenerated source", rn.P.Inlined, nBad(rp))
			best = rn
		}
		if nBad(best) == 0 {
			break
		}
	}
	return best, nil
}

// knownKeys: keys of the recorded known findings (status "known"); a violated
// obligation with such a key is reported as KNOWN-FINDING by Finish and does not
// count as open when the two forms of the program are compared.
var knownKeys = map[string]bool{}

func loadKnownKeys(verifDir string) {
	ks, _ := core.LoadKnown(filepath.Join(verifDir, "known_findings.json"))
	for _, k := range ks {
		if k.Status == "known" {
			knownKeys[k.Key] = true
		}
	}
}

func nBad(rp *core.Report) int {
	n := 0
	for _, o := range rp.Obs {
		if o.Status == core.Undecided || o.Status == core.Violated && !knownKeys[o.Key] {
			n++
		}
	}
	return n
}

func runNormalised(pr *rules.Property, repo string, cfg core.Config, p *core.Program, anchors func(*core.Program) func(*types.Func) bool) (rp *core.Report) {
	defer func() {
		if x := recover(); x != nil {
			if os.Getenv("SPG_DEBUG") != "" {
				fmt.Fprintf(os.Stderr, "normalised run panicked: %v\n%s\n", x, debug.Stack())
			}
			rp = nil
		}
	}()
	// the expander rewrites syntax trees in place: work on a private load of the same source
	base, lerr := core.Load(repo, cfg)
	if lerr != nil {
		return nil
	}
	// every program loaded on the way is dropped from the analysis caches when this attempt is over
	loaded := []*core.Program{base}
	defer func() {
		for _, lp := range loaded {
			rules.Forget(lp)
		}
	}()
	p = base
	cur := p
	merged := map[string][]byte{}
	var inlined []string
	for round := 0; round < 8; round++ {
		ov, names := core.NormaliseOverlay(cur, anchors(cur), core.NormaliseOpts{StripRecoverAlways: pr.Meta.ID != "C09"})
		if len(ov) == 0 {
			break
		}
		for f, b := range ov {
			merged[f] = b
		}
		inlined = append(inlined, names...)
		next, err := core.LoadOverlay(repo, cfg, merged)
		if err != nil {
			if os.Getenv("SPG_DEBUG") != "" {
				fmt.Fprintf(os.Stderr, "normal form does not type-check: %v\n", err)
			}
			return nil // the normal form does not type-check: discard it
		}
		loaded = append(loaded, next)
		if len(next.Files) != len(base.Files) {
			if os.Getenv("SPG_DEBUG") != "" {
				fmt.Fprintf(os.Stderr, "normal form builds %d files, the tree %d: discarded\n", len(next.Files), len(base.Files))
			}
			return nil // a rewritten file dropped out of (or into) the build: not the same program
		}
		cur = next
	}
	evaluate := func(cur *core.Program, inlined []string) *core.Report {
		cur.Inlined = inlined
		rp := core.NewReport(pr.Meta.ID, cur)
		rp.Count("module_packages", len(cur.Pkgs))
		rp.Count("module_functions", len(cur.ModuleFuncs()))
		pr.RunLocked(cur, rp)
		if os.Getenv("SPG_DEBUG") != "" {
			fmt.Fprintf(os.Stderr, "normal form (expanded %v): %d open obligation(s)\n", inlined, nBad(rp))
			for _, o := range rp.Obs {
				if o.Status == core.Violated || o.Status == core.Undecided {
					fmt.Fprintf(os.Stderr, "   %s %s %s: %s\n", o.Rule, o.Construct, o.Pos, o.Detail)
				}
			}
		}
		return rp
	}
	if cur != p {
		rp = evaluate(cur, inlined)
		if nBad(rp) == 0 {
			return rp
		}
	}
	// last resort: single-exit functions get their tail copied into every branch (exact; see TailDupOverlay)
	cur2, dup := cur, false
	inlined2 := append([]string{}, inlined...)
	for k := 0; k < 3; k++ {
		ov, names := core.TailDupOverlay(cur2)
		if len(ov) == 0 {
			break
		}
		for f, b := range ov {
			merged[f] = b
		}
		inlined2 = append(inlined2, names...)
		next, err := core.LoadOverlay(repo, cfg, merged)
		if err != nil {
			if os.Getenv("SPG_DEBUG") != "" {
				fmt.Fprintf(os.Stderr, "tail-duplicated form does not type-check: %v\n", err)
			}
			return rp
		}
		loaded = append(loaded, next)
		cur2, dup = next, true
	}
	if dup {
		if rp2 := evaluate(cur2, inlined2); rp == nil || nBad(rp2) < nBad(rp) {
			rp = rp2
		}
	}
	return rp
}

// runFixture runs the property's rules on its seeded-positive fixture module and
// requires every expected rule to fire there (guards against blind rules whose
// expected count on the real tree is zero).
func runFixture(pr *rules.Property, fixtures string) (res map[string]interface{}, err error) {
	defer func() {
		if x := recover(); x != nil {
			err = fmt.Errorf("checker panic on fixture: %v\n%s", x, debug.Stack())
		}
	}()
	dir := fixtures + "/" + pr.Fixture
	p, lerr := core.Load(dir, core.Configs[0])
	if lerr != nil {
		return nil, lerr
	}
	rp := core.NewReport(pr.Meta.ID, p)
	pr.RunLocked(p, rp)
	fired := map[string][]string{}
	for _, o := range rp.Obs {
		if o.Status == core.Violated || o.Status == core.Undecided {
			fired[o.Rule] = append(fired[o.Rule], o.Construct+" @ "+o.Pos)
		}
	}
	var blind []string
	for _, rule := range pr.FixtureExpects {
		if len(fired[rule]) == 0 {
			blind = append(blind, rule)
		}
	}
	res = map[string]interface{}{"dir": dir, "expected_rules": pr.FixtureExpects, "fired": fired}
	if len(blind) > 0 {
		return res, fmt.Errorf("rule(s) %v did not fire on their seeded positive in %s (rule blind)", blind, dir)
	}
	return res, nil
}

func cmdExplain(args []string) int {
	if len(args) < 1 {
		usage()
	}
	b, err := os.ReadFile(args[0])
	if err != nil {
		fmt.Fprintln(os.Stderr, err)
		return 2
	}
	var doc struct {
		PropertyID string            `json:"property_id"`
		Tier       string            `json:"tier"`
		Violated   []core.Obligation `json:"violated"`
		Fatal      []string          `json:"fatal"`
	}
	if err := json.Unmarshal(b, &doc); err != nil {
		fmt.Fprintln(os.Stderr, err)
		return 2
	}
	fmt.Printf("replay of %d recorded violation(s) of %s; re-evaluating on the current tree\n", len(doc.Violated)+len(doc.Fatal), doc.PropertyID)
	for _, o := range doc.Violated {
		fmt.Printf("  recorded: %s at %s: %s\n", o.Key, o.Pos, o.Detail)
	}
	rest := []string{"-prop", doc.PropertyID, "-tier", doc.Tier}
	rest = append(rest, args[1:]...)
	return cmdCheck(rest)
}

func envOr(k, d string) string {
	if v := os.Getenv(k); v != "" {
		return v
	}
	return d
}

func firstLineOf(s string) string {
	if i := strings.IndexByte(s, '\n'); i >= 0 {
		return s[:i]
	}
	return s
}

// coversRules: the report on the normal form evaluated every rule the report on the
// tree as written evaluated (a rule set that silently lost its subject must not look
// like a rule set that discharged).
func coversRules(rn, rp *core.Report) bool {
	have := map[string]bool{}
	for _, o := range rn.Obs {
		have[o.Rule] = true
	}
	for _, o := range rp.Obs {
		// rules that only speak up on a violation leave no trace when all is well
		if o.Status == core.Discharged && !have[o.Rule] {
			return false
		}
	}
	return true
}

// filesOutsideDefaultBuild lists the non-test Go files of the module's package directories that
// the default build configuration does not compile.
func filesOutsideDefaultBuild(repo string) []string {
	var out []string
	ctx := build.Default
	ctx.CgoEnabled = false
	filepath.Walk(repo, func(path string, info os.FileInfo, err error) error {
		if err != nil {
			return nil
		}
		if info.IsDir() {
			n := info.Name()
			if path != repo && (strings.HasPrefix(n, ".") || strings.HasPrefix(n, "_") || n == "testdata" || n == "vendor") {
				return filepath.SkipDir
			}
			return nil
		}
		if !strings.HasSuffix(path, ".go") || strings.HasSuffix(path, "_test.go") {
			return nil
		}
		ok, merr := ctx.MatchFile(filepath.Dir(path), filepath.Base(path))
		if merr != nil || !ok {
			rel, _ := filepath.Rel(repo, path)
			out = append(out, rel)
		}
		return nil
	})
	return out
}
