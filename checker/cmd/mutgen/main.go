// mutgen writes single-point syntactic mutants of the non-test Go sources of a
// repository as unified diffs (one file per mutant). It is a tool for measuring
// the checker (tools/mutation.py), not part of any check.
package main

import (
	"bytes"
	"fmt"
	"go/ast"
	"go/parser"
	"go/printer"
	"go/token"
	"os"
	"os/exec"
	"path/filepath"
	"strings"
)

type mutant struct {
	file string
	pos  token.Position
	desc string
	src  []byte
}

func main() {
	if len(os.Args) < 3 {
		fmt.Fprintln(os.Stderr, "usage: mutgen <repo> <outdir>")
		os.Exit(2)
	}
	repo, out := os.Args[1], os.Args[2]
	_ = os.MkdirAll(out, 0o755)
	var files []string
	for _, pat := range []string{"*.go", "cmd/opgen/*.go"} {
		m, _ := filepath.Glob(filepath.Join(repo, pat))
		files = append(files, m...)
	}
	n := 0
	for _, f := range files {
		base := filepath.Base(f)
		if strings.HasSuffix(f, "_test.go") || base == "agilewords.go" || base == "agilesyllables.go" || base == "recipes.go" {
			continue
		}
		rel, _ := filepath.Rel(repo, f)
		for _, m := range mutate(f) {
			n++
			name := fmt.Sprintf("%04d", n)
			tmp := filepath.Join(out, name+".go.tmp")
			_ = os.WriteFile(tmp, m.src, 0o644)
			cmd := exec.Command("diff", "-u", "--label", "a/"+rel, "--label", "b/"+rel, f, tmp)
			d, _ := cmd.Output()
			_ = os.Remove(tmp)
			if len(d) == 0 {
				n--
				continue
			}
			hdr := fmt.Sprintf("# mutant: %s:%d %s\n", rel, m.pos.Line, m.desc)
			_ = os.WriteFile(filepath.Join(out, name+".patch"), append([]byte(hdr), d...), 0o644)
		}
	}
	fmt.Println(n, "mutants")
}

func render(fset *token.FileSet, f *ast.File) []byte {
	var buf bytes.Buffer
	_ = printer.Fprint(&buf, fset, f)
	return buf.Bytes()
}

// mutate parses the file once per mutant (cheap) so that each mutation is applied to a fresh tree.
func mutate(path string) []mutant {
	src, err := os.ReadFile(path)
	if err != nil {
		return nil
	}
	// count mutation points
	count := func() int {
		fset := token.NewFileSet()
		f, err := parser.ParseFile(fset, path, src, parser.ParseComments)
		if err != nil {
			return 0
		}
		n := 0
		visit(f, func(int, string, func()) { n++ })
		return n
	}()
	var out []mutant
	for i := 0; i < count; i++ {
		fset := token.NewFileSet()
		f, err := parser.ParseFile(fset, path, src, parser.ParseComments)
		if err != nil {
			return out
		}
		k := 0
		var m *mutant
		visit(f, func(pos int, desc string, apply func()) {
			if k == i {
				apply()
				m = &mutant{file: path, pos: fset.Position(token.Pos(pos)), desc: desc}
			}
			k++
		})
		if m != nil {
			m.src = render(fset, f)
			out = append(out, *m)
		}
	}
	// normalise: the unmutated rendering must be the diff base; callers diff against the file on disk,
	// so skip mutants when go/printer alone changes the file
	fset := token.NewFileSet()
	if f, err := parser.ParseFile(fset, path, src, parser.ParseComments); err == nil {
		if !bytes.Equal(render(fset, f), src) {
			// re-render base so that diffs only show the mutation: write the normalised source next to it
			_ = os.WriteFile(path, render(fset, f), 0o644)
		}
	}
	return out
}

// identSwaps: copy-paste style confusions between sibling names.
var identSwaps = map[string][]string{
	"AtomType": {"SeparatorType"}, "SeparatorType": {"AtomType"},
	"Allow": {"Require", "Exclude"}, "Require": {"Allow", "Exclude"}, "Exclude": {"Allow", "Require"},
	"AllowChars": {"ExcludeChars"}, "ExcludeChars": {"AllowChars"},
	"CSRandom": {"CSOne"}, "CSOne": {"CSRandom", "CSFirst"}, "CSFirst": {"CSAll"}, "CSAll": {"CSFirst"}, "CSNone": {"CSFirst"},
	"Union": {"Difference", "Intersect"}, "Difference": {"Union", "Intersect"},
	"allowedSet": {"requiredSets"}, "allowedChars": {"excludedChars"}, "excludedChars": {"allowedChars"}, "excludedSet": {"allowedSet"},
	"Uppers": {"Lowers"}, "Lowers": {"Uppers"}, "Digits": {"Symbols"}, "Symbols": {"Digits"}, "Ambiguous": {"Digits"},
	"Length": {"Size"}, "SeparatorChar": {"Capitalize"},
	"Entropy": {"SuccessProbability"}, "Atoms": {"Separators"}, "Separators": {"Atoms"},
	"AgileWords": {"AgileSyllables"}, "AgileSyllables": {"AgileWords"},
	"SFDigits1": {"SFDigits2"}, "SFNone": {"SFDigits1"}, "MaxUint8": {"MaxUint16"},
	"CharacterIndexKind": {"VarAtomsIndexKind"}, "VarAtomsIndexKind": {"AlternatingIndexKind"}, "AlternatingIndexKind": {"FullIndexKind"}, "FullIndexKind": {"AlternatingIndexKind"},
	"ExitUsage": {"ExitCatchall"}, "ExitCatchall": {"ExitUsage", "ExitSuccess"},
	"flagAllow": {"flagRequire"}, "flagRequire": {"flagExclude"}, "flagExclude": {"flagAllow"}, "flagSeparator": {"flagCapitalize"}, "flagEntropyWL": {"flagEntropyCR"},
	"charactersCommand": {"wordlistCommand"}, "wordlistCommand": {"charactersCommand"},
	"Println": {"Print"}, "Stderr": {"Stdout"},
}

var relFlip = map[token.Token][]token.Token{
	token.LSS: {token.LEQ, token.GEQ},
	token.LEQ: {token.LSS, token.GTR},
	token.GTR: {token.GEQ, token.LEQ},
	token.GEQ: {token.GTR, token.LSS},
	token.EQL: {token.NEQ},
	token.NEQ: {token.EQL},
}
var arithFlip = map[token.Token][]token.Token{
	token.ADD: {token.SUB}, token.SUB: {token.ADD}, token.MUL: {token.QUO}, token.QUO: {token.MUL}, token.REM: {token.QUO},
	token.LAND: {token.LOR}, token.LOR: {token.LAND}, token.AND: {token.OR}, token.OR: {token.AND}, token.SHL: {token.SHR}, token.SHR: {token.SHL},
}

// visit enumerates mutation points in a deterministic order.
func visit(f *ast.File, point func(pos int, desc string, apply func())) {
	ast.Inspect(f, func(n ast.Node) bool {
		switch x := n.(type) {
		case *ast.GenDecl:
			if x.Tok == token.IMPORT {
				return false
			}
		case *ast.BinaryExpr:
			for _, alt := range relFlip[x.Op] {
				alt, old := alt, x.Op
				point(int(x.OpPos), fmt.Sprintf("%s -> %s", old, alt), func() { x.Op = alt })
			}
			for _, alt := range arithFlip[x.Op] {
				alt, old := alt, x.Op
				if old == token.ADD {
					if bl, ok := x.X.(*ast.BasicLit); ok && bl.Kind == token.STRING {
						continue
					}
					if bl, ok := x.Y.(*ast.BasicLit); ok && bl.Kind == token.STRING {
						continue
					}
				}
				point(int(x.OpPos), fmt.Sprintf("%s -> %s", old, alt), func() { x.Op = alt })
			}
		case *ast.UnaryExpr:
			if x.Op == token.NOT {
				point(int(x.OpPos), "drop !", func() { x.X = &ast.UnaryExpr{Op: token.NOT, X: x.X} })
			}
		case *ast.BasicLit:
			if x.Kind == token.INT {
				old := x.Value
				switch old {
				case "0":
					point(int(x.ValuePos), "0 -> 1", func() { x.Value = "1" })
				case "1":
					point(int(x.ValuePos), "1 -> 0", func() { x.Value = "0" })
					point(int(x.ValuePos), "1 -> 2", func() { x.Value = "2" })
				default:
					point(int(x.ValuePos), old+" -> "+old+"+1", func() { x.Value = "(" + old + " + 1)" })
					point(int(x.ValuePos), old+" -> "+old+"-1", func() { x.Value = "(" + old + " - 1)" })
				}
			}
		case *ast.IfStmt:
			point(int(x.If), "negate if condition", func() { x.Cond = &ast.UnaryExpr{Op: token.NOT, X: &ast.ParenExpr{X: x.Cond}} })
			if x.Else == nil && x.Init == nil {
				point(int(x.If), "if condition -> false (body never runs)", func() { x.Cond = ast.NewIdent("false") })
				point(int(x.If), "if condition -> true (body always runs)", func() { x.Cond = ast.NewIdent("true") })
			}
		case *ast.SelectorExpr:
			for _, alt := range identSwaps[x.Sel.Name] {
				alt, old := alt, x.Sel.Name
				point(int(x.Sel.NamePos), old+" -> "+alt+" (selector)", func() { x.Sel.Name = alt })
			}
		case *ast.Ident:
			if x.Obj == nil {
				for _, alt := range identSwaps[x.Name] {
					alt, old := alt, x.Name
					point(int(x.NamePos), old+" -> "+alt+" (identifier)", func() { x.Name = alt })
				}
			}
			if x.Name == "true" && x.Obj == nil {
				point(int(x.NamePos), "true -> false", func() { x.Name = "false" })
			} else if x.Name == "false" && x.Obj == nil {
				point(int(x.NamePos), "false -> true", func() { x.Name = "true" })
			}
		case *ast.SliceExpr:
			if x.Low != nil {
				point(int(x.Lbrack), "slice low +1", func() { x.Low = &ast.BinaryExpr{X: &ast.ParenExpr{X: x.Low}, Op: token.ADD, Y: &ast.BasicLit{Kind: token.INT, Value: "1"}} })
			} else {
				point(int(x.Lbrack), "slice low nil -> 1", func() { x.Low = &ast.BasicLit{Kind: token.INT, Value: "1"} })
			}
			if x.High != nil {
				point(int(x.Lbrack), "slice high -1", func() { x.High = &ast.BinaryExpr{X: &ast.ParenExpr{X: x.High}, Op: token.SUB, Y: &ast.BasicLit{Kind: token.INT, Value: "1"}} })
				point(int(x.Lbrack), "slice high +1", func() { x.High = &ast.BinaryExpr{X: &ast.ParenExpr{X: x.High}, Op: token.ADD, Y: &ast.BasicLit{Kind: token.INT, Value: "1"}} })
			}
		case *ast.IndexExpr:
			point(int(x.Lbrack), "index +1", func() { x.Index = &ast.BinaryExpr{X: &ast.ParenExpr{X: x.Index}, Op: token.ADD, Y: &ast.BasicLit{Kind: token.INT, Value: "1"}} })
		case *ast.CallExpr:
			// empty string argument <-> non-empty, swap of two identifier arguments
			for i, a := range x.Args {
				i := i
				if bl, ok := a.(*ast.BasicLit); ok && bl.Kind == token.STRING && bl.Value == `""` {
					point(int(bl.ValuePos), `"" -> "x" (call argument)`, func() { x.Args[i] = &ast.BasicLit{Kind: token.STRING, Value: `"x"`} })
				}
			}
			// append(a, b) -> a ; strings.Title(x) -> x
			if id, ok := x.Fun.(*ast.Ident); ok && id.Name == "append" && len(x.Args) == 2 && x.Ellipsis == token.NoPos {
				// cannot replace the node from here (no parent): turn the call into append(a) which is `a`
				point(int(x.Lparen), "append(a, b) -> append(a)", func() { x.Args = x.Args[:1] })
			}
			if sel, ok := x.Fun.(*ast.SelectorExpr); ok && len(x.Args) == 1 {
				if pk, isID := sel.X.(*ast.Ident); isID && pk.Name == "strings" && sel.Sel.Name == "Title" {
					point(int(x.Lparen), "strings.Title(x) -> strings.TrimSpace(x)", func() { sel.Sel.Name = "TrimSpace" })
				}
			}
			if len(x.Args) == 2 {
				_, ok0 := x.Args[0].(*ast.Ident)
				_, ok1 := x.Args[1].(*ast.Ident)
				if ok0 && ok1 {
					point(int(x.Lparen), "swap call arguments", func() { x.Args[0], x.Args[1] = x.Args[1], x.Args[0] })
				}
			}
			// len(x) -> len(x)-1 is covered by constant/operator mutations on its uses; f(x) -> x for unary helpers of the same type
			if id, ok := x.Fun.(*ast.SelectorExpr); ok && len(x.Args) == 1 {
				if pk, isID := id.X.(*ast.Ident); isID && pk.Name == "strings" && (id.Sel.Name == "Title" || id.Sel.Name == "TrimSpace" || id.Sel.Name == "ToLower") {
					_ = pk
				}
			}
		case *ast.RangeStmt:
			point(int(x.For), "range over x[1:] (skip first)", func() { x.X = &ast.SliceExpr{X: x.X, Low: &ast.BasicLit{Kind: token.INT, Value: "1"}} })
		case *ast.IncDecStmt:
			if x.Tok == token.INC {
				point(int(x.TokPos), "++ -> += 2", func() { x.Tok = token.DEC; x.Tok = token.INC })
			}
		case *ast.BlockStmt:
			for i, st := range x.List {
				i := i
				switch s := st.(type) {
				case *ast.AssignStmt:
					if s.Tok == token.DEFINE {
						continue
					}
					point(int(s.Pos()), "delete assignment", func() { x.List[i] = &ast.EmptyStmt{Semicolon: s.Pos()} })
				case *ast.ExprStmt:
					point(int(s.Pos()), "delete call statement", func() { x.List[i] = &ast.EmptyStmt{Semicolon: s.Pos()} })
				case *ast.IncDecStmt:
					point(int(s.Pos()), "delete inc/dec", func() { x.List[i] = &ast.EmptyStmt{Semicolon: s.Pos()} })
				case *ast.BranchStmt:
					if s.Tok == token.CONTINUE {
						point(int(s.Pos()), "continue -> break", func() { s.Tok = token.BREAK })
					} else if s.Tok == token.BREAK && s.Label == nil {
						point(int(s.Pos()), "break -> continue", func() { s.Tok = token.CONTINUE })
					}
				}
			}
		}
		return true
	})
}
