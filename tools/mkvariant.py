#!/usr/bin/env python3
"""mkvariant.py <base.patch> <Cnn|refactors> <name> <expect-line> <note> (<file> <old> <new>)+
Control = a behaviour-preserving variant (base.patch, applied first) plus an exact string replacement on top;
the control patch is the diff from /repo to the result."""
import sys, os, subprocess, tempfile, shutil
base, prop, name, expect, note = sys.argv[1:6]
trip = sys.argv[6:]
assert len(trip) % 3 == 0 and trip
tmp = tempfile.mkdtemp(prefix="mkv.")
try:
    a, b = os.path.join(tmp, "a"), os.path.join(tmp, "b")
    for d in (a, b):
        subprocess.run(["rsync", "-a", "--exclude", ".git", "/repo/", d + "/"], check=True)
    src = "".join(l for l in open(base) if not l.startswith("# "))
    r = subprocess.run(["patch", "-p1", "-s", "--no-backup-if-mismatch"], cwd=b, input=src, text=True, capture_output=True)
    if r.returncode != 0:
        sys.exit("base patch does not apply: " + r.stdout + r.stderr)
    for i in range(0, len(trip), 3):
        f, old, new = trip[i:i+3]
        p = os.path.join(b, f)
        s = open(p).read()
        if s.count(old) != 1:
            sys.exit("pattern occurs %d times in %s: %r" % (s.count(old), f, old))
        open(p, "w").write(s.replace(old, new))
    out = subprocess.run(["diff", "-ruN", "-x", "*.orig", "a", "b"], cwd=tmp, capture_output=True, text=True).stdout
    d = os.path.join("/verif/controls", prop)
    os.makedirs(d, exist_ok=True)
    with open(os.path.join(d, name + ".patch"), "w") as fh:
        fh.write("# expect: %s\n# note: %s (on top of the variant %s)\n%s" % (expect, note, os.path.basename(base), out))
    print("wrote", os.path.join(d, name + ".patch"))
finally:
    shutil.rmtree(tmp)
