#!/usr/bin/env python3
"""Sensitivity/specificity controls for the spg static checker (my own CI).

Each control is a unified diff against /repo's HEAD with a header:
    # expect: violation C01 [C09 ...]     (positive control: these checks must report a violation)
    # expect: silent [C01 ...]            (negative control: a behaviour-preserving edit, listed/all checks must stay silent)
    # note: free text
The diff is applied to a scratch copy of /repo's working tree (outside /repo and
/verif, removed afterwards), the copy must still build, and the checks are run
with -repo pointing at the copy and a throw-away evidence directory.

usage: controls.py [-j N] [--props C01,C02] [--tests] [paths or directories ...]
"""
import argparse, json, os, re, shutil, subprocess, sys, tempfile
from concurrent.futures import ThreadPoolExecutor

VERIF = "/verif"
REPO = os.environ.get("SPG_REPO", "/repo")
ENV = dict(os.environ, GOFLAGS="-mod=mod", GOPROXY="off", GOSUMDB="off", GOTOOLCHAIN="local", GOWORK="off", CGO_ENABLED="0")
ALL = ["C%02d" % i for i in range(1, 19)]


def registered():
    out = subprocess.run([VERIF + "/bin/spgcheck", "list"], capture_output=True, text=True).stdout.split()
    return out


def parse_header(path):
    exp_kind, exp_props, note = None, [], ""
    for line in open(path, errors="replace"):
        m = re.match(r"#\s*expect:\s*(violation|silent)\s*(.*)", line)
        if m:
            exp_kind = m.group(1)
            exp_props = m.group(2).split()
        m = re.match(r"#\s*note:\s*(.*)", line)
        if m:
            note = m.group(1)
    return exp_kind, exp_props, note


def run_control(path, props_filter, run_tests):
    kind, props, note = parse_header(path)
    name = os.path.relpath(path, VERIF)
    if kind is None:
        return dict(name=name, status="SKIP", why="no '# expect:' header")
    have = registered()
    tmp = tempfile.mkdtemp(prefix="spgctl.", dir=os.environ.get("SPG_SCRATCH", "/tmp"))
    try:
        repo = os.path.join(tmp, "repo")
        subprocess.run(["rsync", "-a", "--exclude", ".git", REPO + "/", repo + "/"], check=True)
        ap = subprocess.run(["patch", "-p1", "-s", "--no-backup-if-mismatch", "-i", os.path.abspath(path)], cwd=repo, capture_output=True, text=True)
        if ap.returncode != 0:
            return dict(name=name, status="SKIP", why="patch does not apply: " + (ap.stdout + ap.stderr).strip()[:200])
        b = subprocess.run(["go", "build", "./..."], cwd=repo, env=ENV, capture_output=True, text=True)
        if b.returncode != 0:
            return dict(name=name, status="SKIP", why="variant does not build: " + b.stderr.strip()[:300])
        if run_tests:
            t = subprocess.run(["go", "test", "-vet=off", "-count=1", "./..."], cwd=repo, env=ENV, capture_output=True, text=True)
            if t.returncode != 0:
                return dict(name=name, status="SKIP", why="variant fails the test suite: " + t.stdout.strip()[-300:])
        vdir = os.path.join(tmp, "verif")
        os.makedirs(vdir + "/evidence")
        if os.path.exists(VERIF + "/known_findings.json"):
            shutil.copy(VERIF + "/known_findings.json", vdir)
        if kind == "violation":
            to_run = [p for p in (props or have) if p in have]
        else:
            # a behaviour-preserving edit must stay silent everywhere
            to_run = list(have) if os.environ.get("CTL_SILENT_ALL", "1") == "1" else [p for p in (props or have) if p in have]
            if os.path.basename(path).startswith("residual-") and props:
                # a recorded residual false alarm: only the listed properties are required to stay silent
                to_run = [p for p in props if p in have]
        if props_filter:
            to_run = [p for p in to_run if p in props_filter]
        flagged, details = [], {}
        for p in to_run:
            r = subprocess.run([VERIF + "/bin/spgcheck", "check", "-prop", p, "-repo", repo, "-verif", vdir], env=ENV, capture_output=True, text=True)
            if r.returncode != 0 or "VIOLATION" in r.stdout:
                flagged.append(p)
                lines = [l.strip().replace(repo + "/", "") for l in r.stdout.splitlines() if l.startswith("  ")]
                details[p] = lines[:6]
                if r.returncode not in (0, 1):
                    details[p] = ["exit %d: %s" % (r.returncode, (r.stderr or r.stdout)[-300:])]
        if kind == "violation":
            missed = [p for p in to_run if p not in flagged]
            status = "OK" if to_run and not missed else ("CONTROL-MISS" if to_run else "SKIP")
            return dict(name=name, status=status, expect="violation " + " ".join(to_run), flagged=flagged, missed=missed, details=details, note=note)
        status = "OK" if not flagged else "FALSE-ALARM"
        return dict(name=name, status=status, expect="silent", flagged=flagged, details=details, note=note)
    finally:
        shutil.rmtree(tmp, ignore_errors=True)


def main():
    ap = argparse.ArgumentParser()
    ap.add_argument("-j", type=int, default=8)
    ap.add_argument("--props", default="")
    ap.add_argument("--tests", action="store_true", help="also require the variant to pass the repository test suite")
    ap.add_argument("--json", default="")
    ap.add_argument("paths", nargs="*")
    a = ap.parse_args()
    subprocess.run([VERIF + "/run.sh", "list"], capture_output=True)  # builds the binary if stale
    paths = a.paths or [VERIF + "/controls", VERIF + "/seeded"]
    files = []
    for p in paths:
        if not os.path.exists(p):
            continue
        if os.path.isdir(p):
            for root, _, fs in sorted(os.walk(p)):
                for f in sorted(fs):
                    if f.endswith(".patch") or f.endswith(".diff"):
                        files.append(os.path.join(root, f))
        else:
            files.append(p)
    pf = [x for x in a.props.split(",") if x]
    with ThreadPoolExecutor(max_workers=a.j) as ex:
        results = list(ex.map(lambda f: run_control(f, pf, a.tests), files))
    bad = 0
    for r in results:
        line = "%-12s %s" % (r["status"], r["name"])
        if r["status"] in ("CONTROL-MISS", "FALSE-ALARM"):
            bad += 1
        if r.get("flagged"):
            line += "  flagged=" + ",".join(r["flagged"])
        if r.get("missed"):
            line += "  MISSED=" + ",".join(r["missed"])
        if r.get("why"):
            line += "  (" + r["why"] + ")"
        print(line)
        if r["status"] in ("CONTROL-MISS", "FALSE-ALARM") or os.environ.get("CTL_VERBOSE"):
            for p, ls in (r.get("details") or {}).items():
                for l in ls:
                    print("      %s: %s" % (p, l))
    if a.json:
        json.dump(results, open(a.json, "w"), indent=1)
    print("controls: %d run, %d bad" % (len(results), bad))
    sys.exit(1 if bad else 0)


if __name__ == "__main__":
    main()
