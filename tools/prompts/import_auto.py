import subprocess, re, os, sys
pref, suf = sys.argv[1], sys.argv[2]   # e.g. F e
base='/tmp/lround'
for b in sorted(os.listdir(base)):
    if not re.fullmatch(pref+r'\d\d', b): continue
    prop='C'+b[1:]
    for m in sorted(os.listdir(base+'/'+b)):
        src=base+'/'+b+'/'+m
        if not re.fullmatch(r'm\d', m) or 'CONFIRMED' not in open(src+'/verify.txt').read().split() or not os.path.exists(src+'/patch.diff') or not os.path.exists(src+'/matrix.txt'): continue
        mx=open(src+'/matrix.txt').read().splitlines()
        mm=re.search(r'flagged=(\S+)', mx[0]) if mx else None
        flagged=mm.group(1).split(',') if mm else []
        if prop not in flagged:
            print('NOT-CAUGHT', b, m, flagged); continue
        readme=open(src+'/README.md').read() if os.path.exists(src+'/README.md') else ''
        text=re.sub(r'[`*#>]','',readme)
        paras=[p.strip().replace('\n',' ') for p in text.split('\n\n') if len(p.strip())>60]
        summary=(paras[0] if paras else 'see README.md')[:420]
        own=[l.strip() for l in mx[1:] if l.strip().startswith(prop+':')]
        rule=re.sub(r'(?i)^\S+: (VIOLATED|UNDECIDED) ','',own[0]) if own else '?'
        others=[f for f in flagged if f!=prop]
        caught="%s %s"%(prop,rule[:160])+("; also flagged by "+",".join(others) if others else "")
        sid='%s-%s%s'%(prop,suf,m[1:])
        needs=next((q[:400] for q in paras if re.search(r'(?i)\bneeds?\b|manifest|requires|only when|only if', q)), 'see README.md')
        subprocess.run(['python3','/verif/tools/import_seed.py',src,sid,prop,summary,needs,caught],check=True,capture_output=True)
        print('imported',sid)
