#!/bin/bash
# matrix.sh <patch.diff> : which of the 18 rule sets flag it (tree as written, one load), first open obligation per property
P=$(realpath "$1"); T=$(mktemp -d /tmp/mx.XXXX); rsync -a --exclude .git /repo/ $T/repo/
(cd $T/repo && grep -v '^# ' "$P" | patch -p1 -s --no-backup-if-mismatch >/dev/null 2>&1)
out=$(SPG_VERIF=/verif /verif/bin/spgcheck checkall $T/repo 2>/dev/null)
fl=$(echo "$out" | awk '$2!="bad=0"{print $1}' | paste -sd,)
echo "MATRIX flagged=$fl"
echo "$out" | awk '$2!="bad=0"{ $2=""; print "   " $1 ": " toupper(substr($3,1,1)) substr($0, index($0,$3)+1) }' | sed -E 's/: Vviolated /: VIOLATED /; s/: Uundecided /: UNDECIDED /; s/: violated /: VIOLATED /; s/: undecided /: UNDECIDED /' | cut -c1-260
rm -rf $T
