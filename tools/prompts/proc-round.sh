#!/bin/bash
# proc.sh Lnn : verify + matrix both mutants
n=$1; c=C${n:1}
for k in m1 m2; do
  d=/tmp/lround/$n/$k
  [ -f $d/patch.diff ] || { echo "$n/$k: no patch"; continue; }
  echo "##### $n/$k"
  /verif/tools/verify_seed.sh $d 2>&1 | grep -E "RESULT|CONFIRMED" | tee $d/verify.txt
  /tmp/seedout/matrix.sh $d/patch.diff > $d/matrix.txt 2>&1; head -4 $d/matrix.txt | cut -c1-300
done
