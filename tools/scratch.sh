#!/bin/bash
# scratch.sh <patch> : make a scratch copy of /repo with the patch applied under /tmp/scr.N/repo and print the path (remove it yourself)
P=$(realpath "$1") || exit 2
T=$(mktemp -d /tmp/scr.XXXX); rsync -a --exclude .git /repo/ $T/repo/; (cd $T/repo && patch -p1 -s --no-backup-if-mismatch -i "$P" </dev/null) >&2; mkdir -p $T/verif/evidence; cp /verif/known_findings.json $T/verif/; echo $T
