#!/usr/bin/env python3
"""Regenerates /verif/MANIFEST.json from the table below (kept in one place so the manifest stays valid)."""
import json, subprocess

ENVV = "GOFLAGS=-mod=mod GOPROXY=off GOSUMDB=off GOTOOLCHAIN=local GOWORK=off CGO_ENABLED=0"

# id -> (technique, level text, level note, design ref)
CLAIMED = {
    "C01": ("SSA schema matching: rejection-sampling table (power-of-two mask, high/low threshold, Lemire multiply-shift) + who-may-consume the raw word + paper lemma",
            "Static decision that the bounded-draw routine is an instance of a rejection-sampling schema proven uniform for every n and every raw word, that the raw word is 4 fully-read CSPRNG bytes, and that nobody else consumes raw words. Holds for all inputs at once because it is a statement about the code's shape; not a machine-checked proof (schema lemma is on paper).",
            "Trusted: go/ssa model, crypto/rand.Read contract, encoding/binary, the paper lemma. Not decided: compiled code, crypto/rand internals.",
            "DESIGN.md section 3 C01"),
    "C09": ("forbidden-import / who-may-read / error-discipline (dominance) / no-recover / index-provenance rules over SSA and the VTA call graph",
            "Static decision that crypto/rand is the only randomness reachable, read with a short-read-safe call whose error is inspected, every buffer use on the no-error edge, the error edge failing closed, no recover anywhere, and every non-constant index on generation paths a counter or a bounded draw. Covers all recipes, streams and failure positions because there is exactly one read site and the rule is over its CFG.",
            "Trusted: crypto/rand.Read/io.ReadFull contract, OS source, go/ssa model, VTA call graph. Not decided: alphabet order non-determinism from map iteration (harmless).",
            "DESIGN.md section 3 C09"),
    "C16": ("constant/table extraction from types and the initialiser's SSA, compared with the documented values; list literals vs testdata files; retry loop of exactly MaxTrials attempts; effect analysis re-run (no state carried between calls of the character recipe); module-wide who-may-write rule with an empty allow-list on every package-level variable of the library (stores, map/slice updates, address escapes)",
            "Exhaustive static comparison of the finite set of documented constants, defaults, preset recipes and embedded list entries with the source; preset behaviour reduces to C01/C02/C06 for the extracted recipe.",
            "Trusted: go/constant, go/ssa lowering of composite literals. Not decided: output distribution of presets as such.",
            "DESIGN.md section 3 C16"),
    "C07": ("counting-schema matching (inclusion-exclusion over the power set of the required family, exact big-integer accumulator) + wiring provenance + log2 mantissa/exponent shape + EFF purity, with a paper lemma",
            "Partial: decides that the count is computed by an instance of a schema proven exact for every family of (possibly overlapping) required sets and every length, fed exactly the builder's sets and Length, and that the logarithm is taken by the mantissa/exponent split; the numeric equality itself and float32 rounding are not evaluated. The pinned tree's recursion (exact only for disjoint sets) was reported and repaired.",
            "Trusted: math/big, math.Log2, golang-set PowerSet/Union/Difference/Cardinality, the inclusion-exclusion lemma. Not decided: float rounding; numeric agreement for particular recipes.",
            "DESIGN.md section 3 C07"),
    "C08": ("map-iteration-order independence rule (cross-key mutation => no carried state), additive-term ledger of Entropy() on the SSA value graph, EFF purity, kept-set rules of the word-list constructor re-run",
            "Static decision that nothing NewWordList stores depends on map iteration order and that WLRecipe.Entropy() is the sum of exactly the documented terms under exactly the documented conditions; holds for all lists/orders/repetitions because it is a property of the code's dataflow.",
            "Trusted: strings.Title pure, math.Log2, Go map-range semantics. Not decided: float32 rounding, numeric values.",
            "DESIGN.md section 3 C08"),
    "C10": ("SSA shape rules on the constructor: parameter read-only and not retained (EFF), keys-of-one-map provenance of kept words, documented-deletion-only, empty-list guard dominance, who-may-write WordList",
            "Static decision of each structural clause of the normalisation; order/multiplicity independence follows from dedupe-by-map-keys plus the documented deletion and Title idempotence (trusted).",
            "Trusted: strings.Title idempotent; Go map semantics. Not decided: value-level behaviour of Title on non-ASCII.",
            "DESIGN.md section 3 C10"),
    "C14": ("interprocedural effect/ownership analysis (write roots: local, fresh, parameter, global, captured) over SSA + VTA call graph",
            "Shows that no API entry point can write memory shared between calls (receiver, arguments, globals, captured variables); a race needs such a write, so all interleavings are covered at once.",
            "Trusted: golang-set thread-safe variant, read-only stdlib functions as listed, go/ssa model. Not decided: races inside dependencies; callers mutating shared recipes.",
            "DESIGN.md section 3 C14"),
    "C15": ("effect/ownership analysis + definite recomputation of computed fields before every read + hidden-input (ambient call / draw reachability) rules",
            "Shows no state survives an API call and derived fields are re-derived before use, hence results depend only on current public fields and the bytes drawn in the call; covers all call sequences.",
            "Trusted: as C14. Not decided: user-supplied separator functions; caller reassigning exported package variables.",
            "DESIGN.md section 3 C15"),
    "C18": ("interprocedural taint analysis (sources: draws and CSPRNG buffer; sinks: output/log/panic/error/global in package spg) over SSA + VTA call graph",
            "Shows that no value derived from a draw can reach an output, log, panic message, error text or package variable of the library, for all recipes and streams including rejected candidates; every sink site is inventoried.",
            "Trusted: foreign functions do not stash arguments in global state; go/ssa model. Not decided: control dependence, timing, what callers do with the Password.",
            "DESIGN.md section 3 C18"),
    "C12": ("panic-site enumeration over Tokenize's call tree + linear/parity bounds prover (Fourier-Motzkin over dominating guards and loop invariants) + CFG dominance rules for the error clauses; token values cut from the string itself (no rune re-encoding)",
            "Static decision of the no-panic clause and the error clauses of Tokenize for every string/index/entropy triple: each potentially panicking instruction is an obligation discharged from dominating conditions; success returns need a declared kind, a non-empty index and (full kind) an odd length.",
            "Trusted: strings.Split/Join and fmt.Errorf total; no int overflow on lengths; go/ssa model. Not decided: value-level equality of reconstructed tokens.",
            "DESIGN.md section 3 C12"),
    "C13": ("return-pair and guard-dominance rules, context-sensitive panic-freedom of the Generate call trees (nilness facts + linear bounds prover + size summaries), counted retry loop, SuccessProbability shape with the counting-schema rules re-run",
            "Partial (structural clauses): error/nil discipline, guards dominate draws, bounds >= 1, no reachable panic other than the intended CSPRNG-failure panic, attempt budget. The numeric clause (SuccessProbability exact; ordinary recipes never refused) is not decided.",
            "Trusted: listed foreign functions do not panic; set interface values non-nil; no int/uint32 wrap. NOT decided: exactness of SuccessProbability; the NaN refusal for overlapping required sets is not reported.",
            "DESIGN.md section 3 C13"),
    "C11": ("writer/reader agreement rules: unit-of-measure dataflow (bytes vs characters), kind-table and layout agreement, linear prover for the narrowing-conversion guard, decoded values cut from the string itself",
            "Static decision that encoder (MakeIndices, Kind) and decoder (Tokenize) agree on units, kind tables, per-kind layout and sizes, and that lossy conversions are guarded exactly at 255; with Split/Join inverse (trusted) this gives the round trip for all tokens of 1..255 characters, ASCII or not.",
            "Trusted: strings.Split(s,\"\")/Join inverse on character boundaries; utf8.RuneCountInString counts the same units. Not decided: value equality as such.",
            "DESIGN.md section 3 C11"),
    "C17": ("table extraction from the CLI's initialiser, provenance of recipe-field stores, CFG path rules on main with exit calls as terminators (exit statuses, exactly-one-stdout-write), stdout who-may-write over the call graph, handle discipline on os.Stdout (used only as destination of counted writes), who-may-write rule on the CLI's package-level tables and defaults",
            "Partial (structural clauses, CLI not executed): flag-word tables, defaults, recipe wiring, exit statuses and stdout discipline decided for all command lines at once on the source. That the printed password satisfies the recipe is C03/C05 for the wired recipe.",
            "Trusted: package flag (ExitOnError => status 2), log.Fatal (stderr, status 1). Not decided: behaviour for unknown separator/class words; the binary's runtime behaviour.",
            "DESIGN.md section 3 C17"),
    "C02": ("SSA provenance and shape rules on the generation loop: alphabet-from-set provenance, bound/collection agreement, per-position counted draw loop, whole-candidate rejection (dominance of the return by the filter, full-length candidates, filter-only retries), all-of filter sweep, draw-schema and exclusion-dominance rules re-run; plus a paper lemma",
            "Decides the structural necessary conditions (duplicate-free alphabet, bound = len of the indexed slice, one fresh draw per position, candidates discarded entirely, filter is all-of) that with C01, C03 and the stated lemma give the uniform distribution over exactly the allowed strings. The distribution itself is not computed.",
            "Trusted: golang-set holds each element once and Iter yields it once; strings.ContainsAny; the lemma; C01. Not decided: the counting statement; invalid UTF-8.",
            "DESIGN.md section 3 C02"),
    "C03": ("forward 'exclusion-dominance' dataflow over set-typed SSA values and memory cells in the alphabet builder, flag-table exhaustiveness and role rules, generation-shape rules shared with C02, Alphabet() provenance",
            "Decides that the alphabet, the allowed set and every required set are of the form …Difference(E) with E built from all excluded classes and characters, that all flags and custom strings reach their role, that results have Length single-character atoms accepted by the all-of filter, and that Alphabet() is the sorted builder output.",
            "Trusted: golang-set algebra, sort.Strings, strings.Join. Not decided: string semantics of the filter beyond its shape; invalid UTF-8.",
            "DESIGN.md section 3 C03"),
    "C04": ("draw-site rules on WLRecipe.Generate: bound/collection agreement (size summary of the indexed list on the same struct copy), single-use of each draw, per-position counted loops, separator call per gap with no carried value",
            "Decides the structural conditions under which, given C01, word, capitalised-position, coin and separator choices are uniform and independent (product argument). The distributions themselves are not computed.",
            "Trusted: C01; the property's title-casing premise. Not decided: user-supplied separator functions.",
            "DESIGN.md section 3 C04"),
    "C05": ("SSA shape rules on the token-assembly loop, the capitalisation switch and the accessors (in-order sweeps)",
            "Decides the token structure for all lists, lengths, schemes and separators from the shape of the assembly loop. One recorded known finding: the atom append is guarded by len(w) > 0 (empty-string word).",
            "Trusted: strings.Title, append. Known finding listed in known_findings.json.",
            "DESIGN.md section 3 C05"),
    "C06": ("must-flow rule for Password.Entropy, additive-term ledger of Entropy() matched against the draw sites of Generate, gate predicate shape, builder agreement for the character recipe, draw-schema/alphabet-provenance/filter rules re-run",
            "Partial: decides that the reported entropy is the recipe's Entropy() for the recipe the draws were made for and that every entropy term is matched by the randomness actually consumed (no term without draws, same schemes on both sides, gate = all capitalisable). The probability bound itself (needs the exact distribution) is not decided.",
            "Trusted: C01/C02/C04, math.Log2. Not decided: P(password) <= 2^-Entropy as such; the required-sets count (C07).",
            "DESIGN.md section 3 C06"),
}

NOT_APPLICABLE = {
}

PENDING_REASON = "check not built yet in this round (see DESIGN.md section 9 build order); no claim is made"


def main():
    have = subprocess.run(["/verif/bin/spgcheck", "list"], capture_output=True, text=True).stdout.split()
    checks = []
    na = []
    for i in range(1, 19):
        pid = "C%02d" % i
        if pid in CLAIMED and pid in have:
            tech, text, note, ref = CLAIMED[pid]
            checks.append({
                "property_id": pid,
                "quick_cmd": "./run.sh check -prop %s -tier quick" % pid,
                "thorough_cmd": "./run.sh check -prop %s -tier thorough" % pid,
                "evidence_file": "/verif/evidence/%s.json" % pid,
                "replay_cmd_template": "./run.sh explain {path}",
                "engine": "spgcheck",
                "level_claimed": {"category": "other", "text": text, "design_ref": ref},
                "level_note": note,
                "technique": "static analysis: " + tech,
            })
        elif pid in NOT_APPLICABLE:
            na.append({"property_id": pid, "reason": NOT_APPLICABLE[pid]})
        else:
            na.append({"property_id": pid, "reason": PENDING_REASON})
    m = {
        "version": 1,
        "setup_cmd": "cd /verif/checker && %s go build -o /verif/bin/spgcheck ./cmd/spgcheck" % ENVV,
        "hooks": {
            "guard": "verif",
            "enable": "none needed: static analysis reads /repo's source; no instrumentation, no build tag is used",
            "baseline_off_cmd": "cd /repo && %s go test -vet=off -count=1 ./..." % ENVV,
            "source_commits": [],
            "add_only": True,
        },
        "engines": [{
            "name": "spgcheck",
            "path": "/verif/checker",
            "serves_properties": [c["property_id"] for c in checks],
            "kind_free_text": "repository-specific static analyser (go/packages + go/types + go/ssa + VTA call graph, x/tools v0.29.0); rules per property in checker/internal/rules",
        }],
        "checks": checks,
        "not_applicable": na,
        "notes": "All checks are static: they load /repo's current working tree on every run, never execute it. known_findings.json lists recorded findings and fixed defects. tools/controls.py is the checker's own sensitivity/specificity CI (controls/, seeded/).",
    }
    json.dump(m, open("/verif/MANIFEST.json", "w"), indent=1)
    print("claimed:", [c["property_id"] for c in checks], "not_applicable:", [n["property_id"] for n in na])


main()
