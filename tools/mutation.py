#!/usr/bin/env python3
"""Mutation run against the checker (a measurement tool, not a check).

Generates single-point syntactic mutants of /repo's non-test sources (bin/mutgen),
and for each: applies it to a scratch copy, builds, runs the pinned test suite, and — for
mutants the suite does not kill — runs all 18 rule sets (spgcheck checkall). Output: a
JSON list and a summary; mutants that survive the suite AND every check are the
interesting ones (equivalent mutants, or blind spots) and are listed for triage.

usage: mutation.py [-j N] [--out FILE] [--only 0001,0002]
"""
import argparse, json, os, shutil, subprocess, sys, tempfile
from concurrent.futures import ThreadPoolExecutor
VERIF="/verif"; REPO="/repo"
ENV=dict(os.environ, GOFLAGS="-mod=mod", GOPROXY="off", GOSUMDB="off", GOTOOLCHAIN="local", GOWORK="off", CGO_ENABLED="0")

def run_one(base, patch):
    name=os.path.basename(patch)[:-6]
    desc=open(patch).readline().strip().replace("# mutant: ","")
    tmp=tempfile.mkdtemp(prefix="spgmut.", dir="/tmp")
    try:
        repo=tmp+"/repo"
        subprocess.run(["rsync","-a",base+"/",repo+"/"],check=True)
        ap=subprocess.run(["patch","-p1","-s","--no-backup-if-mismatch","-i",patch],cwd=repo,capture_output=True,text=True,stdin=subprocess.DEVNULL)
        if ap.returncode!=0: return dict(name=name,desc=desc,status="no-apply")
        b=subprocess.run(["go","build","./..."],cwd=repo,env=ENV,capture_output=True,text=True)
        if b.returncode!=0: return dict(name=name,desc=desc,status="no-build")
        try:
            t=subprocess.run(["go","test","-vet=off","-count=1","./..."],cwd=repo,env=ENV,capture_output=True,text=True,timeout=180)
        except subprocess.TimeoutExpired:
            return dict(name=name,desc=desc,status="killed-by-suite",why="timeout")
        if t.returncode!=0: return dict(name=name,desc=desc,status="killed-by-suite")
        c=subprocess.run([VERIF+"/bin/spgcheck","checkall",repo],env=ENV,capture_output=True,text=True)
        flagged={}
        if os.environ.get("MUT_DEBUG"): print(c.stdout[-1500:], c.stderr[-500:])
        for line in c.stdout.splitlines():
            f=line.split(" ",2)
            if len(f)>=2 and f[1].startswith("bad=") and f[1]!="bad=0":
                flagged[f[0]]=(f[2] if len(f)>2 else "").replace(repo+"/","")[:200]
        if "LOAD-ERROR" in c.stdout: flagged["LOAD"]=c.stdout.strip()[:200]
        return dict(name=name,desc=desc,status="flagged" if flagged else "SILENT",flagged=flagged)
    finally:
        shutil.rmtree(tmp,ignore_errors=True)

def main():
    ap=argparse.ArgumentParser(); ap.add_argument("-j",type=int,default=12); ap.add_argument("--out",default="/tmp/mutation.json"); ap.add_argument("--only",default="")
    a=ap.parse_args()
    work=tempfile.mkdtemp(prefix="spgmutbase.",dir="/tmp")
    try:
        base=work+"/base"
        subprocess.run(["rsync","-a","--exclude",".git",REPO+"/",base+"/"],check=True)
        subprocess.run([VERIF+"/bin/mutgen",base,work+"/patches"],check=True,stdout=subprocess.DEVNULL)
        # the printer-normalised base must itself pass
        c=subprocess.run([VERIF+"/bin/spgcheck","checkall",base],env=ENV,capture_output=True,text=True)
        assert all(" bad=0" in l for l in c.stdout.splitlines() if l.startswith("C")), c.stdout
        patches=sorted(os.path.join(work,"patches",f) for f in os.listdir(work+"/patches") if f.endswith(".patch"))
        if a.only: patches=[p for p in patches if os.path.basename(p)[:-6] in a.only.split(",")]
        with ThreadPoolExecutor(max_workers=a.j) as ex:
            res=list(ex.map(lambda p: run_one(base,p), patches))
        # keep the diffs of the silent ones
        for r in res:
            if r["status"]=="SILENT":
                r["diff"]=open(os.path.join(work,"patches",r["name"]+".patch")).read()
        json.dump(res,open(a.out,"w"),indent=1)
        from collections import Counter
        print(Counter(r["status"] for r in res))
        for r in res:
            if r["status"]=="SILENT": print("SILENT",r["name"],r["desc"])
    finally:
        shutil.rmtree(work,ignore_errors=True)
main()
