#!/usr/bin/env python3
"""mkpatch.py <Cnn> <name> <expect-line> <note> (<file> <old> <new>)+  -- build a control patch by exact string replacement against /repo."""
import sys, os, subprocess, tempfile, shutil
prop, name, expect, note = sys.argv[1:5]
trip = sys.argv[5:]
assert len(trip) % 3 == 0 and trip
tmp = tempfile.mkdtemp(prefix="mkp.")
try:
    a, b = os.path.join(tmp, "a"), os.path.join(tmp, "b")
    os.makedirs(a); os.makedirs(b)
    files = sorted(set(trip[0::3]))
    for f in files:
        for d in (a, b):
            os.makedirs(os.path.dirname(os.path.join(d, f)), exist_ok=True)
            shutil.copy(os.path.join("/repo", f), os.path.join(d, f))
    for i in range(0, len(trip), 3):
        f, old, new = trip[i:i+3]
        p = os.path.join(b, f)
        s = open(p).read()
        if s.count(old) != 1:
            sys.exit("pattern occurs %d times in %s: %r" % (s.count(old), f, old))
        open(p, "w").write(s.replace(old, new))
    out = subprocess.run(["diff", "-ruN", "a", "b"], cwd=tmp, capture_output=True, text=True).stdout
    if not out.strip():
        sys.exit("empty diff")
    d = os.path.join("/verif/controls", prop)
    os.makedirs(d, exist_ok=True)
    with open(os.path.join(d, name + ".patch"), "w") as fh:
        fh.write("# expect: %s\n# note: %s\n%s" % (expect, note, out))
    print("wrote", os.path.join(d, name + ".patch"))
finally:
    shutil.rmtree(tmp)
