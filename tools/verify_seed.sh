#!/bin/bash
# verify_seed.sh <dir containing patch.diff and a demo (demo_test.go or *.go program)> — confirm a seeded change in a scratch worktree:
# applies, builds, passes the suite; demo fails with the change and passes without. Prints a summary; removes the worktree.
set -u
export GOFLAGS=-mod=mod GOPROXY=off GOSUMDB=off GOTOOLCHAIN=local GOWORK=off
D=$(realpath "$1"); W=/tmp/wt/verify.$$
git -C /repo worktree add -f --detach "$W" HEAD >/dev/null 2>&1 || { echo "cannot create worktree"; exit 2; }
trap 'git -C /repo worktree remove --force "$W" >/dev/null 2>&1; rm -rf "$W"' EXIT
cd "$W"
demos=$(ls "$D"/*_test.go 2>/dev/null)
rundemo() { # returns exit status of the demo
  if [ -n "$demos" ]; then
    cp $demos "$W"/ ; names=$(grep -ho '^func Test[A-Za-z0-9_]*' $demos | sed 's/func //' | paste -sd'|')
    go test -vet=off -count=1 -run "^($names)\$" . > "$W/.demo.out" 2>&1; rc=$?
    for f in $demos; do rm -f "$W/$(basename $f)"; done
    return $rc
  fi
  prog=$(ls -d "$D"/demo "$D"/demo*/ 2>/dev/null | head -1)
  if [ -n "$prog" ] && [ -d "$prog" ]; then
     mkdir -p "$W/cmd/zzdemo" && cp "$prog"/*.go "$W/cmd/zzdemo/" && go run ./cmd/zzdemo > "$W/.demo.out" 2>&1; rc=$?; rm -rf "$W/cmd/zzdemo"; return $rc
  fi
  echo "no demo found" > "$W/.demo.out"; return 99
}
echo "== without the change"; rundemo; base=$?; tail -3 "$W/.demo.out"
git apply "$D/patch.diff" || { echo "RESULT patch does not apply"; exit 1; }
go build ./... || { echo "RESULT does not build"; exit 1; }
ok=1; for i in 1 2 3; do go test -vet=off -count=1 ./... > "$W/.suite.out" 2>&1 || ok=0; done
echo "== with the change: suite ok=$ok"; [ $ok = 1 ] || tail -5 "$W/.suite.out"
rundemo; mut=$?; tail -6 "$W/.demo.out"
echo "RESULT applies=1 builds=1 suite_pass=$ok demo_without=$base demo_with=$mut"
[ $ok = 1 ] && [ $base = 0 ] && [ $mut != 0 ] && echo "CONFIRMED" || echo "NOT-CONFIRMED"
