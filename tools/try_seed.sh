#!/bin/bash
# try_seed.sh <patch.diff> [props...] — run the checks against a scratch copy with the patch applied (via controls.py), verbose.
P=$(realpath "$1"); shift
T=$(mktemp /tmp/tryseed.XXXX.patch)
{ echo "# expect: violation $*"; cat "$P"; } > "$T"
CTL_VERBOSE=1 python3 /verif/tools/controls.py "$T" 2>&1 | cut -c1-330
rm -f "$T"
