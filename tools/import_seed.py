#!/usr/bin/env python3
"""import_seed.py <srcdir> <id> <property> "<summary>" "<needs>" "<caught_by>" — copy a confirmed sub-agent change into /verif/seeded/<id>/."""
import json, os, shutil, subprocess, sys
src, sid, prop, summary, needs, caught = sys.argv[1:7]
dst = "/verif/seeded/" + sid
os.makedirs(dst, exist_ok=True)
body = open(src + "/patch.diff").read()
with open(dst + "/patch.diff", "w") as f:
    f.write("# expect: violation %s\n# note: %s\n%s" % (prop, summary, body))
for fn in os.listdir(src):
    if fn.endswith("_test.go") or fn == "README.md":
        shutil.copy(src + "/" + fn, dst + "/" + fn)
    if os.path.isdir(src + "/" + fn) and fn.startswith("demo"):
        shutil.copytree(src + "/" + fn, dst + "/" + fn, dirs_exist_ok=True)
head = subprocess.run(["git", "-C", "/repo", "rev-parse", "--short", "HEAD"], capture_output=True, text=True).stdout.strip()
meta = dict(id=sid, property=prop, summary=summary, needs=needs,
            author="fresh sub-agent given only the property text and a scratch git worktree of /repo (HEAD %s), tenth round (two cooperating edits / change outside the central mechanism)" % head,
            confirmed="tools/verify_seed.sh in a scratch worktree: git apply ok, go build ok, suite passes 3x, demonstration passes without the change and fails with it",
            ran="tools/try_seed.sh patch.diff (all 18 checks against a scratch copy with the patch applied); python3 tools/controls.py seeded/",
            caught_by=caught)
json.dump(meta, open(dst + "/meta.json", "w"), indent=1)
print("imported", dst)
